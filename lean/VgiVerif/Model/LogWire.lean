import VgiVerif.Model.Engine
import VgiVerif.Gen.LogWire
import VgiVerif.Gen.LogDispatch
/-
LogWire — the log / error batch codec shared by C07 and C08.

Server side   `Message.from_exception`, `Message.add_to_metadata` (vgi_rpc/log.py), `_write_message_batch` (rpc/_wire.py)
Client side   `_dispatch_log_or_error` (rpc/_wire.py) — transliterated branch by branch over the shape flags that
              `extract/gen_c08.py` reads off the function's AST (`Gen.LogDispatch.shape`): each flag says whether one
              guard of the repaired code is present, so removing a guard in the source changes the model and breaks the
              proofs that are stated over `Gen.LogDispatch.shape`.

Abstracted (TRUSTED, exercised by the correspondence run): Arrow IPC framing; UTF-8 decoding (a metadata value arrives
as "is it valid UTF-8" + its `decode("utf-8","replace")` text); `json.loads` (arrives as its outcome); `json.dumps`
/`json.loads` round trip on the server's own extras; `str(v)` of a non-string JSON value (`render`).
-/
namespace VgiVerif.LogWire
open VgiVerif.Engine (Str Log)

/-! ## JSON values and Python dict access -/

inductive Json where
  | null
  | bool (b : Bool)
  | num (repr : Str)              -- int / float, carried by its Python `str()` text
  | str (s : Str)
  | arr (xs : List Json)
  | obj (kvs : List (Str × Json)) -- a parsed object = Python dict (keys unique, insertion order)
deriving Repr

/-- `d.get(k)` on a dict given as an association list -/
def lookup (k : Str) : List (Str × Json) → Option Json
  | [] => none
  | (k', v) :: r => if k' = k then some v else lookup k r

/-- `str(v)` for a value that came out of `json.loads`: strings are themselves; other leaves by their Python text;
containers are rendered opaquely (the correspondence canonicalises them the same way) -/
def pyStr : Json → Str
  | .str s => s
  | .null => "None".toList
  | .bool true => "True".toList
  | .bool false => "False".toList
  | .num r => r
  | .arr _ => "?".toList
  | .obj _ => "?".toList

/-! ## Wire metadata of one batch, as `_dispatch_log_or_error` reads it -/

/-- a metadata value (bytes): is it valid UTF-8, and its `decode("utf-8", "replace")` text (= `decode()` when valid) -/
structure MdVal where
  valid : Bool
  text : Str
deriving Repr

/-- outcome of `json.loads(text)` -/
inductive Parsed where
  | ok (j : Json)
  | jsonError                     -- json.JSONDecodeError
  | valueError                    -- another ValueError (integer string conversion limit)
  | recursion                     -- RecursionError (nesting deeper than the interpreter allows)
deriving Repr

structure Meta where
  level : Option MdVal
  message : Option MdVal
  extra : Option (MdVal × Parsed)
  errorKind : Option MdVal
  serverId : Option MdVal
  requestId : Option MdVal
deriving Repr

structure WireBatch where
  rows : Nat
  md : Option Meta
deriving Repr

inductive PyExc where
  | unicodeDecodeError | typeError | attributeError | valueError | recursionError
deriving Repr, DecidableEq

/-- client-side `RpcError` -/
structure RpcErr where
  type : Str
  message : Str
  traceback : Str
  requestId : Str
  kind : Option Str
deriving Repr, DecidableEq

inductive Outcome where
  | data                          -- `return False`: not a log batch, the caller treats it as data
  | delivered (l : Log)           -- `on_log(msg)`; `return True`
  | ignored                       -- `return True` without a callback (unknown level)
  | raiseRpc (e : RpcErr)         -- EXCEPTION level
  | crash (x : PyExc)             -- any other exception escaping the function = the RPC call fails
deriving Repr, DecidableEq

open VgiVerif.Gen.LogDispatch (Shape)

def decode (replace : Bool) (v : MdVal) : Except PyExc Str :=
  if replace || v.valid then .ok v.text else .error .unicodeDecodeError

/-- `raw_extra_data`: what the rest of the function sees of `vgi_rpc.log_extra`.  `none` = a non-dict value was kept
(only possible without the `isinstance(parsed, dict)` guard). -/
def readExtra (sh : Shape) : Option (MdVal × Parsed) → Except PyExc Json
  | none => .ok (.obj [])
  | some (v, p) => do
    let _ ← decode sh.extraReplace v
    match p with
    | .ok j =>
      match j with
      | .obj kvs => .ok (.obj kvs)
      | other => if sh.extraDictOnly then .ok (.obj []) else .ok other
    | .jsonError => .ok (.obj [])                                   -- always suppressed
    | .valueError => if sh.jsonCatchAll then .ok (.obj []) else .error .valueError
    | .recursion => if sh.jsonCatchAll then .ok (.obj []) else .error .recursionError

/-- `raw_extra_data.get(k)` -/
def getKey (d : Json) (k : Str) : Except PyExc (Option Json) :=
  match d with
  | .obj kvs => .ok (lookup k kvs)
  | _ => .error .attributeError

/-- `raw_extra_data.items()` -/
def items (d : Json) : Except PyExc (List (Str × Json)) :=
  match d with
  | .obj kvs => .ok kvs
  | _ => .error .attributeError

def isLevel (s : Str) : Bool := VgiVerif.Gen.LogWire.levels.any (· == s)

/-- Python dict assignment `d[k] = v` (replace in place, else append) -/
def dictSet (d : List (Str × Str)) (k v : Str) : List (Str × Str) :=
  if d.any (·.1 == k) then d.map (fun (k', v') => if k' == k then (k', v) else (k', v')) else d ++ [(k, v)]

open VgiVerif.Gen.LogWire in
/-- `_dispatch_log_or_error(batch, custom_metadata, on_log)` -/
def dispatchLog (sh : Shape) (b : WireBatch) : Outcome :=
  match b.md with
  | none => .data
  | some md =>
    if b.rows != 0 then .data else
    match md.level, md.message with
    | some lv, some mv =>
      let r : Except PyExc Outcome := do
        let levelStr ← decode sh.levelReplace lv
        let messageStr ← decode sh.messageReplace mv
        let extraData ← readExtra sh md.extra
        let requestId ← match md.requestId with
          | none => pure []
          | some v => decode sh.requestIdReplace v
        if levelStr = exceptionLevel then
          let errorType := pyStr ((← getKey extraData excTypeKey).getD (.str levelStr))
          let tb := pyStr ((← getKey extraData tracebackKey).getD (.str []))
          let kind ← match md.errorKind with
            | some kv => do pure (some (← decode sh.kindReplace kv))
            | none => do
              match (← getKey extraData kindExtraKey) with
              | some (.str s) => pure (some s)
              | _ => pure none
          pure (.raiseRpc ⟨errorType, messageStr, tb, requestId, kind⟩)
        else
          if sh.levelGuarded && !isLevel levelStr then pure .ignored else
          let extra := (← items extraData).map fun (k, v) => (k, pyStr v)
          let extra ← match md.serverId with
            | none => pure extra
            | some v => do pure (dictSet extra serverIdExtraKey (← decode sh.serverIdReplace v))
          let extra := if requestId ≠ [] then dictSet extra requestIdExtraKey requestId else extra
          if !isLevel levelStr then throw .valueError                       -- `Level(level_str)`
          if !sh.extraNoKwargs && extra.any (fun (k, _) => messageParams.any (· == k)) then
            throw .typeError                                                 -- `Message(level, message, **extra)`
          pure (.delivered ⟨levelStr, messageStr, extra⟩)
      match r with
      | .ok o => o
      | .error x => .crash x
    | _, _ => .data

/-! ## Server side: `Message.from_exception` + `add_to_metadata` + `_write_message_batch` -/

/-- `getattr(exc, "error_kind", None)` -/
inductive KindAttr where
  | absent                        -- no attribute / None
  | str (s : Str)
  | other                         -- any non-`str` object (int, bytes, Enum member, …)
deriving Repr, DecidableEq

/-- a raised exception as `from_exception` sees it -/
structure PyExn where
  className : Str                 -- `type(exc).__name__`
  text : Str                      -- `str(exc)`
  kindAttr : KindAttr
deriving Repr, DecidableEq

def PyExn.declaredKind (e : PyExn) : Option Str :=
  match e.kindAttr with | .str s => some s | _ => none

/-- traceback-derived extras (contents irrelevant to the property) -/
structure TbInfo where
  traceback : Str
  cause : Option Str
  context : Option Str
  frames : Json
deriving Repr

/-- a `Message`: level, text, `extra` dict (None ≙ []) with JSON-serialisable values -/
structure Msg where
  level : Str
  text : Str
  extra : List (Str × Json)
deriving Repr

open VgiVerif.Gen.LogWire in
/-- `Message.from_exception(exc)` -/
def fromException (e : PyExn) (tb : TbInfo) : Msg :=
  let summary := e.className ++ summarySep ++ e.text
  let extra : List (Str × Json) :=
    [(excTypeKey, .str e.className), (excMessageKey, .str e.text), (tracebackKey, .str tb.traceback)]
    ++ (match tb.cause with | some c => [(causeKey, .str c)] | none => [])
    ++ (match tb.context with | some c => [(contextKey, .str c)] | none => [])
    ++ [(framesKey, tb.frames)]
    ++ (match e.kindAttr with
        | .str k => [(kindExtraKey, .str k)]
        | .other => if fromExcKindStrGuard then [] else [(kindExtraKey, .num "?".toList)]
        | .absent => [])
  ⟨exceptionLevel, summary, extra⟩

def validMd (s : Str) : MdVal := ⟨true, s⟩

open VgiVerif.Gen.LogWire in
/-- `msg.add_to_metadata()` then `_write_message_batch` (server_id / request_id), as the client will read it.
`json.dumps` + `json.loads` of the extras is the identity on the JSON value (trusted). -/
def toWire (m : Msg) (serverId : Option Str) (requestId : Str) : WireBatch :=
  let kind : Option MdVal :=
    if m.extra.isEmpty then none else
    match lookup kindExtraKey m.extra with
    | some (.str k) => some (validMd k)
    | some _ => if hoistKindStrGuard then none else some (validMd "?".toList)
    | none => none
  ⟨0, some {
    level := some (validMd m.level)
    message := some (validMd m.text)
    extra := if m.extra.isEmpty then none else some (validMd [], .ok (.obj m.extra))
    errorKind := kind
    serverId := serverId.map validMd
    requestId := if requestId = [] then none else some (validMd requestId) }⟩

/-- `_write_error_batch(writer, schema, exc, server_id)` -/
def errorBatch (e : PyExn) (tb : TbInfo) (serverId : Option Str) (requestId : Str) : WireBatch :=
  toWire (fromException e tb) serverId requestId

/-- `out.client_log(level, text, **extra)` / `ctx.client_log(...)`: a log `Message` with `str` extras -/
def logMsg (l : Log) : Msg := ⟨l.level, l.text, l.extra.map fun (k, v) => (k, .str v)⟩

end VgiVerif.LogWire
