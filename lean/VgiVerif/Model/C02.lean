import VgiVerif.Prelude.PyVal
import VgiVerif.Prelude.DcAnn
import VgiVerif.Prelude.RpcTy
import VgiVerif.Model.C03
import VgiVerif.Gen.C02
/-
C02 model — how one parameter / result value travels (vgi_rpc/rpc/_wire.py, _types.py; `_infer_arrow_type` of utils.py).

  infer / arrowTop / arrowResult    `_infer_arrow_type`, `_build_params_schema`, `_build_result_schema`
  convertForArrow                   `_convert_for_arrow`            (shallow: the top-level value only)
  deserializeValue                  `_deserialize_value`            (shallow as well)
  trip                              `_validate_params`/`_validate_result` + `_write_request`/`_build_result_batch`
                                    + `as_py()` + `_deserialize_params`/`_read_unary_response`
  callKwargs / echoSig              `_send_request` (defaults merged on the client) … the implementation's kwargs … the reply

A dataclass-typed value travels as `serialize_to_bytes()` bytes: that part is the C03 model (`C03.serBytes`, `C03.fromBytes`).
Arrow's typed-array conversion is the environment `Py.arrowRT` (modelled, not verified).
-/
namespace VgiVerif.C02
open VgiVerif.Py

/-- `_infer_arrow_type` -/
def infer : Ty → ATy
  | .int w => .int w
  | .f64 => .f64
  | .f32 => .f32
  | .str => .utf8
  | .bytes => .binary
  | .bool => .bool
  | .enum _ => .dictStr
  | .native k p s => .native k p s
  | .opt t => infer t
  | .list t => .list (infer t)
  | .set t => .list (infer t)
  | .map k v => .map (infer k) (infer v)
  | .dc _ fs => .struct (C03.inferF fs)

/-- column type of a parameter: a dataclass (possibly Optional) travels as binary -/
def arrowTop (t : Ty) : ATy :=
  match unopt t with
  | .dc _ _ => .binary
  | u => infer u

/-- column type of the result: as `arrowTop` when `_build_result_schema` unwraps Optional first (repaired tree);
on the pinned tree an Optional dataclass was given the struct type -/
def arrowResult (t : Ty) : ATy :=
  if Gen.C02.resultOptFirst then arrowTop t
  else
    match t with
    | .dc _ _ => .binary
    | t => infer (unopt t)

/-- `_convert_for_arrow`: only the top-level value is converted -/
def convertForArrow (env : Env) : Ty → V → R V
  | _, .none => .ok .none
  | .opt t, v => convertForArrow env t v
  | .dc _ fs, .obj _ ofs => C03.serBytes env fs ofs
  | .enum _, .enum n => .ok (.str n)
  | .set _, .set xs => .ok (.list xs)
  | .map _ _, .dict kvs => .ok (.list (kvs.map (fun p => .tuple [p.1, p.2])))
  | _, v => .ok v

/-- `_deserialize_value` (called for non-None values only) -/
def deserializeValue (env : Env) (t : Ty) (v : V) : R V :=
  match unopt t with
  | .dc n fs =>
    if isBytes v then
      match v with
      | .ipc (.dict row) => C03.fromBytes env n fs (.ipc (.dict row))
      | _ => .error .ipcError
    else .error .typeError
  | .enum names =>
    match v with
    | .str s => if names.contains s then .ok (.enum s) else .error .keyError
    | _ => .error .typeError
  | .map _ _ =>
    match v with
    | .list xs => do let ps ← xs.mapM C03.unpair; pure (.dict (dictOfPairs ps))
    | v => .ok v
  | .set _ =>
    match v with
    | .list xs => .ok (.set (dedup xs))
    | v => .ok v
  | _ => .ok v

/-- one hop of a value declared `t` over a column of type `aty`: sender-side None check, conversion, typed column,
`as_py()`, receiver-side None check, deserialization -/
def trip (env : Env) (aty : ATy) (t : Ty) (v : V) : R V :=
  match v with
  | .none => if isOpt t then .ok .none else .error .typeError
  | v => do
    let w ← convertForArrow env t v
    let x ← arrowRT env aty w
    match x with
    | .none => if isOpt t then .ok .none else .error .typeError
    | x => deserializeValue env t x

def sendParam (env : Env) (t : Ty) (v : V) : R V := trip env (arrowTop t) t v
def sendResult (env : Env) (t : Ty) (v : V) : R V := trip env (arrowResult t) t v

/-- an echo method `def m(self, v: t) -> t: return v` -/
def echoValue (env : Env) (t : Ty) (v : V) : R V := do
  let x ← sendParam env t v
  sendResult env t x

/-! ### hint shapes: how `X | None` and `Annotated[X, …]` nest around the type

The functions above take the hint already resolved to a `Ty`.  The code resolves it at every site by peeling one Optional and
one Annotated layer, in a fixed order; a hint whose layers nest the other way round is not resolved and the value is returned
as it came off the wire.  `Wrap` lists the layers of a hint outermost first; Python flattens directly nested `Annotated`, so two
adjacent annotation layers never occur. -/

inductive Wrap where
  | opt          -- `… | None`
  | annArrow     -- `Annotated[…, ArrowType(declared type)]`  (the declared type of the core annotation)
  | annDoc       -- `Annotated[…, <other metadata>]`
deriving DecidableEq, Repr, Inhabited

/-- `_is_optional_type`: one layer -/
def peelOpt : List Wrap → List Wrap × Bool
  | .opt :: r => (r, true)
  | ws => (ws, false)

/-- `_unwrap_annotated`: one layer -/
def peelAnn : List Wrap → List Wrap
  | .annArrow :: r => r
  | .annDoc :: r => r
  | ws => ws

/-- what is left of the hint when `_deserialize_value` starts testing it (`[]` = the bare type) -/
def deserBase (ws : List Wrap) : List Wrap :=
  if Gen.C02.deserializeOrder = "opt-then-ann" then peelAnn (peelOpt ws).1
  else if Gen.C02.deserializeOrder = "ann-then-opt" then (peelOpt (peelAnn ws)).1
  else ws

/-- the Arrow type an `ArrowType(…)` marker of the generated services declares for core type `t` -/
def declared : Ty → ATy
  | .dc _ _ => .binary
  | t => infer t

/-- `_infer_arrow_type` on a wrapped hint: Optional layers are skipped, an `ArrowType` marker wins, other metadata is skipped -/
def inferH : List Wrap → Ty → ATy
  | [], t => infer t
  | .opt :: r, t => inferH r t
  | .annArrow :: _, t => declared t
  | .annDoc :: r, t => inferH r t

def isDc : Ty → Bool
  | .dc _ _ => true
  | _ => false

/-- `_build_params_schema` / `_build_result_schema` (repaired tree) on a wrapped hint -/
def arrowTopH (ws : List Wrap) (t : Ty) : ATy :=
  let inner := (peelOpt ws).1
  if peelAnn inner = [] && isDc t then .binary else inferH inner t

/-- `_deserialize_value` on a wrapped hint: the branches only fire on the bare type -/
def deserializeValueH (env : Env) (ws : List Wrap) (t : Ty) (v : V) : R V :=
  if deserBase ws = [] then deserializeValue env t v else .ok v

/-- one hop of a value whose hint is `ws` around the (Optional-free) core type `t` -/
def tripH (env : Env) (ws : List Wrap) (t : Ty) (v : V) : R V :=
  let nullable := (peelOpt ws).2
  match v with
  | .none => if nullable then .ok .none else .error .typeError
  | v => do
    let w ← convertForArrow env t v
    let x ← arrowRT env (arrowTopH ws t) w
    match x with
    | .none => if nullable then .ok .none else .error .typeError
    | x => deserializeValueH env ws t x

def echoH (env : Env) (ws : List Wrap) (t : Ty) (v : V) : R V := do
  let x ← tripH env ws t v
  tripH env ws t x

/-- the layers are: at most one Optional on the outside, at most one Annotated inside it -/
def regular (ws : List Wrap) : Bool := peelAnn (peelOpt ws).1 == []

/-- the resolved annotation of a regular hint -/
def resolved (ws : List Wrap) (t : Ty) : Ty := if (peelOpt ws).2 then .opt t else t

structure Param where
  name : List Char
  ty : Ty
  dflt : Option V

/-- `{**param_defaults, **kwargs}` then `kwargs.get(f.name)`: the argument, else the default, else None -/
def argFor (p : Param) (args : List (List Char × V)) : V :=
  match fieldGet args p.name with
  | some v => v
  | Option.none => p.dflt.getD .none

/-- the kwargs the implementation receives for a call with `args` -/
def callKwargs (env : Env) (sig : List Param) (args : List (List Char × V)) : R (List (List Char × V)) :=
  sig.mapM (fun p => do let x ← sendParam env p.ty (argFor p args); pure (p.name, x))

/-- an implementation that returns its `i`-th parameter through a result of that parameter's type -/
def echoSig (env : Env) (sig : List Param) (args : List (List Char × V)) : R (List (List Char × V)) :=
  sig.mapM (fun p => do let x ← echoValue env p.ty (argFor p args); pure (p.name, x))

end VgiVerif.C02
