import VgiVerif.Prelude.Codec
/-
C18 model: `vgi_rpc/_codec.py` — `_zstd_content_size`, `_decompress_body_zstd`, `_decompress_body_gzip`,
`compress`, `decompress`.  Transliteration over the extracted constants / shapes of `Gen.Codec`; the libraries are the
environment structures of `Prelude/Codec.lean`.

The two `while` loops are unbounded in Python.  Here they take fuel; `zstdDecode` / `gzipDecode` supply
`cap + 2`, and `Proofs/C18.lean` shows that this is never exhausted (zstd: for *every* reader; gzip: for every
decompress object that does not return an empty chunk while keeping an unconsumed tail).
`max_output_size - total` is a Python int subtraction; at the loop head `total ≤ max_output_size` always holds
(a larger total raised), so truncated subtraction on `Nat` is exact.
-/
namespace VgiVerif.C18
open VgiVerif.Codec

/-- `_zstd_content_size`: `None` when the raw value is one of the "unknown" sentinels, else `int(size)` -/
def contentSize (raw : Int) : Option Nat :=
  if raw ∈ Gen.Codec.contentSizeUnknown then none else some raw.toNat

/-- the streaming loop of `_decompress_body_zstd` (`while True: chunk = reader.read(min(CHUNK, cap - total + K)) …`) -/
def zstdLoop (R : Reader) (cap : Nat) : Nat → R.σ → Nat → Bytes → List Nat → Run
  | 0, _, total, _, reads => ⟨.fuel, total, reads⟩
  | fuel + 1, s, total, acc, reads =>
    let n := min Gen.Codec.chunkBytes (cap - total + Gen.Codec.zstdReadExtra)
    match R.read s n with
    | none => ⟨.corrupt, total, reads ++ [n]⟩
    | some (c, s') =>
      if c.isEmpty then ⟨.ok acc, total, reads ++ [n]⟩                                    -- `if not chunk: break`
      else if cmp Gen.Codec.zstdLoopCmp (total + c.length) cap then ⟨.limit, total + c.length, reads ++ [n]⟩
      else zstdLoop R cap fuel s' (total + c.length) (acc ++ c) (reads ++ [n])

/-- `_decompress_body_zstd(data, max_output_size=cap)` -/
def zstdDecode (F : ZFrame) (cap : Option Nat) : Run :=
  match F.rawSize with
  | none => ⟨.corrupt, 0, []⟩                                   -- get_frame_parameters raised
  | some raw =>
    let declared := contentSize raw
    match cap with
    | none =>
      match declared with
      | none => match F.readAll with
        | some x => ⟨.ok x, x.length, []⟩
        | none => ⟨.corrupt, 0, []⟩
      | some d => match F.oneShot with
        | some x => ⟨.ok x, d, []⟩
        | none => ⟨.corrupt, d, []⟩
    | some cap =>
      match declared with
      | some d =>
        if Gen.Codec.zstdPrecheckFirst && cmp Gen.Codec.zstdDeclaredCmp d cap then ⟨.limit, 0, []⟩
        else match F.oneShot with                                  -- the library allocates the declared size
          | some x => ⟨.ok x, d, []⟩
          | none => ⟨.corrupt, d, []⟩
      | none => zstdLoop F.R cap (cap + 2) F.s0 0 [] []

/-- after the gzip loop: `tail = do.flush()`, its cap check, the end-of-stream check, `b"".join(chunks)` -/
def gzipFinish (Z : ZObj) (cap : Nat) (s : Z.σ) (total : Nat) (acc : Bytes) (reads : List Nat) : Run :=
  match Z.flush s with
  | none => ⟨.corrupt, total, reads⟩
  | some (tail, s') =>
    if !tail.isEmpty && cmp Gen.Codec.gzipTailCmp (total + tail.length) cap then ⟨.limit, total + tail.length, reads⟩
    else if Gen.Codec.gzipEofCapped && !Z.eof s' then ⟨.corrupt, total + tail.length, reads⟩
    else ⟨.ok (acc ++ tail), total + tail.length, reads⟩

/-- the bounded loop of `_decompress_body_gzip`; `remaining` is `bool(remaining)` -/
def gzipLoop (Z : ZObj) (cap : Nat) : Nat → Z.σ → Bool → Nat → Bytes → List Nat → Run
  | 0, _, _, total, _, reads => ⟨.fuel, total, reads⟩
  | fuel + 1, s, remaining, total, acc, reads =>
    if !(remaining || Z.hasTail s) then gzipFinish Z cap s total acc reads          -- `while remaining or do.unconsumed_tail`
    else
      -- `if do.unconsumed_tail: inbuf = do.unconsumed_tail  else: inbuf, remaining = remaining, b""`
      let fresh := !Z.hasTail s
      let remaining' := if Z.hasTail s then remaining else false
      let n := min Gen.Codec.chunkBytes (cap - total + Gen.Codec.gzipReadExtra)
      match Z.dec s fresh n with
      | none => ⟨.corrupt, total, reads ++ [n]⟩
      | some (c, s') =>
        if !c.isEmpty && cmp Gen.Codec.gzipLoopCmp (total + c.length) cap then ⟨.limit, total + c.length, reads ++ [n]⟩
        else if Gen.Codec.gzipBreaksOnEof && Z.eof s' then                                     -- `if do.eof: break`
          gzipFinish Z cap s' (total + c.length) (acc ++ c) (reads ++ [n])
        else if c.isEmpty && !Z.hasTail s' then                                                 -- `break`
          gzipFinish Z cap s' (total + c.length) (acc ++ c) (reads ++ [n])
        else gzipLoop Z cap fuel s' remaining' (total + c.length) (acc ++ c) (reads ++ [n])

/-- `_decompress_body_gzip(data, max_output_size=cap)` -/
def gzipDecode (G : GFrame) (cap : Option Nat) : Run :=
  match cap with
  | none =>
    match G.Z.decAll G.s0 with
    | none => ⟨.corrupt, 0, []⟩
    | some (a, s1) =>
      match G.Z.flush s1 with
      | none => ⟨.corrupt, a.length, []⟩
      | some (b, s2) =>
        if Gen.Codec.gzipEofUncapped && !G.Z.eof s2 then ⟨.corrupt, a.length + b.length, []⟩
        else ⟨.ok (a ++ b), a.length + b.length, []⟩
  | some cap => gzipLoop G.Z cap (cap + 2) G.s0 G.nonempty 0 [] []

/-- `decompress(encoding, data, max_output_size=cap)`: the `if encoding is Encoding.X` chain in extracted order -/
def decompress (L : Libs) (e : Enc) (data : Bytes) (cap : Option Nat) : Run :=
  if Gen.Codec.decompressDispatch.contains e.name then
    match e with
    | .identity => if Gen.Codec.identityFirstDecompress then ⟨.ok data, 0, []⟩ else ⟨.unsupported, 0, []⟩
    | .zstd => zstdDecode (L.zstdView data) cap
    | .gzip => gzipDecode (L.gzipView data) cap
  else ⟨.unsupported, 0, []⟩

/-- `compress(encoding, data, level=level)`; `none` = `ValueError` -/
def compress (L : Libs) (e : Enc) (data : Bytes) (level : Option Int) : Option Bytes :=
  if Gen.Codec.compressDispatch.contains e.name then
    match e with
    | .identity => if Gen.Codec.identityFirstCompress then some data else none
    | .zstd => some (L.zstdCompress (level.getD Gen.Codec.defaultZstdLevel) data)
    | .gzip => some (L.gzipCompress (level.getD Gen.Codec.defaultGzipLevel) data)
  else none

end VgiVerif.C18
