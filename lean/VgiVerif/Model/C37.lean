import VgiVerif.Prelude.PyStr
import VgiVerif.Prelude.UrlPy
import VgiVerif.Prelude.UrlWhatwg
import VgiVerif.Gen.Pkce
/-
C37 model: the OAuth browser flow of vgi_rpc/http/_oauth_pkce.py.

  `_has_unsafe_url_chars`, `_is_localhost`, `_validate_return_to`, `_validate_original_url`
      — both transliterated shapes (`pinned` = the tree before the `fix:` commit, `repaired` = after); the shape the
        source currently has is extracted (`Gen.Pkce.returnToShape`, `Gen.Pkce.originalUrlShape`) and selects the model
  `_pack_oauth_cookie` / `_unpack_oauth_cookie`
      — over an environment `CEnv` (HMAC, base64, UTF-8 are functions of the environment: symbolic in the theorems,
        the real algorithms in the driver)
  `_OAuthCallbackResource.on_get`, `_OAuthPkceMiddleware.process_request` / `process_response`,
  `_OAuthLogoutResource.on_get`   — the decisions and the `Location` values

Python exceptions that are not caught by the code (→ HTTP 500) are `Esc`.
-/
namespace VgiVerif.C37
open VgiVerif.PyStr VgiVerif.UrlPy

abbrev Bytes := List UInt8

/-- an exception that escapes the modelled function (Falcon turns it into a 500; no redirect is issued) -/
inductive Esc where
  | valueError    -- `urlparse` / `.port`
  | keyError      -- `_DEFAULT_PORTS[...]`
  | structError   -- `struct.pack` / `struct.unpack_from`
  | typeError     -- `hmac.compare_digest` on non-ASCII `str`
deriving Repr, DecidableEq

def sHttp : Str := "http".toList
def sColonSlashSlash : Str := "://".toList
def sNone : Str := "None".toList
def sSlash : Str := ['/']
def sGet : Str := "GET".toList

/-! ## validators -/

/-- one character of `_has_unsafe_url_chars`: `ch <= " " or ch >= "\x7f" or ch == "\\"` -/
def isUnsafeChar (c : Char) : Bool :=
  decide (c.toNat ≤ Gen.Pkce.unsafeLo) || decide (c.toNat ≥ Gen.Pkce.unsafeHi) || Gen.Pkce.unsafeExtra.contains c

/-- `_has_unsafe_url_chars(url)` -/
def hasUnsafeChars (url : Str) : Bool := url.any isUnsafeChar

/-- `_is_localhost(hostname)` -/
def isLocalhost (h : Str) : Bool := Gen.Pkce.localhostNames.contains h

/-- `_validate_return_to`, shape `pinned` -/
def validateReturnToPinned (env : Env) (url : Str) (allow : List Str) : Except Esc Str :=
  if url.isEmpty || decide (url.length > Gen.Pkce.maxReturnToLen) then .ok []
  else
    match urlsplit env url with
    | none => .error .valueError
    | some sp =>
      if !Gen.Pkce.returnToSchemes.contains sp.scheme then .ok []
      else if sp.netloc.isEmpty then .ok []
      else
        let hn := hostname sp.netloc
        if isLocalhost (hn.getD []) && sp.scheme == sHttp then .ok url
        else
          let origin := sp.scheme ++ sColonSlashSlash ++ hn.getD sNone
          if allow.contains origin then .ok url
          else
            match port sp.netloc with
            | none => .error .valueError
            | some none => .ok []
            | some (some p) =>
              if p = 0 then .ok []          -- `if parsed.port:`
              else if allow.contains (origin ++ ':' :: decimal p) then .ok url
              else .ok []

/-- `_DEFAULT_PORTS[scheme]` -/
def defaultPortOf (scheme : Str) : Option Nat := (Gen.Pkce.defaultPorts.find? (fun kv => kv.1 == scheme)).map (·.2)

/-- the origin compared with the allow-list (repaired shape): the port is part of it unless it is the scheme's default -/
def originString (scheme hn : Str) (prt : Option Nat) (dflt : Nat) : Str :=
  match prt with
  | none => scheme ++ sColonSlashSlash ++ hn
  | some p =>
    if p = dflt then scheme ++ sColonSlashSlash ++ hn
    else scheme ++ sColonSlashSlash ++ hn ++ ':' :: decimal p

/-- `_validate_return_to`, shape `repaired` -/
def validateReturnToRepaired (env : Env) (url : Str) (allow : List Str) : Except Esc Str :=
  if url.isEmpty || decide (url.length > Gen.Pkce.maxReturnToLen) then .ok []
  else if hasUnsafeChars url then .ok []
  else
    match urlsplit env url with
    | none => .ok []
    | some sp =>
      match port sp.netloc with
      | none => .ok []
      | some prt =>
        if !Gen.Pkce.returnToSchemes.contains sp.scheme then .ok []
        else if sp.netloc.isEmpty then .ok []
        else if sp.netloc.any (fun ch => Gen.Pkce.netlocForbidden.contains ch) then .ok []
        else
          let hn := (hostname sp.netloc).getD []
          if isLocalhost hn && sp.scheme == sHttp then .ok url
          else
            match defaultPortOf sp.scheme with
            | none => .error .keyError
            | some dflt => if allow.contains (originString sp.scheme hn prt dflt) then .ok url else .ok []

/-- `_validate_return_to` as the source currently has it -/
def validateReturnTo (env : Env) (url : Str) (allow : List Str) : Except Esc Str :=
  match Gen.Pkce.returnToShape with
  | .pinned => validateReturnToPinned env url allow
  | .repaired => validateReturnToRepaired env url allow

/-- `prefix or "/"` -/
def fallback (pfx : Str) : Str := if pfx.isEmpty then sSlash else pfx

/-- `url[:_MAX_ORIGINAL_URL_LEN]` when longer -/
def truncateUrl (url : Str) : Str :=
  if url.length > Gen.Pkce.maxOriginalUrlLen then url.take Gen.Pkce.maxOriginalUrlLen else url

/-- `_validate_original_url`, shape `pinned` -/
def validateOriginalUrlPinned (env : Env) (url0 : Str) (pfx : Str) : Except Esc Str :=
  let url := truncateUrl url0
  match urlsplit env url with
  | none => .error .valueError
  | some sp =>
    if !sp.scheme.isEmpty || !sp.netloc.isEmpty then .ok (fallback pfx)
    else if !pfx.isEmpty && !pfx.isPrefixOf url then .ok (fallback pfx)
    else .ok url

/-- `url.split("#", 1)[0].split("?", 1)[0]` -/
def pathPart (url : Str) : Str := (url.takeWhile (· != '#')).takeWhile (· != '?')

/-- `any(segment.lower() in _DOT_SEGMENTS for segment in path.split("/"))` (reached for ASCII strings only) -/
def hasDotSegment (path : Str) : Bool :=
  (splitOn '/' path).any (fun seg => Gen.Pkce.dotSegments.contains (seg.map asciiLower))

/-- `_validate_original_url`, shape `repaired` -/
def validateOriginalUrlRepaired (env : Env) (url0 : Str) (pfx : Str) : Except Esc Str :=
  let url := truncateUrl url0
  if hasUnsafeChars url then .ok (fallback pfx)
  else
    match urlsplit env url with
    | none => .ok (fallback pfx)
    | some sp =>
      if !sp.scheme.isEmpty || !sp.netloc.isEmpty then .ok (fallback pfx)
      else if !sSlash.isPrefixOf url || ['/', '/'].isPrefixOf url then .ok (fallback pfx)
      else if hasDotSegment (pathPart url) then .ok (fallback pfx)
      else if !pfx.isEmpty && !pfx.isPrefixOf url then .ok (fallback pfx)
      else .ok url

/-- `_validate_original_url` as the source currently has it -/
def validateOriginalUrl (env : Env) (url : Str) (pfx : Str) : Except Esc Str :=
  match Gen.Pkce.originalUrlShape with
  | .pinned => validateOriginalUrlPinned env url pfx
  | .repaired => validateOriginalUrlRepaired env url pfx

/-! ## redirect targets carrying tokens in the fragment -/

/-- `"#" if "#" not in return_to else "&"` -/
def separator (returnTo : Str) : Char := if returnTo.contains '#' then '&' else '#'

/-- `f"{return_to}{separator}{'&'.join(fragment_params)}"` -/
def redirectTarget (returnTo : Str) (params : Str) : Str := returnTo ++ separator returnTo :: params

/-- `urllib.parse.quote(s)` (default `safe="/"`): unreserved characters and `/` kept, UTF-8 bytes of the rest as `%XX` -/
def isQuoteSafe (c : Char) : Bool :=
  isAsciiAlpha c || isAsciiDigit c || c == '_' || c == '.' || c == '-' || c == '~' || c == '/'

def pyQuote (s : Str) : Str :=
  s.flatMap (fun c => if isQuoteSafe c then [c] else (UrlWhatwg.utf8 c).flatMap UrlWhatwg.pctByte)

/-! ## signed session cookie -/

/-- what the cookie code takes from other libraries -/
structure CEnv where
  /-- `hmac.new(key, msg, sha256).digest()` -/
  mac : Bytes → Bytes → Bytes
  /-- `base64.urlsafe_b64encode(b).decode("ascii")` -/
  b64enc : Bytes → Str
  /-- `base64.urlsafe_b64decode(s)`; `none` = any exception -/
  b64dec : Str → Option Bytes
  /-- `s.encode("utf-8")` -/
  utf8enc : Str → Bytes
  /-- `b.decode("utf-8")`; `none` = `UnicodeDecodeError` -/
  utf8dec : Bytes → Option Str

structure Fields where
  codeVerifier : Str
  stateNonce : Str
  originalUrl : Str
  returnTo : Str
deriving Repr, DecidableEq

/-- `ValueError`s of `_unpack_oauth_cookie` (the callback answers 400) and the one exception that escapes -/
inductive CookieErr where
  | malformed | tooShort | signature | version | expired | unicode
  | structError
deriving Repr, DecidableEq

/-- little-endian encoding on `w` bytes -/
def leBytes : Nat → Nat → Bytes
  | 0, _ => []
  | w + 1, n => UInt8.ofNat (n % 256) :: leBytes w (n / 256)

def leVal : Bytes → Nat
  | [] => 0
  | b :: r => b.toNat + 256 * leVal r

def lenField (b : Bytes) : Bytes := leBytes Gen.Pkce.widthLen b.length ++ b

/-- the signed part of the cookie; `none` = `struct.error` (a length ≥ 2^16 or a timestamp ≥ 2^64) -/
def packPayload (env : CEnv) (createdAt : Nat) (f : Fields) : Option Bytes :=
  let cv := env.utf8enc f.codeVerifier
  let st := env.utf8enc f.stateNonce
  let ou := env.utf8enc f.originalUrl
  let rt := env.utf8enc f.returnTo
  if createdAt ≥ 256 ^ Gen.Pkce.widthCreated || cv.length ≥ 256 ^ Gen.Pkce.widthLen || st.length ≥ 256 ^ Gen.Pkce.widthLen
      || ou.length ≥ 256 ^ Gen.Pkce.widthLen || rt.length ≥ 256 ^ Gen.Pkce.widthLen then none
  else
    some (leBytes Gen.Pkce.widthVersion Gen.Pkce.sessionCookieVersion ++ leBytes Gen.Pkce.widthCreated createdAt
      ++ lenField cv ++ lenField st ++ lenField ou ++ lenField rt)

/-- `_pack_oauth_cookie` -/
def pack (env : CEnv) (key : Bytes) (createdAt : Nat) (f : Fields) : Option Str :=
  (packPayload env createdAt f).map (fun p => env.b64enc (p ++ env.mac key p))

/-- one `[2 bytes length][bytes]` field read at `pos`: the decoded text and the next position -/
def readField (env : CEnv) (payload : Bytes) (pos : Nat) : Except CookieErr (Str × Nat) :=
  if payload.length < pos + Gen.Pkce.widthLen then .error .structError
  else
    let n := leVal ((payload.drop pos).take Gen.Pkce.widthLen)
    match env.utf8dec ((payload.drop (pos + Gen.Pkce.widthLen)).take n) with
    | none => .error .unicode
    | some s => .ok (s, pos + Gen.Pkce.widthLen + n)

/-- the part of `_unpack_oauth_cookie` after the signature check: version, age, the four fields -/
def parsePayload (env : CEnv) (now : Int) (maxAge : Int) (payload : Bytes) : Except CookieErr Fields :=
  if leVal (payload.take Gen.Pkce.widthVersion) != Gen.Pkce.sessionCookieVersion then .error .version
  else
    let createdAt : Int := leVal ((payload.drop Gen.Pkce.widthVersion).take Gen.Pkce.widthCreated)
    if maxAge > 0 && (now - createdAt < 0 || now - createdAt > maxAge) then .error .expired
    else
      match readField env payload (Gen.Pkce.widthVersion + Gen.Pkce.widthCreated) with
      | .error e => .error e
      | .ok (cv, p1) =>
        match readField env payload p1 with
        | .error e => .error e
        | .ok (st, p2) =>
          match readField env payload p2 with
          | .error e => .error e
          | .ok (ou, p3) =>
            match readField env payload p3 with
            | .error e => .error e
            | .ok (rt, _) => .ok ⟨cv, st, ou, rt⟩

/-- `_unpack_oauth_cookie(cookie_value, session_key, max_age)` at time `now` -/
def unpack (env : CEnv) (key : Bytes) (now : Int) (maxAge : Int) (cookie : Str) : Except CookieErr Fields :=
  match env.b64dec cookie with
  | none => .error .malformed
  | some raw =>
    if raw.length < Gen.Pkce.minCookieLen then .error .tooShort
    else
      let payload := raw.take (raw.length - Gen.Pkce.hmacLen)
      let mac := raw.drop (raw.length - Gen.Pkce.hmacLen)
      if mac != env.mac key payload then .error .signature
      else parsePayload env now maxAge payload

/-! ## the flow -/

structure Cfg where
  pfx : Str
  allow : List Str
  clientId : Str
  clientSecret : Option Str
  useIdToken : Bool
deriving Repr

/-- what `_exchange_code_for_token` returned (the id_token only feeds the display cookie: not modelled) -/
inductive Exchange where
  | failed
  | ok (token : Str) (refreshToken : Option Str)
deriving Repr, DecidableEq

structure CbReq where
  error : Option Str
  code : Option Str
  state : Option Str
  sessionCookie : Option Str
deriving Repr, DecidableEq

inductive Why where
  | idpError | missingCodeOrState | missingCookie | badCookie (e : CookieErr) | stateMismatch
  | discoveryFailed | exchangeFailed
deriving Repr, DecidableEq

inductive Outcome where
  | badRequest (why : Why)           -- 400 error page
  | badGateway (why : Why)           -- 502 error page
  | serverError (e : Esc)            -- an exception escaped (500)
  | redirectExternal (loc : Str)     -- 302 to the external frontend, secrets in the fragment
  | redirectOriginal (loc : Str)     -- 302 to the original page, token in a cookie
deriving Repr, DecidableEq

def truthy (o : Option Str) : Bool := match o with | some s => !s.isEmpty | none => false

def sToken : Str := "token=".toList
def sRefresh : Str := "&refresh_token=".toList
def sTokenEndpoint : Str := "&token_endpoint=".toList
def sClientId : Str := "&client_id=".toList
def sClientSecret : Str := "&client_secret=".toList
def sUseIdToken : Str := "&use_id_token=true".toList

/-- `'&'.join(fragment_params)` of the callback -/
def callbackParams (cfg : Cfg) (tokenEndpoint token : Str) (refresh : Option Str) : Str :=
  sToken ++ token
    ++ (if truthy refresh then sRefresh ++ pyQuote (refresh.getD []) else [])
    ++ sTokenEndpoint ++ pyQuote tokenEndpoint
    ++ sClientId ++ pyQuote cfg.clientId
    ++ (if truthy cfg.clientSecret then sClientSecret ++ pyQuote (cfg.clientSecret.getD []) else [])
    ++ (if cfg.useIdToken then sUseIdToken else [])

/-- `_OAuthPkceMiddleware.__init__`: the allow-list in force for a configured `allowed_return_origins`
(`none` = the argument was not given), for either extracted shape of the defaulting expression -/
def effectiveAllowWith (d : Gen.Pkce.Defaulting) (configured : Option (List Str)) : List Str :=
  match d, configured with
  | .isNotNone, some l => l
  | .isNotNone, none => Gen.Pkce.defaultAllowedReturnOrigins
  | .truthy, some (x :: r) => x :: r
  | .truthy, _ => Gen.Pkce.defaultAllowedReturnOrigins

/-- the allow-list in force, as the source currently computes it -/
def effectiveAllow (configured : Option (List Str)) : List Str :=
  effectiveAllowWith Gen.Pkce.allowDefaulting configured

/-- `_OAuthCallbackResource.on_get`; `discovery` = the token endpoint, `exchange` = the result of the code exchange -/
def callback (uenv : Env) (cenv : CEnv) (cfg : Cfg) (key : Bytes) (now : Int) (req : CbReq)
    (discovery : Option Str) (exchange : Exchange) : Outcome :=
  if truthy req.error then .badRequest .idpError
  else if !truthy req.code || !truthy req.state then .badRequest .missingCodeOrState
  else if !truthy req.sessionCookie then .badRequest .missingCookie
  else
    match unpack cenv key now Gen.Pkce.sessionMaxAge (req.sessionCookie.getD []) with
    | .error .structError => .serverError .structError
    | .error e => .badRequest (.badCookie e)
    | .ok f =>
      let state := req.state.getD []
      if !state.all isAscii || !f.stateNonce.all isAscii then .serverError .typeError
      else if state != f.stateNonce then .badRequest .stateMismatch
      else
        match discovery with
        | none => .badGateway .discoveryFailed
        | some tokenEndpoint =>
          match exchange with
          | .failed => .badGateway .exchangeFailed
          | .ok token refresh =>
            if !f.returnTo.isEmpty then
              .redirectExternal (redirectTarget f.returnTo (callbackParams cfg tokenEndpoint token refresh))
            else
              match validateOriginalUrl uenv f.originalUrl cfg.pfx with
              | .error e => .serverError e
              | .ok loc => .redirectOriginal loc

/-- `_OAuthPkceMiddleware.process_request`: `some loc` = the immediate 302 for an already authenticated browser -/
def processRequest (uenv : Env) (cfg : Cfg) (method : Str) (returnToParam : Option Str) (authCookie : Option Str)
    (jwtExpired : Bool) : Except Esc (Option Str) :=
  if method != sGet then .ok none
  else
    match validateReturnTo uenv (returnToParam.getD []) cfg.allow with
    | .error e => .error e
    | .ok rt =>
      if rt.isEmpty then .ok none
      else if !truthy authCookie then .ok none
      else if jwtExpired then .ok none
      else .ok (some (redirectTarget rt (sToken ++ authCookie.getD [])))

/-- `_OAuthPkceMiddleware.process_response` up to the cookie: `some (original_url, return_to)` = what is signed into the
session cookie when the 401 is turned into the 302 to the authorization endpoint -/
def processResponse (uenv : Env) (cfg : Cfg) (method : Str) (is401 acceptsHtml discoveryOk : Bool) (path query : Str)
    (returnToParam : Option Str) : Except Esc (Option (Str × Str)) :=
  if method != sGet then .ok none
  else if !is401 then .ok none
  else if !acceptsHtml then .ok none
  else if !discoveryOk then .ok none
  else
    let original := if query.isEmpty then path else path ++ '?' :: query
    match validateOriginalUrl uenv original cfg.pfx with
    | .error e => .error e
    | .ok ou =>
      match validateReturnTo uenv (returnToParam.getD []) cfg.allow with
      | .error e => .error e
      | .ok rt => .ok (some (ou, rt))

/-- `_OAuthLogoutResource.on_get`: `falcon.HTTPFound(self._prefix or "/")` -/
def logoutLocation (cfg : Cfg) : Str := fallback cfg.pfx

end VgiVerif.C37
