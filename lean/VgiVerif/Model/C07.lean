import VgiVerif.Model.LogWire
/-
C07 model.
  * error mapping: server `errorBatch` (= `_write_error_batch` → `Message.from_exception` → `add_to_metadata` →
    `_write_message_batch`, Model/LogWire.lean) composed with the client's `dispatchLog` (`_dispatch_log_or_error`)
  * HTTP marker logic: `_set_http_status` (http/server/_responses.py), `_current_response_status`, and the status each
    dispatch site reports when the implementation raises (`_unary_sync`: `http_status = 500`; `/init`: `_RpcHttpError(exc,
    status_code=500)` → `_set_error_response`; producer turn (in `/init` or a continuation): `_current_response_status.set(500)`;
    exchange turn: `_RpcHttpError(exc, 500)`), all constants extracted into `Gen.LogWire`.
-/
namespace VgiVerif.C07
open VgiVerif.Engine (Str)
open VgiVerif.LogWire
open VgiVerif.Gen.LogWire

/-- `clientRaise`: what the client does with the wire batch of an error -/
def clientRaise (b : WireBatch) : Outcome := dispatchLog VgiVerif.Gen.LogDispatch.shape b

/-- server writes the error batch for `e`, the client dispatches it -/
def roundTrip (e : PyExn) (tb : TbInfo) (serverId : Option Str) (requestId : Str) : Outcome :=
  clientRaise (errorBatch e tb serverId requestId)

/-! ## HTTP -/

structure Resp where
  status : Nat
  marker : Bool
deriving Repr, DecidableEq

/-- `_set_http_status(resp, status_code)` -/
def setHttpStatus (code : Nat) : Resp :=
  if code = internalServerError then ⟨translatedStatus, true⟩ else ⟨code, false⟩

/-- dispatch sites of an implementation call over HTTP -/
inductive Site where
  | unary                -- POST /{method}
  | init                 -- POST /{method}/init : the stream method itself
  | producerFirst        -- first producer turn, folded into /init
  | producerCont         -- producer continuation turn, POST /{method}/exchange
  | exchange             -- exchange turn, POST /{method}/exchange
deriving Repr, DecidableEq

/-- how the failure travels to the resource layer -/
inductive Route where
  | returnedStatus       -- `_unary_sync` returns `(body, http_status)` → `_set_http_status(resp, http_status)`
  | rpcHttpError         -- `raise _RpcHttpError(exc, status_code=…)` → `_set_error_response` → `_set_http_status`
  | contextVar           -- `_current_response_status.set(…)`, read back by the resource: `_set_http_status(resp, var.get())`
deriving Repr, DecidableEq

def route : Site → Route
  | .unary => .returnedStatus
  | .init => .rpcHttpError
  | .producerFirst => .contextVar
  | .producerCont => .contextVar
  | .exchange => .rpcHttpError

/-- the status code that reaches `_set_http_status`: OK unless the implementation raised (the context variable is
reset to OK by the resource before every dispatch; `http_status` starts as OK) -/
def statusAt (s : Site) (raised : Bool) : Nat :=
  if !raised then okStatus else
  match s with
  | .unary => unaryRaiseStatus
  | .init => initRaiseStatus
  | .producerFirst => producerRaiseStatus
  | .producerCont => producerRaiseStatus
  | .exchange => exchangeRaiseStatus

def serveHttp (s : Site) (raised : Bool) : Resp := setHttpStatus (statusAt s raised)

/-! ## Response caps (`max_response_bytes` / `max_externalized_response_bytes`) on the unary HTTP path

`_run_unary_sync` writes the response (logs, then the result batch or the EXCEPTION batch of the implementation's error)
and AFTERWARDS `_enforce_response_budgets` may discard that body and answer a fresh cap error instead.  Which body the
client gets: -/

inductive Carried where
  | result        -- the method's result batch
  | implError     -- the EXCEPTION batch written for the exception the implementation raised
  | capError      -- "HTTP body exceeds max_response_bytes …" (RuntimeError) replacing whatever was written
deriving Repr, DecidableEq

/-- `overCap` = the body as first written is larger than a configured cap -/
def unaryBody (raised overCap : Bool) : Carried :=
  if raised then
    (if unaryBudgetOnlyOnSuccess then .implError else if overCap then .capError else .implError)
  else if overCap then .capError else .result

end VgiVerif.C07
