import VgiVerif.Model.LogWire
/-
C07 model.
  * error mapping: server `errorBatch` (= `_write_error_batch` → `Message.from_exception` → `add_to_metadata` →
    `_write_message_batch`, Model/LogWire.lean) composed with the client's `dispatchLog` (`_dispatch_log_or_error`)
  * HTTP marker logic: `_set_http_status` (http/server/_responses.py), `_current_response_status`, and the status each
    dispatch site reports when the implementation raises (`_unary_sync`: `http_status = 500`; `/init`: `_RpcHttpError(exc,
    status_code=500)` → `_set_error_response`; producer turn (in `/init` or a continuation): `_current_response_status.set(500)`;
    exchange turn: `_RpcHttpError(exc, 500)`), all constants extracted into `Gen.LogWire`.
-/
namespace VgiVerif.C07
open VgiVerif.Engine (Str)
open VgiVerif.LogWire
open VgiVerif.Gen.LogWire

/-- `clientRaise`: what the client does with the wire batch of an error -/
def clientRaise (b : WireBatch) : Outcome := dispatchLog VgiVerif.Gen.LogDispatch.shape b

/-- server writes the error batch for `e`, the client dispatches it -/
def roundTrip (e : PyExn) (tb : TbInfo) (serverId : Option Str) (requestId : Str) : Outcome :=
  clientRaise (errorBatch e tb serverId requestId)

/-! ## HTTP -/

structure Resp where
  status : Nat
  marker : Bool
deriving Repr, DecidableEq

/-- `_set_http_status(resp, status_code)` -/
def setHttpStatus (code : Nat) : Resp :=
  if code = internalServerError then ⟨translatedStatus, true⟩ else ⟨code, false⟩

/-- dispatch sites of an implementation call over HTTP -/
inductive Site where
  | unary                -- POST /{method}
  | init                 -- POST /{method}/init : the stream method itself
  | producerFirst        -- first producer turn, folded into /init
  | producerCont         -- producer continuation turn, POST /{method}/exchange
  | exchange             -- exchange turn, POST /{method}/exchange
deriving Repr, DecidableEq

/-- how the failure travels to the resource layer -/
inductive Route where
  | returnedStatus       -- `_unary_sync` returns `(body, http_status)` → `_set_http_status(resp, http_status)`
  | rpcHttpError         -- `raise _RpcHttpError(exc, status_code=…)` → `_set_error_response` → `_set_http_status`
  | contextVar           -- `_current_response_status.set(…)`, read back by the resource: `_set_http_status(resp, var.get())`
deriving Repr, DecidableEq

def route : Site → Route
  | .unary => .returnedStatus
  | .init => .rpcHttpError
  | .producerFirst => .contextVar
  | .producerCont => .contextVar
  | .exchange => .rpcHttpError

/-- the status code that reaches `_set_http_status`: OK unless the implementation raised (the context variable is
reset to OK by the resource before every dispatch; `http_status` starts as OK) -/
def statusAt (s : Site) (raised : Bool) : Nat :=
  if !raised then okStatus else
  match s with
  | .unary => unaryRaiseStatus
  | .init => initRaiseStatus
  | .producerFirst => producerRaiseStatus
  | .producerCont => producerRaiseStatus
  | .exchange => exchangeRaiseStatus

def serveHttp (s : Site) (raised : Bool) : Resp := setHttpStatus (statusAt s raised)

/-! ## Response caps (`max_response_bytes` / `max_externalized_response_bytes`) on the unary HTTP path

`_run_unary_sync` writes the response (logs, then the result batch or the EXCEPTION batch of the implementation's error)
and AFTERWARDS `_enforce_response_budgets` may discard that body and answer a fresh cap error instead.  Which body the
client gets: -/

inductive Carried where
  | result        -- the method's result batch
  | implError     -- the EXCEPTION batch written for the exception the implementation raised
  | capError      -- "HTTP body exceeds max_response_bytes …" (RuntimeError) replacing whatever was written
deriving Repr, DecidableEq

/-- `overCap` = the body as first written is larger than a configured cap -/
def unaryBody (raised overCap : Bool) : Carried :=
  if raised then
    (if unaryBudgetOnlyOnSuccess then .implError else if overCap then .capError else .implError)
  else if overCap then .capError else .result

/-! ## Which exception classes become an error batch on the socket family

The Engine writes `.err e` for EVERY exception an implementation raises.  That is the code's behaviour exactly when no
handler intercepts a class ahead of the `except Exception` that writes the error batch (extracted per site). -/

inductive SocketSite where
  | unary | init | step
deriving Repr, DecidableEq

/-- does an exception of an arbitrary class raised by the implementation at this site get its error batch written? -/
def socketWritesError : SocketSite → Bool
  | .unary => socketUnaryCatchesAll
  | .init => socketInitCatchesAll
  | .step => socketStepCatchesAll

/-! ## One `process()` call at operation level (`OutputCollector`, rpc/_types.py)

A step may emit its data batch, log and fail in ANY order.  The collector keeps one ordered batch list and the index of
the data batch; when the call fails the server writes `log_batches` (as extracted: every batch whose index is not the data
batch's index) and then the error batch — never the data batch of the failed call. -/

inductive Op where
  | log (l : VgiVerif.Engine.Log)
  | emit (b : VgiVerif.Engine.Batch)
  | finish
  | raise (e : VgiVerif.Engine.Exn)
deriving Repr, DecidableEq

open VgiVerif.Engine (Item Exn logItems noDataExn finishOnExchangeExn) in
structure Coll where
  batches : List Item
  dataIdx : Option Nat
  finished : Bool
deriving Repr

def onlyOneDataExn : VgiVerif.Engine.Exn :=
  ⟨"RuntimeError".toList, "Only one data batch may be emitted per call".toList, none⟩

open VgiVerif.Engine in
/-- run the operations of one call up to the first exception (the implementation's `raise`, or the collector's own:
a second `emit`, `finish()` on an exchange stream) -/
def runOps (producerMode : Bool) : Coll → List Op → Coll × Option Exn
  | c, [] => (c, none)
  | c, .log l :: r => runOps producerMode ⟨c.batches ++ [.log l], c.dataIdx, c.finished⟩ r
  | c, .emit b :: r =>
    match c.dataIdx with
    | some _ => (c, some onlyOneDataExn)
    | none => runOps producerMode ⟨c.batches ++ [.data b], some c.batches.length, c.finished⟩ r
  | c, .finish :: r =>
    if producerMode then runOps producerMode ⟨c.batches, c.dataIdx, true⟩ r else (c, some finishOnExchangeExn)
  | c, .raise e :: _ => (c, some e)

open VgiVerif.Engine in
/-- `[ab for i, ab in enumerate(self._batches) if i != self._data_batch_idx]` -/
def filterIdx (idx : Option Nat) : Nat → List Item → List Item
  | _, [] => []
  | i, x :: r => if some i = idx then filterIdx idx (i + 1) r else x :: filterIdx idx (i + 1) r

open VgiVerif.Engine in
/-- `OutputCollector.log_batches` — the comprehension above when the extractor recognised it, otherwise unknown code,
modelled pessimistically as "everything" -/
def logBatches (c : Coll) : List Item :=
  if VgiVerif.Gen.LogDispatch.flushLogsHelperRecognised then filterIdx c.dataIdx 0 c.batches else c.batches

open VgiVerif.Engine in
/-- what the server writes for the call, and whether the call failed -/
def stepWrites (producerMode : Bool) (ops : List Op) : List Item × Bool :=
  match runOps producerMode ⟨[], none, false⟩ ops with
  | (c, some e) => (logBatches c ++ [.err e], true)
  | (c, none) =>
    if !c.finished && c.dataIdx.isNone then (logBatches c ++ [.err noDataExn], true) else (c.batches, false)

end VgiVerif.C07
