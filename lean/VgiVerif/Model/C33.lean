import VgiVerif.Prelude.Sched
import VgiVerif.Gen.C33
import VgiVerif.Spec.C33
/-
C33 models (Sched kit, DESIGN Appendix C).

(b) `Loop` — `vgi_rpc/rpc/_transport.py::_serve_socket_threaded`: the accept-loop thread, one handler
thread per accepted connection, one thread per `threading.Timer`.  `conn_count`, `timer`,
`shutdown_requested` are only touched inside `with state_lock:` (extracted shape fact
`Gen.C33.sharedUnderLock`), so every critical section is ONE step of the model; the windows between
critical sections (accept() returned but the connection is not yet counted; timer fired but its callback
has not got the lock; service finished but the handler's final section has not run) are separate states.
The model is parametric in the two extracted repair shapes (`Shape`): the pinned tree is
`⟨false, false⟩`, the repaired tree `⟨true, true⟩`.

(a) `Launch` — `vgi_rpc/launcher.py::launch` + `gc_state_dir`, per endpoint (command hash): launcher
processes of the endpoint, foreign launchers whose opportunistic GC visits the endpoint, the endpoint's
workers.  The per-hash `FileLock` is modelled with the inode protocol of `filelock` (open → non-blocking
flock → `st_nlink` check), because `gc_state_dir` unlinks the lock path while holding the lock; the worker
is the abstraction proved in (b): it stops accepting only `idle` after its last connection.

Times are `Nat` (multiples of the harness' quantum).  Ghost state: `hist` (observable events) and the
spec monitor `mon` run over it.
-/
namespace VgiVerif.C33
open VgiVerif.Sched

/-! ## (b) the accept loop -/

/-- the stale-callback test of `_close_listener_if_idle(fired)`, and WHAT `fired` is bound to -/
inductive CbCheck where
  | none                      -- no test: every fired callback acts
  | own                       -- `if timer is not fired: return` where `fired` is the callback's OWN timer, bound when it was armed
                              -- (`armed = Timer(…, lambda: cb(armed)); timer = armed`: `armed` is a fresh cell per arming)
  | late (noneStale : Bool)   -- the argument is the shared variable `timer` itself, read WHEN THE TIMER FIRES (late-binding
                              -- closure `lambda: cb(timer)`): `timer is not fired` compares the variable with itself; the
                              -- test can only reject through an explicit `fired is None or …` (`noneStale`)
deriving Repr, DecidableEq

/-- the callback of timer `k` finds itself stale; `arg` is what its argument evaluated to when the timer thread CALLED the
callback (for a late-bound closure: the value of the shared `timer` variable at that moment, read without the lock) -/
def CbCheck.stale (c : CbCheck) (timer : Option Nat) (k : Nat) (arg : Option Nat) : Bool :=
  match c with
  | .none => false
  | .own => timer != some k
  | .late ns => (ns && arg.isNone) || timer != arg

/-- the extractor's code: 0 no test, 1 own identity, 2 late-bound with `is None` guard, 3 late-bound without -/
def CbCheck.ofCode : Nat → CbCheck
  | 1 => .own
  | 2 => .late true
  | 3 => .late false
  | _ => .none

/-- the repairs and the registration site, as extracted from the source -/
structure Shape where
  clearOnAccept : Bool    -- `shutdown_requested = False` in the accept critical section
  cbCheck : CbCheck       -- the stale-callback test of the timer callback
  regInHandler : Bool     -- WHERE a connection is counted (`conn_count += 1; _cancel_timer_locked() [; clear]`): `false` = in
                          -- the accept loop before the connection's thread exists, `true` = first thing in that thread
deriving Repr, DecidableEq

def Shape.extracted : Shape :=
  ⟨Gen.C33.clearsFlagOnAccept, CbCheck.ofCode Gen.C33.callbackCheck, Gen.C33.registersInHandler⟩
def Shape.pinned : Shape := ⟨false, .none, false⟩
def Shape.repaired : Shape := ⟨true, .own, false⟩

structure Cfg where
  idle : Option Nat     -- `idle_timeout` (`None` = never self-terminate)
  grace : Nat           -- start-up grace `max(idle_timeout, 60 s)`
  maxConn : Option Nat  -- `max_connections`
deriving Repr, DecidableEq

/-- `max(idle_timeout, 60.0)` with `q` quanta per second -/
def graceOf (q : Nat) (idle : Nat) : Nat := max idle (Gen.C33.graceFloorSecs * q)

namespace Loop

abbrev Conn := Nat

/-- accept-loop thread -/
inductive LPc where
  | atAccept                  -- in `sock.accept()`
  | got (c : Conn)            -- accept() returned `c`, not yet counted
  | registered (c : Conn)     -- counted (`conn_count += 1; cancel`), thread not yet in `active`
  | added (c : Conn)          -- `active.add(t)` done, thread not started
  | timedOut                  -- accept() raised `TimeoutError`, flag not yet read
  | exiting (idleStop : Bool) -- left the loop (`break`), `finally` not yet run
  | joined                    -- `finally` ran
deriving Repr, DecidableEq

/-- handler thread of one connection -/
inductive HPc where
  | none
  | spawned     -- thread started, connection not yet counted (only when the handler does the counting)
  | started | permitted | serving | served | released | done
deriving Repr, DecidableEq

structure St where
  now : Nat := 0
  lpc : LPc := .atAccept
  hpc : Conn → HPc := fun _ => .none
  connCount : Nat := 0
  timer : Option Nat := none             -- the code's `timer` (timers are numbered in arming order)
  flag : Bool := false                   -- `shutdown_requested`
  tstate : Nat → Timer := fun _ => .idle
  deadline : Nat → Nat := fun _ => 0
  cbDone : Nat → Bool := fun _ => false  -- the callback of timer k has run
  cbArg : Nat → Option (Option Nat) := fun _ => none  -- timer k's thread has called its callback: what a late-bound argument read
  nextTimer : Nat := 0
  sem : Sem := ⟨0, []⟩
  -- ghost
  live : List Conn := []                 -- connections counted in `conn_count`
  sinceDec : Bool := false               -- a connection was accepted since the last shutdown decision
  hist : List Spec.Ev := []
  mon : Spec.Mon := {}

inductive Label where
  | tick (d : Nat)
  | sockAccept (c : Conn)                -- `conn, _ = sock.accept()`
  | register                             -- `with state_lock: conn_count += 1; _cancel_timer_locked() [; shutdown_requested = False]`
  | hregister (c : Conn)                 -- the same section as `register`, run by the connection's own thread (`regInHandler`)
  | addActive                            -- `with state_lock: active.add(t)`
  | spawn                                -- `t.start()`
  | acceptTimeout                        -- `except TimeoutError`
  | check (exit : Bool)                  -- `with state_lock: if shutdown_requested: break` / `continue`
  | acceptError                          -- `except OSError: break`
  | finalize                             -- `finally: with state_lock: _cancel_timer_locked(); snapshot`
  | semAcq (c : Conn)
  | serveBegin (c : Conn)
  | serveEnd (c : Conn)
  | semRel (c : Conn)
  | handlerEnd (c : Conn) (armed : Bool) -- `with state_lock: conn_count -= 1; if conn_count == 0 and idle_timeout: arm; discard`
  | fire (k : Nat)                       -- timer k: interval elapsed un-cancelled → the callback is pending
  | cbRead (k : Nat)                     -- timer k's thread calls `self.function()`: the lambda evaluates its argument (no lock)
  | callback (k : Nat)                   -- `_close_listener_if_idle` critical section
  | vars (cc : Nat) (tm : Option Nat) (fl : Bool)   -- observation of the real closure variables
deriving Repr, DecidableEq

/-- `_cancel_timer_locked` -/
def cancelCur (s : St) : St :=
  match s.timer with
  | some k => { s with tstate := upd s.tstate k (s.tstate k).cancel, timer := none }
  | none => s

/-- `_arm_timer_locked(d)` -/
def arm (s : St) (d : Nat) : St :=
  let ts1 := match s.timer with
    | some k => upd s.tstate k (s.tstate k).cancel
    | none => s.tstate
  { s with tstate := upd ts1 s.nextTimer .armed, deadline := upd s.deadline s.nextTimer (s.now + d),
           timer := some s.nextTimer, nextTimer := s.nextTimer + 1 }

def idleOf (cfg : Cfg) : Nat := cfg.idle.getD 0

def emit (cfg : Cfg) (s : St) (e : Spec.Ev) : St :=
  { s with hist := s.hist ++ [e], mon := s.mon.step (idleOf cfg) cfg.grace e }

/-- pc a handler must have to begin serving / to run its final section -/
def preServe (cfg : Cfg) : HPc := if cfg.maxConn.isSome then .permitted else .started
def preEnd (cfg : Cfg) : HPc := if cfg.maxConn.isSome then .released else .served

def step (sh : Shape) (cfg : Cfg) (s : St) : Label → Option St
  | .tick d => some { s with now := s.now + d }
  | .sockAccept c =>
    match s.lpc with
    | .atAccept =>
      if s.hpc c = .none then some (emit cfg { s with lpc := .got c, sinceDec := true } (.acc c s.now)) else none
    | _ => none
  | .register =>
    match s.lpc with
    | .got c =>
      if sh.regInHandler then none else
      let s1 := cancelCur s
      some { s1 with connCount := s.connCount + 1, flag := if sh.clearOnAccept then false else s.flag,
                     live := c :: s.live, lpc := .registered c }
    | _ => none
  | .hregister c =>
    if sh.regInHandler ∧ s.hpc c = .spawned then
      let s1 := cancelCur s
      some { s1 with connCount := s.connCount + 1, flag := if sh.clearOnAccept then false else s.flag,
                     live := c :: s.live, hpc := upd s.hpc c .started }
    else none
  | .addActive =>
    match s.lpc with
    | .registered c => some { s with lpc := .added c }
    | .got c => if sh.regInHandler then some { s with lpc := .added c } else none
    | _ => none
  | .spawn =>
    match s.lpc with
    | .added c => some { s with lpc := .atAccept, hpc := upd s.hpc c (if sh.regInHandler then .spawned else .started) }
    | _ => none
  | .acceptTimeout =>
    match s.lpc with
    | .atAccept => some { s with lpc := .timedOut }
    | _ => none
  | .check ex =>
    match s.lpc with
    | .timedOut =>
      if ex = s.flag then
        (if ex then some (emit cfg { s with lpc := .exiting true } (.stop s.now))
         else some { s with lpc := .atAccept })
      else none
    | _ => none
  | .acceptError =>
    match s.lpc with
    | .atAccept => some { s with lpc := .exiting false }
    | _ => none
  | .finalize =>
    match s.lpc with
    | .exiting _ => some { cancelCur s with lpc := .joined }
    | _ => none
  | .semAcq c =>
    if cfg.maxConn.isSome ∧ s.hpc c = .started then
      match s.sem.acquire c with
      | some sm => some { s with sem := sm, hpc := upd s.hpc c .permitted }
      | none => none
    else none
  | .serveBegin c =>
    if s.hpc c = preServe cfg then some { s with hpc := upd s.hpc c .serving } else none
  | .serveEnd c =>
    if s.hpc c = .serving then some (emit cfg { s with hpc := upd s.hpc c .served } (.fin c s.now)) else none
  | .semRel c =>
    if cfg.maxConn.isSome ∧ s.hpc c = .served then
      match s.sem.release c with
      | some sm => some { s with sem := sm, hpc := upd s.hpc c .released }
      | none => none
    else none
  | .handlerEnd c armed =>
    if s.hpc c = preEnd cfg then
      let s1 : St := { s with connCount := s.connCount - 1, live := s.live.erase c, hpc := upd s.hpc c .done }
      match cfg.idle with
      | some i =>
        if s1.connCount = 0 then (if armed then some (arm s1 i) else none)
        else (if armed then none else some s1)
      | none => if armed then none else some s1
    else none
  | .fire k =>
    match (s.tstate k).fire with
    | some t' => if s.deadline k ≤ s.now then some { s with tstate := upd s.tstate k t' } else none
    | none => none
  | .cbRead k =>
    if s.tstate k = .fired ∧ s.cbArg k = none then some { s with cbArg := upd s.cbArg k (some s.timer) } else none
  | .callback k =>
    match s.cbArg k with
    | none => none
    | some arg =>
    if s.tstate k = .fired ∧ s.cbDone k = false then
      let s1 : St := { s with cbDone := upd s.cbDone k true }
      if sh.cbCheck.stale s.timer k arg then some s1
      else if s.connCount ≠ 0 then some { s1 with timer := none }
      else some { s1 with timer := none, flag := true, sinceDec := false }
    else none
  | .vars cc tm fl => if cc = s.connCount ∧ tm = s.timer ∧ fl = s.flag then some s else none

/-- the state in which the accept loop is entered: the semaphore is created with `max_connections` permits and,
when `idle_timeout` is set, the start-up grace timer (timer 0) has been armed
(`with state_lock: _arm_timer_locked(max(idle_timeout, 60.0))`) -/
def init (cfg : Cfg) : St :=
  let s0 : St := { sem := Sem.mk' (cfg.maxConn.getD 0) }
  match cfg.idle with
  | some _ => arm s0 cfg.grace
  | none => s0

/-- `_serve_socket_threaded` as a transition system of the Sched kit -/
def ts (sh : Shape) (cfg : Cfg) : TS St Label := { init := init cfg, step := step sh cfg }

end Loop

/-! ## (a) the launcher, per endpoint -/

/-- extracted shape of the installed `filelock`: after `flock` succeeds, `_finalize_locked_fd` drops a lock
whose inode has `st_nlink == 0` and retries -/
structure LShape where
  nlinkCheck : Bool
  /-- extracted start-up order of `serve_unix`: `sock.listen()` comes before the `on_bound(path)` announcement (the
  launcher's `_spawn_worker` returns when it reads that announcement) -/
  listenFirst : Bool
  /-- the lock file of a launch is named after its SOCKET in the socket's own directory (`<sock>.lock` next to an explicit
  socket path; `<hash>.lock` next to `<hash>.sock`), so every spelling of the socket's path — symlinked directory, `..`
  segments, relative — reaches the same lock inode.  `false`: the lock file is derived from the path STRING; launches of
  one socket under different spellings then hold different locks and do not exclude each other -/
  lockBySocket : Bool
deriving Repr, DecidableEq

def LShape.extracted : LShape :=
  ⟨Gen.C33.filelockChecksNlink, Gen.C33.listenBeforeAnnounce, Gen.C33.lockKeyedBySocket⟩

namespace Launch

abbrev Wid := Nat

/-- one worker process of the endpoint -/
inductive WSt where
  | unborn
  | starting                    -- process created (`Popen`), `serve_unix` not yet at `_check_no_existing_listener`
  | prechecked                  -- nobody was listening on the path; `_unlink_stale_unix_socket` not yet run
  | cleared                     -- stale socket entry removed; not yet bound
  | bound                       -- `sock.bind(path)` done: the path names this worker's socket; neither listening nor announced
  | listening                   -- `sock.listen()` done, `on_bound` not yet called: connections are accepted by the kernel
  | announced                   -- `on_bound(path)` called although the socket does NOT listen yet (only when `listenFirst` is false)
  | accepting (quiet : Nat)     -- listening and announced, in its accept loop; `quiet` = time of its last connection (or of its start)
  | closed                      -- left the accept loop; `_unlink_bound_unix_socket` not yet started
  | checked (own : Bool)        -- `lstat` + identity comparison done, `unlink` not yet
  | gone
deriving Repr, DecidableEq

inductive Role where
  | launch | gc
deriving Repr, DecidableEq

/-- a launcher process, seen from this endpoint: either launching it (`Role.launch`) or visiting it in
`gc_state_dir` while launching another endpoint (`Role.gc`) -/
inductive Pc where
  | idle
  | opening (r : Role)                  -- `FileLock.acquire()`: about to `os.open(lock_path, O_CREAT)`
  | opened (r : Role) (g : Nat)         -- fd on lock-file inode `g`
  | flocked (r : Role) (g : Nat)        -- `flock` taken, inode not yet checked
  | probing (r : Role) (g : Nat)        -- lock held, before `_probe`
  | stale (g : Nat)                     -- launch: probe failed, before `_unlink_stale_socket`
  | metaW (g : Nat)                     -- launch: before `_write_meta`
  | spawning (g : Nat)                  -- launch: before `_spawn_worker`
  | waiting (g : Nat) (w : Wid)         -- launch: inside `_spawn_worker`, worker `w` created, reading its stdout for `UNIX:<path>`
  | decided (g : Nat) (t0 : Nat)        -- launch: return value decided at `t0`, lock still held
  | failing (g : Nat)                   -- launch: an exception is propagating, lock still held
  | released (t0 : Option Nat)          -- launch: lock released (`some t0` = will return, `none` = will raise)
  | returned
  | failed
  | gUnlinkSock (g : Nat)               -- gc: probe failed, before `unlink(sock)`
  | gUnlinkMeta (g : Nat)
  | gUnlinkLock (g : Nat)
  | gReleasing (g : Nat)                -- gc: before `probe_lock.release()`
  | gDone
deriving Repr, DecidableEq

structure St where
  now : Nat := 0
  pc : Tid → Pc := fun _ => .idle
  lockGen : Nat := 0                       -- inode currently named by the lock path (an unlink bumps it)
  held : Nat → Option Tid := fun _ => none -- flock holder per inode
  sock : Option Wid := none                -- worker whose socket inode the socket path names
  hasMeta : Bool := false
  ws : Wid → WSt := fun _ => .unborn
  nextW : Nat := 0
  -- ghost
  clobbered : Bool := false                -- a worker's exit-time unlink removed another worker's socket
  hist : List Spec.LEv := []
  mon : Spec.LMon := {}

inductive Label where
  | tick (d : Nat)
  | begin (t : Tid) (r : Role)
  | lockOpen (t : Tid)
  | lockFlock (t : Tid) (ok : Bool)
  | lockVerify (t : Tid) (ok : Bool)
  | lockTimeout (t : Tid)
  | probe (t : Tid) (ok : Bool)
  | unlinkStale (t : Tid) (ok : Bool)
  | writeMeta (t : Tid)
  | spawn (t : Tid) (w : Wid)          -- `subprocess.Popen`: worker process `w` exists
  | spawnReady (t : Tid)               -- `_spawn_worker` read the worker's `UNIX:<path>` line and returned
  | spawnFail (t : Tid)                -- `_spawn_worker` raised (the worker died before announcing, or never started)
  | wCheck (w : Wid) (ok : Bool)       -- worker start-up: `_check_no_existing_listener` (`ok = false`: somebody listens → the worker dies)
  | wClear (w : Wid)                   -- `_unlink_stale_unix_socket`
  | wBind (w : Wid)                    -- `sock.bind(path)`
  | wListen (w : Wid)                  -- `sock.listen()`
  | wAnnounce (w : Wid)                -- `on_bound(path)`: the `UNIX:<path>` line is written
  | wLost (w : Wid)                    -- start-up fails because the path changed under the worker: `_unlink_stale_unix_socket` finds the
                                       -- entry gone between its `lstat` and `unlink`, or `os.lstat(path)` right after `bind` finds the
                                       -- fresh socket already removed (`FileNotFoundError`; the process dies)
  | release (t : Tid)
  | ret (t : Tid)
  | raised (t : Tid)
  | gcUnlinkSock (t : Tid)
  | gcUnlinkMeta (t : Tid)
  | gcUnlinkLock (t : Tid)
  | wExit (w : Wid)
  | wStat (w : Wid)
  | wUnlink (w : Wid)
  | vars (sock : Option Wid) (hasMeta : Bool) (lockGen : Nat)   -- observation of the in-memory world
deriving Repr, DecidableEq

/-- a `connect()` to the worker's socket succeeds: it listens (the kernel queues the connection) and has not left its accept loop -/
def isAccepting : WSt → Bool
  | .accepting _ => true
  | .listening => true
  | _ => false

/-- the worker process exists and has not stopped accepting: start-up included -/
def isAlive : WSt → Bool
  | .starting | .prechecked | .cleared | .bound | .listening | .announced | .accepting _ => true
  | _ => false

/-- `_probe(sock_path)`: the path names a worker that is accepting -/
def pathAccepting (s : St) : Bool :=
  match s.sock with
  | some w => isAccepting (s.ws w)
  | none => false

def emit (idle : Nat) (s : St) (e : Spec.LEv) : St :=
  { s with hist := s.hist ++ [e], mon := s.mon.step idle e }

/-- a successful connect is a connection of the worker: its idle period restarts -/
def touch (s : St) : St :=
  match s.sock with
  | some w => (match s.ws w with
    | .accepting _ => { s with ws := upd s.ws w (.accepting s.now) }
    | _ => s)
  | none => s

/-- remove the socket path -/
def rmSock (idle : Nat) (s : St) : St :=
  match s.sock with
  | some _ => emit idle { s with sock := none } .unlink
  | none => s

/-- the socket path names another worker's socket than `w`'s -/
def clobbers (s : St) (w : Wid) : Bool :=
  match s.sock with
  | some w' => w' != w
  | none => false

def step (sh : LShape) (idle : Nat) (s : St) : Label → Option St
  | .tick d => some { s with now := s.now + d }
  | .begin t r =>
    match s.pc t with
    | .idle => some { s with pc := upd s.pc t (.opening r) }
    | _ => none
  | .lockOpen t =>
    match s.pc t with
    | .opening r => some { s with pc := upd s.pc t (.opened r s.lockGen) }
    | _ => none
  | .lockFlock t ok =>
    match s.pc t with
    | .opened r g =>
      if ok then
        -- a launcher that came by another spelling of the socket path may hold "the" lock on a different file
        (if s.held g = none ∨ sh.lockBySocket = false
         then some { s with held := upd s.held g (some t), pc := upd s.pc t (.flocked r g) } else none)
      else (if s.held g = none then none else
        -- contention: the launcher polls again, the GC's zero-timeout lock gives up (`Timeout` → skipped)
        some { s with pc := upd s.pc t (match r with | .launch => .opening .launch | .gc => .gDone) })
    | _ => none
  | .lockVerify t ok =>
    match s.pc t with
    | .flocked r g =>
      if ok = (!sh.nlinkCheck || decide (g = s.lockGen)) then
        (if ok then some { s with pc := upd s.pc t (.probing r g) }
         else some { s with held := upd s.held g none,
                            pc := upd s.pc t (match r with | .launch => .opening .launch | .gc => .gDone) })
      else none
    | _ => none
  | .lockTimeout t =>
    match s.pc t with
    | .opening .launch => some { s with pc := upd s.pc t .failed }
    | _ => none
  | .probe t ok =>
    match s.pc t with
    | .probing r g =>
      if ok = pathAccepting s then
        (if ok then
          some { touch s with pc := upd s.pc t (match r with | .launch => .decided g s.now | .gc => .gReleasing g) }
         else some { s with pc := upd s.pc t (match r with | .launch => .stale g | .gc => .gUnlinkSock g) })
      else none
    | _ => none
  | .unlinkStale t ok =>
    match s.pc t with
    | .stale g =>
      if ok then some { rmSock idle s with pc := upd s.pc t (.metaW g) }
      else (if s.sock = none then some { s with pc := upd s.pc t (.failing g) } else none)
    | _ => none
  | .writeMeta t =>
    match s.pc t with
    | .metaW g => some { s with hasMeta := true, pc := upd s.pc t (.spawning g) }
    | _ => none
  | .spawn t w =>
    match s.pc t with
    | .spawning g =>
      if w = s.nextW then
        some (emit idle { s with ws := upd s.ws w .starting, nextW := s.nextW + 1, pc := upd s.pc t (.waiting g w) } (.spawn w))
      else none
    | _ => none
  | .spawnReady t =>
    match s.pc t with
    | .waiting g w =>
      (match s.ws w with
       | .accepting q => some { s with pc := upd s.pc t (.decided g q) }       -- announced after it listened: ready since `q`
       | .announced => some { s with pc := upd s.pc t (.decided g s.now) }     -- announced, not listening
       | _ => none)
    | _ => none
  | .spawnFail t =>
    match s.pc t with
    | .spawning g => some { s with pc := upd s.pc t (.failing g) }
    | .waiting g w => if s.ws w = .gone then some { s with pc := upd s.pc t (.failing g) } else none
    | _ => none
  | .wCheck w ok =>
    match s.ws w with
    | .starting =>
      if ok = !pathAccepting s then
        (if ok then some { s with ws := upd s.ws w .prechecked }
         else some (emit idle { s with ws := upd s.ws w .gone } (.exit w)))
      else none
    | _ => none
  | .wClear w =>
    match s.ws w with
    | .prechecked => some { rmSock idle s with ws := upd s.ws w .cleared }
    | _ => none
  | .wBind w =>
    match s.ws w with
    | .cleared => if s.sock = none then some (emit idle { s with ws := upd s.ws w .bound, sock := some w } (.bind w)) else none
    | _ => none
  | .wListen w =>
    match s.ws w with
    | .bound => if sh.listenFirst then some (emit idle { s with ws := upd s.ws w .listening } (.ready w)) else none
    | .announced =>
      if sh.listenFirst then none else some (emit idle { s with ws := upd s.ws w (.accepting s.now) } (.ready w))
    | _ => none
  | .wLost w =>
    match s.ws w with
    | .prechecked => if s.sock = none then some (emit idle { s with ws := upd s.ws w .gone } (.exit w)) else none
    | .bound => if s.sock = some w then none else some (emit idle { s with ws := upd s.ws w .gone } (.exit w))
    | _ => none
  | .wAnnounce w =>
    match s.ws w with
    | .listening => some { s with ws := upd s.ws w (.accepting s.now) }
    | .bound => if sh.listenFirst then none else some { s with ws := upd s.ws w .announced }
    | _ => none
  | .release t =>
    match s.pc t with
    | .decided g t0 => some { s with held := upd s.held g none, pc := upd s.pc t (.released (some t0)) }
    | .failing g => some { s with held := upd s.held g none, pc := upd s.pc t (.released none) }
    | .gReleasing g => some { s with held := upd s.held g none, pc := upd s.pc t .gDone }
    | _ => none
  | .ret t =>
    match s.pc t with
    | .released (some t0) => some (emit idle { s with pc := upd s.pc t .returned } (.ret t0 s.now))
    | _ => none
  | .raised t =>
    match s.pc t with
    | .released none => some { s with pc := upd s.pc t .failed }
    | _ => none
  | .gcUnlinkSock t =>
    match s.pc t with
    | .gUnlinkSock g => some { rmSock idle s with pc := upd s.pc t (.gUnlinkMeta g) }
    | _ => none
  | .gcUnlinkMeta t =>
    match s.pc t with
    | .gUnlinkMeta g => some { s with hasMeta := false, pc := upd s.pc t (.gUnlinkLock g) }
    | _ => none
  | .gcUnlinkLock t =>
    match s.pc t with
    | .gUnlinkLock g => some { s with lockGen := s.lockGen + 1, pc := upd s.pc t (.gReleasing g) }
    | _ => none
  | .wExit w =>
    match s.ws w with
    | .accepting q => if q + idle ≤ s.now then some (emit idle { s with ws := upd s.ws w .closed } (.exit w)) else none
    | _ => none
  | .wStat w =>
    match s.ws w with
    | .closed => some { s with ws := upd s.ws w (.checked (s.sock == some w)) }
    | _ => none
  | .wUnlink w =>
    match s.ws w with
    | .checked own =>
      if own then
        some { rmSock idle s with ws := upd s.ws w .gone,
                                  clobbered := s.clobbered || clobbers s w }
      else some { s with ws := upd s.ws w .gone }
    | _ => none
  | .vars sk m g => if sk = s.sock ∧ m = s.hasMeta ∧ g = s.lockGen then some s else none

/-- `launch` / `gc_state_dir` / worker lifetime of one endpoint as a transition system -/
def ts (sh : LShape) (idle : Nat) : TS St Label := { init := {}, step := step sh idle }

end Launch

end VgiVerif.C33
