import VgiVerif.Prelude.SchedProd
import VgiVerif.Model.Engine
/-
C41 model: `vgi_rpc/rpc/_transport.py` `_serve_socket_threaded` (accept loop, one handler thread per connection,
the `max_connections` semaphore in `_handle`) + `RpcServer.serve` per connection, as a PRODUCT (Sched kit,
`Prelude/SchedProd.lean`) of per-connection components next to the shared semaphore.

Component = one connection: its life-cycle phase, the client's remaining script, the open stream session and the
observations made so far.  The serving side of a connection is an `Engine.Pipe` server: unary calls are
`Pipe.unaryObs`; a producer stream is `Pipe.iterate` cut into its single ticks (`tickP`; `Proofs/C41.lean` proves
that the ticks compose to `Pipe.iterate`); an exchange is `Pipe.exchangeOne` per input and `drainLogs` at close.
The stream session (the model of the per-call `StreamState` + the bytes in flight) lives INSIDE the component: the
property's scope is per-call / per-stream state.  (The implementation object is shared by all connections by
design; generated services keep their mutable state in stream states.)

Labels (all observed by the harness):
  accept   the accept loop took the connection               pending  → accepted
  semAcq   `_handle`: `semaphore.acquire()` (max set)        accepted → admitted        Sem.acquire
  begin    `_handle`: `transport_factory(conn)`; serve()     admitted/accepted → serving
  op evs   the client completed its next operation and observed `evs` (must equal the model's)
           — a non-empty observation needs the connection to be in `serving`; the transport failure a client sees when
             its handler crashed (`Op.crash`) may be read after the handler has closed the transport (`ended`/`released`)
  end      `_handle`: `transport.close()` after serve() — on EVERY exit of serve(): normal end of the connection, an
           `Exception` (swallowed) or a BaseException escaping the handler (`Op.crash`)      serving  → ended / released
  semRel   `_handle`: `semaphore.release()` (max set)        ended    → released        Sem.release
-/
namespace VgiVerif.C41
open VgiVerif.Sched VgiVerif.Engine

/-- an open stream session as the lockstep protocol sees it: bytes already written by the server and not yet read
by the client (`carry`), and the rest of the state's step script -/
inductive Sess where
  | prod (carry : List Item) (steps : List Step)
  | exch (carry : List Item) (steps : List Step)
  | over                                              -- ended (EOS / error delivered); only `close` remains
deriving Repr

/-- one client operation (the stream descriptors are the ones of `harness/common/svcgen.py`) -/
inductive Op where
  | unary (logs : List Log) (out : Except Exn Nat)
  | openP (hdr : Option Nat) (initLogs : List Log) (steps : List Step)
  | openX (hdr : Option Nat) (initLogs : List Log) (steps : List Step)
  | tick
  | send
  | close
  | crash (obs : List Ev)   -- a call whose handler leaves `serve()` with a non-`Exception` BaseException: the connection
                            -- is closed under the client, which observes `obs` (a transport failure); `_handle` still runs
                            -- its `finally` (`end`, `semRel`)
deriving Repr

/-- one `next()` on a producer session: a single iteration of `Engine.Pipe.iterate` -/
def tickP (carry : List Item) : List Step → List Ev × Sess
  | [] => ((readUntilData carry).1 ++ [.fin], .over)
  | s :: r =>
    match processStep s with
    | .cont items =>
      match readUntilData (carry ++ items) with
      | (evs, .gotData rest) => (evs, .prod rest r)
      | (evs, _) => (evs, .over)
    | .done items =>
      match readUntilData (carry ++ items) with
      | (evs, .gotData rest) => (evs, .prod rest [])
      | (evs, _) => (evs ++ [.fin], .over)
    | .fail items => ((readUntilData (carry ++ items)).1, .over)

/-- how a stream opens: with a header the init logs and the header are delivered by the open itself, without one the
init logs travel with the first output -/
def openObs (hdr : Option Nat) (initLogs : List Log) : List Ev × List Item :=
  match hdr with
  | some h => (initLogs.map Ev.log ++ [.header h], [])
  | none => ([], logItems initLogs)

/-- one client operation against the connection's server: observation and next session (`none` = the script is
ill-formed here, e.g. a tick without an open stream) -/
def opStep : Option Sess → Op → Option (List Ev × Option Sess)
  | none, .unary logs out => some (Pipe.unaryObs logs out, none)
  | none, .crash obs => some (obs, none)
  | none, .openP hdr il steps => some ((openObs hdr il).1, some (.prod (openObs hdr il).2 steps))
  | none, .openX hdr il steps => some ((openObs hdr il).1, some (.exch (openObs hdr il).2 steps))
  | some (.prod c st), .tick => some ((tickP c st).1, some (tickP c st).2)
  | some (.exch c (s :: r)), .send =>
    match Pipe.exchangeOne c s with
    | (evs, some rest) => some (evs, some (.exch rest r))
    | (evs, none) => some (evs, some .over)
  | some (.exch c _), .close => some (drainLogs c, none)
  | some .over, .close => some ([], none)
  | _, _ => none

/-- the observation of a connection served ALONE: its script run sequentially against one `Engine.Pipe` server
(stops at an ill-formed operation) -/
def solo : Option Sess → List Op → List (List Ev)
  | _, [] => []
  | ss, o :: r =>
    match opStep ss o with
    | some (evs, ss') => evs :: solo ss' r
    | none => []

inductive Phase where
  | pending | accepted | admitted | serving | ended | released
deriving Repr, DecidableEq

/-- one connection -/
structure Conn where
  phase : Phase := .pending
  script : List Op
  sess : Option Sess := none
  obs : List (List Ev) := []

inductive CL where
  | accept
  | semAcq
  | begin
  | op (evs : List Ev)
  | end_
  | semRel
deriving Repr, DecidableEq

/-- the handler has at least begun to serve (it may already have closed the transport) -/
def Phase.started : Phase → Bool
  | .serving | .ended | .released => true
  | _ => false

def Op.isCrash : Op → Bool
  | .crash _ => true
  | _ => false

/-- the phase `begin` starts from / `end` leads to (`capped` = `max_connections is not None`) -/
def beginFrom (capped : Bool) : Phase := if capped then .admitted else .accepted
def endTo (capped : Bool) : Phase := if capped then .ended else .released

/-- the component step; `capped` = `max_connections is not None` -/
def cstep (capped : Bool) (c : Conn) : CL → Option Conn
  | .accept => if c.phase = .pending then some { c with phase := .accepted } else none
  | .semAcq => if capped ∧ c.phase = .accepted then some { c with phase := .admitted } else none
  | .begin =>
    if c.phase = beginFrom capped then some { c with phase := .serving } else none
  | .op evs =>
    match c.script with
    | [] => none
    | o :: r =>
      match opStep c.sess o with
      | none => none
      | some (e, ss') =>
        if e = evs ∧ (evs = [] ∨ c.phase = .serving ∨ (o.isCrash = true ∧ c.phase.started = true)) then
          some { c with script := r, sess := ss', obs := c.obs ++ [evs] }
        else none
  | .end_ => if c.phase = .serving then some { c with phase := endTo capped } else none
  | .semRel => if capped ∧ c.phase = .ended then some { c with phase := .released } else none

/-- the shared part: the `max_connections` semaphore (`none` = unlimited) -/
def sstep (sh : Option Sem) (i : Tid) (l : CL) (_c : Conn) : Option (Option Sem) :=
  match sh, l with
  | some sem, .semAcq => (sem.acquire i).map some
  | some sem, .semRel => (sem.release i).map some
  | sh, _ => some sh

def prod (capped : Bool) : Prod (Option Sem) Conn CL := { cstep := cstep capped, sstep := sstep }

abbrev St := PSt (Option Sem) Conn
abbrev Label := Tid × CL

def initSt (cap : Option Nat) (prog : Tid → List Op) : St :=
  { shared := cap.map Sem.mk', comp := fun i => { script := prog i } }

/-- the threaded server with `max_connections = cap` and one client script per connection id -/
def ts (cap : Option Nat) (prog : Tid → List Op) : TS St Label := (prod cap.isSome).ts (initSt cap prog)

/-- holds a semaphore permit -/
def Phase.holds : Phase → Bool
  | .admitted | .serving | .ended => true
  | _ => false

end VgiVerif.C41
