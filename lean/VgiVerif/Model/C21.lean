import VgiVerif.Prelude.PyStr
import VgiVerif.Gen.C21Unauthorized
/-
C21 model — the standardized 401 (docs/unauthorized-spec.md), transliterated over the *extracted* constants and shapes:

  vgi_rpc/http/_unauthorized.py   AuthReason, AuthFailure, AuthUnavailableError, classify_auth_failure,
                                  declare_proxy_headers / proxy_headers_of / merge_proxy_headers, build_proxy_hint
  vgi_rpc/http/_bearer.py         chain_authenticate (+ _combine_reasons), PreconditionGate, require_all
  vgi_rpc/http/server/_middleware.py   _AuthMiddleware.process_request (the try/except around the callback)
  vgi_rpc/http/server/_errors.py  _make_error_serializer._serialize, _wants_html, _render_unauthorized_json / _html
  vgi_rpc/http/server/_factory.py make_wsgi_app: the names handed to build_proxy_hint
  vgi_rpc/http/_client.py         _parse_unauthorized

Authenticators are an inductive composition tree; what a callback does on one request is the environment `ρ`
(leaf id ↦ outcome), so "configuration" (the tree, the declared headers) and "this request" are separate arguments.
-/
namespace VgiVerif.C21
open VgiVerif.PyStr

abbrev Str := List Char

/-! ## The closed set -/

inductive Reason where
  | missing | invalid | expired | scope | proxy | unauthorized
deriving Repr, DecidableEq

def Reason.all : List Reason := [.missing, .invalid, .expired, .scope, .proxy, .unauthorized]

/-- the member's name in `class AuthReason` -/
def Reason.name : Reason → String
  | .missing => "MISSING_CREDENTIAL"
  | .invalid => "INVALID_CREDENTIAL"
  | .expired => "EXPIRED_CREDENTIAL"
  | .scope => "INSUFFICIENT_SCOPE"
  | .proxy => "PROXY_REQUIRED"
  | .unauthorized => "UNAUTHORIZED"

/-- `AuthReason.X.value`, looked up in the extracted enum -/
def Reason.value (r : Reason) : Str :=
  match Gen.C21.reasonMembers.find? (fun m => m.1 == r.name) with
  | some m => m.2.toList
  | none => []

/-- `AuthReason.<name>` as written in the source -/
def Reason.ofName (n : String) : Reason := (Reason.all.find? (fun r => r.name == n)).getD .unauthorized

/-- `AuthReason(v)` for `v in _AUTH_REASONS` -/
def Reason.ofValue? (v : Str) : Option Reason := Reason.all.find? (fun r => r.value == v)

/-! ## Exceptions an authenticate callback raises -/

/-- the part of CPython's exception hierarchy the modelled `except` clauses can see: a class and all its bases -/
def supers (c : String) : List String :=
  if c = "ValueError" then ["ValueError", "Exception", "BaseException"]
  else if c = "PermissionError" then ["PermissionError", "OSError", "Exception", "BaseException"]
  else if c = "OSError" then ["OSError", "Exception", "BaseException"]
  else if c = "RuntimeError" then ["RuntimeError", "Exception", "BaseException"]
  else if c = "RecursionError" then ["RecursionError", "RuntimeError", "Exception", "BaseException"]
  else if c = "UnicodeDecodeError" then ["UnicodeDecodeError", "UnicodeError", "ValueError", "Exception", "BaseException"]
  else if c = "JSONDecodeError" then ["JSONDecodeError", "ValueError", "Exception", "BaseException"]
  else if c = "Exception" then ["Exception", "BaseException"]
  else if c = "BaseException" then ["BaseException"]
  else [c]

/-- what `getattr(exc, "vgi_auth_reason", None)` finds on an exception raised by an authenticator the package does not
    control: the attribute is duck-typed, so it can hold anything -/
inductive Declared where
  /-- no attribute, or `None` -/
  | absent
  /-- an `AuthReason` member -/
  | member (r : Reason)
  /-- a plain `str` (not an `AuthReason` instance): a wire value of the set, a foreign / re-cased code, `""` … -/
  | text (s : Str)
  /-- any other object (`int`, `bytes`, `list`, `object()` …) -/
  | other
deriving Repr, DecidableEq

inductive Exc where
  /-- `AuthFailure(reason, detail)` — carries `.reason` and the `vgi_auth_reason` attribute -/
  | authFailure (r : Reason) (detail : Str)
  /-- any other `ValueError` (sub)class; `declared` = its duck-typed `vgi_auth_reason` attribute -/
  | valueError (declared : Declared) (str : Str) (tyName : Str)
  /-- `PermissionError` and subclasses (`ProofError` declares `proxy_required`) -/
  | permissionError (declared : Declared) (str : Str)
  /-- `AuthUnavailableError(detail, retry_after=n)` -/
  | unavailable (retryAfter : Int) (detail : Str)
  /-- any exception that is neither a `ValueError`, an `OSError` nor an `AuthUnavailableError` (a bug in the callback) -/
  | other (tyName : Str)
deriving Repr, DecidableEq

/-- names of the exception's class and of all its bases -/
def Exc.classes : Exc → List String
  | .authFailure .. => "AuthFailure" :: Gen.C21.authFailureBases.flatMap supers
  | .valueError .. => supers "ValueError"
  | .permissionError .. => supers "PermissionError"
  | .unavailable .. => "AuthUnavailableError" :: Gen.C21.unavailableBases.flatMap supers
  | .other .. => supers "Exception"

def Exc.isInstance (e : Exc) (cls : String) : Bool := e.classes.contains cls

/-- `except (A, B)` catches `e` -/
def Exc.caughtBy (e : Exc) (clss : List String) : Bool := clss.any e.isInstance

/-- `str(exc)` -/
def Exc.str : Exc → Str
  | .authFailure r d => if d.isEmpty then r.value else d
  | .valueError _ s _ => s
  | .permissionError _ s => s
  | .unavailable _ d => if d.isEmpty then Gen.C21.unavailableDefaultMsg.toList else d
  | .other _ => []

/-- `type(exc).__name__` -/
def Exc.tyName : Exc → Str
  | .authFailure .. => "AuthFailure".toList
  | .valueError _ _ t => t
  | .permissionError .. => "PermissionError".toList
  | .unavailable .. => "AuthUnavailableError".toList
  | .other t => t

/-- `getattr(exc, REASON_ATTR, None)` -/
def Exc.attr : Exc → Declared
  | .authFailure r _ => .member r
  | .valueError d _ _ => d
  | .permissionError d _ => d
  | _ => .absent

/-- the declaration `classify_auth_failure` honours: the guard is `isinstance(declared, AuthReason)`, so only a member
    counts — a string (even one spelling a member's value), a number, any other object falls through to the guess -/
def Exc.declared (e : Exc) : Option Reason :=
  match e.attr with
  | .member r => some r
  | _ => none

/-- `exc.retry_after` -/
def Exc.retryAfter? : Exc → Option Int
  | .unavailable n _ => some n
  | _ => none

/-- `classify_auth_failure` -/
def classify (e : Exc) : Reason :=
  match e.declared with
  | some r => r
  | none =>
    if e.isInstance Gen.C21.classifyClass then .ofName Gen.C21.classifyThen
    else .ofName Gen.C21.classifyElse

inductive Outcome where
  | ok
  | raise (e : Exc)
deriving Repr, DecidableEq

/-! ## Composition tree -/

structure Gate where
  id : Nat
  /-- `PreconditionGate(..., proxy_headers=…)` -/
  headers : List Str
deriving Repr

inductive Auth where
  /-- a callback; `headers` = its `vgi_proxy_headers` declaration (mTLS: the certificate header) -/
  | leaf (id : Nat) (headers : List Str)
  /-- `chain_authenticate(*members)` -/
  | chain (members : List Auth)
  /-- `require_all(gate)`: when the gate returns, so does the composition — an authenticated context, or an anonymous
      one when the gate's claims say `verified == "false"`; neither is a rejection, so both are `Outcome.ok` here -/
  | gateOnly (g : Gate)
  /-- `require_all(gate, inner)` -/
  | requireAll (g : Gate) (inner : Auth)
deriving Repr

/-- what each callback / gate does on *this* request -/
structure Env where
  leaf : Nat → Outcome
  gate : Nat → Outcome

/-- `mtls_authenticate_xfcc()` declares the XFCC header; `mtls_authenticate(header=h)` declares `h` -/
def Auth.mtlsXfcc (id : Nat) : Auth := .leaf id [Gen.C21.xfccHeader.toList]
def Auth.mtls (id : Nat) (header : Str) : Auth := .leaf id [header]
/-- `proxy_proof_gate(config)`: the proof header is declared only in `require` mode -/
def Gate.proof (id : Nat) (require : Bool) : Gate := ⟨id, if require then [Gen.C21.proofHeader.toList] else []⟩

/-- the code the chain records for a caught exception: `exc.reason if isinstance(exc, AuthFailure) else …` -/
def chainCode (e : Exc) : Reason :=
  match e with
  | .authFailure r _ => if e.isInstance Gen.C21.chainCodeClass then r else .ofName Gen.C21.chainCodeElse
  | _ => .ofName Gen.C21.chainCodeElse

/-- `str(exc) or type(exc).__name__` -/
def strOrName (e : Exc) : Str := if e.str.isEmpty then e.tyName else e.str

/-- `_combine_reasons` -/
def combine (codes : List Reason) : Reason :=
  if codes.isEmpty then .ofName Gen.C21.combineEmpty
  else if codes.all (fun c => c == Reason.ofName Gen.C21.combineAllMember) then .ofName Gen.C21.combineAllResult
  else match codes.find? (fun c => c != Reason.ofName Gen.C21.combineSkip) with
    | some c => c
    | none => .ofName Gen.C21.combineFall

/-- the detail of the chain's own failure -/
def chainDetail (reasons : List Str) : Str :=
  Gen.C21.chainDetailPre.toList ++ join Gen.C21.chainDetailSep.toList reasons ++ Gen.C21.chainDetailPost.toList

/-- result of the chain's loop: left early (return / propagating exception) or every member was caught -/
inductive Scan where
  | exit (o : Outcome)
  | exhausted (entries : List (Str × Reason))
deriving Repr

mutual
/-- what the composed callback does on the request -/
def eval (ρ : Env) : Auth → Outcome
  | .leaf i _ => ρ.leaf i
  | .chain ms =>
    match scan ρ ms with
    | .exit o => o
    | .exhausted es => .raise (.authFailure (combine (es.map (·.2))) (chainDetail (es.map (·.1))))
  | .gateOnly g => ρ.gate g.id
  | .requireAll g a =>
    match ρ.gate g.id with
    | .ok => eval ρ a
    | .raise e => .raise e
/-- the `for auth_fn in authenticators: try: return auth_fn(req) except <catches> …` loop -/
def scan (ρ : Env) : List Auth → Scan
  | [] => .exhausted []
  | a :: r =>
    match eval ρ a with
    | .ok => .exit .ok
    | .raise e =>
      if e.caughtBy Gen.C21.chainCatches then
        match scan ρ r with
        | .exit o => .exit o
        | .exhausted es => .exhausted ((strOrName e, chainCode e) :: es)
      else .exit (.raise e)
end

inductive Src where
  | leaf (id : Nat)
  | gate (id : Nat)
deriving Repr, DecidableEq

mutual
/-- the callbacks and gates actually invoked on the request, in order -/
def consulted (ρ : Env) : Auth → List Src
  | .leaf i _ => [.leaf i]
  | .chain ms => consultedList ρ ms
  | .gateOnly g => [.gate g.id]
  | .requireAll g a =>
    .gate g.id :: (match ρ.gate g.id with
      | .ok => consulted ρ a
      | .raise _ => [])
def consultedList (ρ : Env) : List Auth → List Src
  | [] => []
  | a :: r =>
    consulted ρ a ++ (match eval ρ a with
      | .ok => []
      | .raise e => if e.caughtBy Gen.C21.chainCatches then consultedList ρ r else [])
end

/-- outcome of one consulted source -/
def Env.at (ρ : Env) : Src → Outcome
  | .leaf i => ρ.leaf i
  | .gate i => ρ.gate i

/-- construction-time checks: `chain_authenticate()` with no members raises (a gate inside a chain is excluded by typing) -/
def Auth.wf : Auth → Bool
  | .leaf .. => true
  | .chain ms => !ms.isEmpty && wfList ms
  | .gateOnly _ => true
  | .requireAll _ a => a.wf
where wfList : List Auth → Bool
  | [] => true
  | a :: r => a.wf && wfList r

/-! ## Proxy-header declarations -/

/-- `tuple(dict.fromkeys(xs))`: first occurrences, in order -/
def dedup : List Str → List Str
  | [] => []
  | x :: xs => x :: (dedup xs).filter (fun y => y != x)

mutual
/-- `proxy_headers_of(fn)` for the composed callable (`declare_proxy_headers(authenticate, *merge_proxy_headers(…))`) -/
def proxyHeadersOf : Auth → List Str
  | .leaf _ hs => hs
  | .chain ms => dedup (dedup (proxyHeadersOfList ms))
  | .gateOnly g => dedup (dedup g.headers)
  | .requireAll g a => dedup (dedup (g.headers ++ proxyHeadersOf a))
def proxyHeadersOfList : List Auth → List Str
  | [] => []
  | a :: r => proxyHeadersOf a ++ proxyHeadersOfList r
end

mutual
/-- every header any leaf or gate of the tree declares -/
def declaredIn : Auth → List Str
  | .leaf _ hs => hs
  | .chain ms => declaredInList ms
  | .gateOnly g => g.headers
  | .requireAll g a => g.headers ++ declaredIn a
def declaredInList : List Auth → List Str
  | [] => []
  | a :: r => declaredIn a ++ declaredInList r
end

/-- `build_proxy_hint` -/
def buildProxyHint (headers : List Str) : Str :=
  let names := dedup headers
  if names.isEmpty then []
  else
    let listed := join Gen.C21.hintListSep.toList names
    let one := names.length == 1
    let noun := if one then Gen.C21.hintNounOne else Gen.C21.hintNounMany
    Gen.C21.hintSegments.flatMap fun
      | .lit s => s.toList
      | .listed => listed
      | .noun => noun.toList
      | .oneMany a b => (if one then a else b).toList

/-! ## Service configuration, middleware, serializer -/

structure Config where
  /-- `make_wsgi_app(authenticate=…)` -/
  auth : Option Auth
  /-- `proxy_auth_headers=[…]` -/
  declared : List Str
  /-- `proxy_proof_required=True` -/
  proofRequired : Bool

/-- the names `make_wsgi_app` hands to `build_proxy_hint`, in source order -/
def Config.headerNames (c : Config) : List Str :=
  Gen.C21.hintSources.flatMap fun s =>
    if s = "declared" then c.declared
    else if s = "authenticate" then (match c.auth with
      | some a => proxyHeadersOf a
      | none => [])
    else if s = "proof_required" then (if c.proofRequired then [Gen.C21.proofHeader.toList] else [])
    else []

/-- the app's note: computed once at construction -/
def Config.hint (c : Config) : Str := buildProxyHint c.headerNames

inductive Body where
  | json (error reason detail : Str) (proxyHint : Option Str)
  | html (reason detail : Str) (note : Option Str)
deriving Repr, DecidableEq

structure Unauthorized where
  /-- headers set by the serializer, in order -/
  headers : List (Str × Str)
  contentType : Str
  body : Body
deriving Repr, DecidableEq

def Unauthorized.header (u : Unauthorized) (name : String) : Option Str :=
  (u.headers.find? (fun h => h.1 == name.toList)).map (·.2)

inductive Response where
  /-- authenticated: the request goes on to dispatch -/
  | pass
  | unauthorized (u : Unauthorized)
  /-- 503 with `Retry-After` -/
  | unavailable (retryAfter : Int) (description : Str)
  /-- the exception is named by no handler: Falcon's generic 500 -/
  | serverError
deriving Repr, DecidableEq

/-- `_wants_html` -/
def wantsHtml (accept : Option Str) : Bool := contains Gen.C21.htmlNeedle.toList (accept.getD [])

/-- `_serialize` for an `HTTPUnauthorized`; `ctxReason` = `req.context.vgi_auth_reason` when set to an `AuthReason` -/
def serialize (hint : Str) (ctxReason : Option Reason) (detail : Str) (accept : Option Str) : Unauthorized :=
  let reason := ctxReason.getD (.ofName Gen.C21.serializerDefaultReason)
  let hdrs := Gen.C21.serializerHeaders.filterMap fun h =>
    if h.2.2 && hint.isEmpty then none
    else some (h.1.toList, if h.2.1 = "<reason>" then reason.value else h.2.1.toList)
  let note := if hint.isEmpty then none else some hint
  if wantsHtml accept then
    { headers := hdrs, contentType := Gen.C21.htmlContentType.toList, body := .html reason.value detail note }
  else
    { headers := hdrs, contentType := Gen.C21.jsonContentType.toList,
      body := .json Gen.C21.envelopeError.toList reason.value detail note }

/-- `_AuthMiddleware.process_request` (non-exempt request) followed by the error serializer -/
def respond (c : Config) (ρ : Env) (accept : Option Str) : Response :=
  match c.auth with
  | none => .pass
  | some a =>
    match eval ρ a with
    | .ok => .pass
    | .raise e =>
      match Gen.C21.middlewareHandlers.find? (fun h => e.caughtBy h.1) with
      | none => .serverError
      | some h =>
        if h.2 = "falcon.HTTPServiceUnavailable" then
          match e.retryAfter? with
          | some n => .unavailable n e.str
          | none => .serverError
        else if h.2 = "falcon.HTTPUnauthorized" then
          .unauthorized (serialize c.hint (some (classify e)) e.str accept)
        else .serverError

/-! ## Client: `_parse_unauthorized` -/

/-- what `json.loads(content)` can raise on `bytes` -/
inductive LoadsExc where
  | jsonDecodeError
  | unicodeDecodeError
  /-- a plain `ValueError` (integer string conversion limit) -/
  | valueError
  /-- nesting deeper than the interpreter recurses -/
  | recursionError
deriving Repr, DecidableEq

def LoadsExc.className : LoadsExc → String
  | .jsonDecodeError => "JSONDecodeError"
  | .unicodeDecodeError => "UnicodeDecodeError"
  | .valueError => "ValueError"
  | .recursionError => "RecursionError"

def LoadsExc.isInstance (e : LoadsExc) (cls : String) : Bool := (supers e.className).contains cls

/-- `payload.get(key, "")` -/
inductive Field where
  | absent
  | str (s : Str)
  /-- a non-string JSON value, with Python's `str()` of it -/
  | other (pyStr : Str)
deriving Repr, DecidableEq

/-- `str(payload.get(key, ""))` -/
def Field.text : Field → Str
  | .absent => []
  | .str s => s
  | .other t => t

inductive Loads where
  | raised (e : LoadsExc)
  /-- valid JSON that is not an object -/
  | nonDict
  | dict (reason detail proxyHint : Field)
deriving Repr, DecidableEq

/-- CPython, as far as the parser uses it -/
structure ClientEnv where
  loads : List UInt8 → Loads
  /-- `content.decode(errors="replace")` -/
  decode : List UInt8 → Str

inductive Parsed where
  /-- `AuthenticationError(reason, detail, proxy_hint)` is returned -/
  | authErr (reason : Reason) (detail proxyHint : Str)
  /-- another exception leaves `_parse_unauthorized` -/
  | escaped (e : LoadsExc)
deriving Repr, DecidableEq

def isSpace (c : Char) : Bool := Gen.C21.isspaceRanges.any fun r => r.1 ≤ c.toNat && c.toNat ≤ r.2

/-- `str.strip()` -/
def strip (s : Str) : Str := ((s.dropWhile isSpace).reverse.dropWhile isSpace).reverse

/-- the text path: HTML page → one-line note; else a bounded prefix; else the fallback word -/
def nonEnvelope (text : Str) : Parsed :=
  let t := strip text
  let r := Reason.ofName Gen.C21.clientNonEnvelopeReason
  if Gen.C21.clientHtmlSniff.any (fun p => (t.take p.1).map asciiLower == p.2.toList) then
    .authErr r Gen.C21.clientHtmlDetail.toList []
  else
    let d := t.take Gen.C21.clientMaxDetail
    .authErr r (if d.isEmpty then Gen.C21.clientEmptyDetail.toList else d) []

/-- `_parse_unauthorized`, parametric in the classes named by `contextlib.suppress(...)` around `json.loads` -/
def parseWith (suppresses : List String) (E : ClientEnv) (content : List UInt8) : Parsed :=
  match E.loads content with
  | .raised e =>
    if suppresses.any e.isInstance then nonEnvelope (E.decode content) else .escaped e
  | .nonDict => nonEnvelope (E.decode content)
  | .dict r d h =>
    let reason := match Reason.ofValue? r.text with
      | some x => x
      | none => Reason.ofName Gen.C21.clientUnknownReason
    .authErr reason d.text h.text

/-- `_parse_unauthorized` as the source has it -/
def parseUnauthorized (E : ClientEnv) (content : List UInt8) : Parsed :=
  parseWith Gen.C21.clientSuppresses E content

end VgiVerif.C21
