import VgiVerif.Model.Sticky
import VgiVerif.Gen.StickyClient
/-
C27 model.  Server side: `Sticky.serve` (= `serveScript` of the DESIGN plan: registry state × request headers × action
script → registry state × response headers × error).  Client side: `_SessionTrackingClient._merge_headers` / `_capture`
and `_SessionView.detach` of vgi_rpc/http/_client.py over the shapes extracted into `Gen.StickyClient`.
-/
namespace VgiVerif.C27
open VgiVerif.Gen VgiVerif.Sticky

/-- `_SessionView`: the captured token and the `_closed` flag -/
structure View (Wire : Type) where
  token : Option Wire := none
  closedFlag : Bool := false

/-- `_merge_headers`: what a request sent through the view carries -/
def View.request {Wire : Type} (v : View Wire) (ident : Identity) (client : Nat) : Req Wire :=
  { ident := ident,
    accept := if StickyClient.sendsAccept then some "true".toList else none,
    session := if StickyClient.sendsTokenIffHeld then v.token else none,
    client := client }

/-- one effect of `_capture`, named as in `Gen.StickyClient.captureOrder` -/
def captureEffect {Wire : Type} (r : Resp Wire) (v : View Wire) (eff : String) : View Wire :=
  if eff == "set" then
    match r.session with
    | some t => { token := some t, closedFlag := if StickyClient.setResetsClosedFlag then false else v.closedFlag }
    | none => v
  else if eff == "clear" then
    if r.close then { token := none, closedFlag := StickyClient.clearSetsClosedFlag || v.closedFlag } else v
  else v

/-- `_capture`: the effects in source order -/
def capture {Wire : Type} (v : View Wire) (r : Resp Wire) : View Wire :=
  StickyClient.captureOrder.foldl (captureEffect r) v

/-- `_SessionView.detach` -/
def View.detach {Wire : Type} (v : View Wire) : View Wire × Option Wire := ({ token := none, closedFlag := true }, v.token)

/-- exit of `with_session_token()`: is the best-effort DELETE fired? -/
def View.exitDeletes {Wire : Type} (v : View Wire) : Bool := !v.closedFlag && v.token.isSome

/-- one RPC call made through a view: merge headers, serve, capture -/
def viewCall {Wire : Type} [DecidableEq Wire] (C : Codec Wire) (cfg : Cfg) (wk : Nat) (W : World) (v : View Wire)
    (ident : Identity) (client : Nat) (script : List Action) (swallow : Bool) : World × View Wire × Resp Wire :=
  let (W', r) := serve C cfg wk W (v.request ident client) script swallow
  (W', capture v r, r)

/-! ### several views on one worker (histories) -/

structure Sys (Wire : Type) where
  W : World
  views : Nat → View Wire

/-- ghost: the sessions of view `c` now belong to view `c'` (the token was handed over) -/
def reown (r : Reg) (c c' : Nat) : Reg :=
  { r with entries := r.entries.map fun e => if e.owner == c then { e with owner := c' } else e }

inductive SysOp where
  | call (c : Nat) (ident : Identity) (script : List Action) (swallow : Bool)   -- an RPC through view `c`
  | handoff (c c' : Nat)   -- `tok = view_c.detach()`, then `with_session_token(token=tok)` as the new view `c'`
  | setDraining (b : Bool)
deriving Repr

/-- is `c'` a brand-new view (no token, owns nothing)? -/
def isNewView {Wire : Type} (s : Sys Wire) (c' : Nat) : Bool :=
  (s.views c').token.isNone && !(s.W.reg.entries.any fun e => e.owner == c')

def Sys.step {Wire : Type} [DecidableEq Wire] (C : Codec Wire) (cfg : Cfg) (wk : Nat) (s : Sys Wire) : SysOp → Sys Wire
  | .call c ident script swallow =>
    let r := viewCall C cfg wk s.W (s.views c) ident c script swallow
    { W := r.1, views := fun i => if i = c then r.2.1 else s.views i }
  | .handoff c c' =>
    if c ≠ c' ∧ isNewView s c' = true then
      { W := { s.W with reg := reown s.W.reg c c' },
        views := fun i => if i = c' then { token := (s.views c).detach.2, closedFlag := false }
                          else if i = c then (s.views c).detach.1 else s.views i }
    else s
  | .setDraining b => { s with W := { s.W with reg := { s.W.reg with draining := b } } }

def Sys.run {Wire : Type} [DecidableEq Wire] (C : Codec Wire) (cfg : Cfg) (wk : Nat) (s : Sys Wire) (ops : List SysOp) : Sys Wire :=
  ops.foldl (fun s op => s.step C cfg wk op) s

end VgiVerif.C27
