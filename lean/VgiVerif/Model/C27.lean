import VgiVerif.Model.Sticky
import VgiVerif.Gen.StickyClient
/-
C27 model.  Server side: `Sticky.serve` (= `serveScript` of the DESIGN plan: registry state × request headers × action
script → registry state × response headers × error).  Client side: `_SessionTrackingClient._merge_headers` / `_capture`
and `_SessionView.detach` of vgi_rpc/http/_client.py over the shapes extracted into `Gen.StickyClient`.
-/
namespace VgiVerif.C27
open VgiVerif.Gen VgiVerif.Sticky

/-- `_SessionView`: the captured token and the `_closed` flag -/
structure View (Wire : Type) where
  token : Option Wire := none
  closedFlag : Bool := false

/-- `_merge_headers`: what a request sent through the view carries -/
def View.request {Wire : Type} (v : View Wire) (ident : Identity) (client : Nat) : Req Wire :=
  { ident := ident,
    accept := if StickyClient.sendsAccept then some "true".toList else none,
    session := if StickyClient.sendsTokenIffHeld then v.token else none,
    client := client }

/-- one effect of `_capture`, named as in `Gen.StickyClient.captureOrder` -/
def captureEffect {Wire : Type} (r : Resp Wire) (v : View Wire) (eff : String) : View Wire :=
  if eff == "set" then
    match r.session with
    | some t => { token := some t, closedFlag := if StickyClient.setResetsClosedFlag then false else v.closedFlag }
    | none => v
  else if eff == "clear" then
    if r.close then { token := none, closedFlag := StickyClient.clearSetsClosedFlag || v.closedFlag } else v
  else v

/-- `_capture`: the effects in source order -/
def capture {Wire : Type} (v : View Wire) (r : Resp Wire) : View Wire :=
  StickyClient.captureOrder.foldl (captureEffect r) v

/-- `_SessionView.detach` -/
def View.detach {Wire : Type} (v : View Wire) : View Wire × Option Wire := ({ token := none, closedFlag := true }, v.token)

/-- exit of `with_session_token()`: is the best-effort DELETE fired? -/
def View.exitDeletes {Wire : Type} (v : View Wire) : Bool := !v.closedFlag && v.token.isSome

/-- one RPC call made through a view: merge headers, serve, capture -/
def viewCall {Wire : Type} [DecidableEq Wire] (C : Codec Wire) (cfg : Cfg) (wk : Nat) (W : World) (v : View Wire)
    (ident : Identity) (client : Nat) (script : List Action) (swallow : Bool) : World × View Wire × Resp Wire :=
  let (W', r) := serve C cfg wk W (v.request ident client) script swallow
  (W', capture v r, r)

end VgiVerif.C27
