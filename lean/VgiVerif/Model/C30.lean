import VgiVerif.Model.Engine
import VgiVerif.Gen.C30
/-
C30 — external-storage offload (`Ext`).

Object level (vgi_rpc/external.py, transliterated in source order; constants and shapes from Gen/C30):
  * `classify`            = `_dispatch_log_or_error` (vgi_rpc/rpc/_wire.py) as a classifier
  * `fetchAndResolve`     = `_fetch_and_resolve` as repaired: sha-256 check, open, per batch {pointer inside, classify},
                            count, schema — and only then the log batches go to `on_log`
  * `resolve`             = `resolve_external_location`'s retry loop over a *fault sequence* (what each attempt fetches)
  * `wantsBatch/wantsCollector`, `externalize` = `maybe_externalize_batch` / `maybe_externalize_collector`
  * `Env` (sha, IPC serialise/parse, codecs) and `Storage` (put/get) are structures whose laws are fields, not axioms.
Stream level: the wire carries `WItem`s (an Engine item inline, or a pointer); the readers are the Engine readers with one
more case (`resolve_external_location` after `_dispatch_log_or_error`, vgi_rpc/rpc/_wire.py `_read_batch_with_log_check`,
`_read_header_batch`; vgi_rpc/http/_client.py `__iter__`, `exchange`, `_init_http_stream_session`).
No Mathlib, no Lean.* (linked into the native driver).
-/
namespace VgiVerif.C30
open VgiVerif.Engine

/-! ## shapes of the source this model was written against (a source edit that changes one stops the model compiling) -/

example : Gen.C30.fetchOrder = ["sha", "open", "location", "classify", "count0", "countN", "schema", "deliver"] := by decide
example : Gen.C30.collectorGuards = ["storage_none", "no_data", "size:Lt"] := by decide
example : Gen.C30.batchGuards = ["storage_none", "zero_rows", "size:Lt"] := by decide
example : Gen.C30.retryCapRecognised = true := by decide
example : Gen.C30.retryTypes = ["OSError", "pa.ArrowInvalid", "aiohttp.ClientError"] := by decide
example : Gen.C30.shaBeforeCompression = true ∧ Gen.C30.serverPointerHasSha = true ∧ Gen.C30.clientPointerHasSha = true := by decide
example : Gen.C30.pointerTests = ["batch.num_rows != 0 -> False", "custom_metadata is None -> False",
    "custom_metadata.get(LOCATION_KEY) is None -> False", "return custom_metadata.get(LOG_LEVEL_KEY) is None"] := by decide
example : Gen.C30.classifyTests = ["data if custom_metadata is None", "data if batch.num_rows != 0",
    "data if level_bytes is None or message_bytes is None", "raise if level_str == Level.EXCEPTION.value",
    "ignored if Level(level_str) raises ValueError", "return True"] := by decide
example : Gen.C30.wireCallSites = ["_flush_collector:maybe_externalize_collector",
    "_read_batch_with_log_check:resolve_external_location", "_read_header_batch:resolve_external_location",
    "_read_request:resolve_external_location", "_write_result_batch:maybe_externalize_batch",
    "_write_stream_header:maybe_externalize_batch"] := by decide
example : Gen.C30.codecs = ["zstd", "gzip"] := by decide
-- what is uploaded under a compression setting: always the codec's output, labelled with the codec (no size test)
example : Gen.C30.collectorCompression = ["codec = _CodecEncoding(config.compression.algorithm)", "original_bytes = len(ipc_bytes)",
    "ipc_bytes = _codec_compress(codec, ipc_bytes, level=config.compression.level)", "content_encoding = codec.value"] := by decide
example : Gen.C30.batchCompression = Gen.C30.collectorCompression := by decide

/-! ## batches inside a stored object -/

/-- the part of a batch's custom metadata the code reads (`.get` of six keys); everything else is `app` -/
structure Meta where
  location : Option Str := none      -- vgi_rpc.location
  sha : Option Str := none           -- vgi_rpc.location.sha256
  level : Option Str := none         -- vgi_rpc.log_level
  message : Option Str := none       -- vgi_rpc.log_message
  excType : Option Str := none       -- log_extra["exception_type"]
  kind : Option Str := none          -- vgi_rpc.error_kind (or log_extra["error_kind"])
  extra : List (Str × Str) := []     -- the other entries of log_extra
  app : List (Str × Str) := []       -- application metadata
deriving Repr, DecidableEq

structure WBatch where
  rows : Nat
  cm : Option Meta
  content : Nat                      -- identity of the column data
deriving Repr, DecidableEq

inductive Cls where
  | data
  | log (l : Log)
  | exc (e : Ev)                     -- EXCEPTION level: `_dispatch_log_or_error` raises RpcError
  | ignored                          -- a level this client does not know: consumed, no callback
deriving Repr, DecidableEq

/-- `_dispatch_log_or_error` as a classifier -/
def classify (b : WBatch) : Cls :=
  match b.cm with
  | none => .data
  | some m =>
    if b.rows != 0 then .data else
    match m.level, m.message with
    | some lv, some msg =>
      if lv = Gen.C30.exceptionLevel then .exc (.error (m.excType.getD lv) msg m.kind)
      else if Gen.C30.logLevels.contains lv then .log ⟨lv, msg, m.extra⟩
      else .ignored
    | _, _ => .data

/-- `fetched_cm is not None and fetched_cm.get(LOCATION_KEY) is not None` -/
def hasLocation (b : WBatch) : Bool :=
  match b.cm with
  | some m => m.location.isSome
  | none => false

/-- `is_external_location_batch` -/
def isPointer (b : WBatch) : Bool :=
  if b.rows != 0 then false else
  match b.cm with
  | none => false
  | some m => m.location.isSome && m.level.isNone

inductive Tail where
  | clean                            -- the reader reaches end-of-stream (StopIteration)
  | invalid                          -- reading the next batch raises pa.ArrowInvalid / OSError (truncated, garbage)
  | other                            -- … raises something else (e.g. ArrowNotImplementedError): not a retry type
deriving Repr, DecidableEq

/-- what `ipc.open_stream(BytesIO(data))` + `read_next_batch_with_custom_metadata()` make of some bytes -/
inductive Parsed where
  | bad                              -- `open_stream` raises pa.ArrowInvalid / OSError
  | other                            -- `open_stream` raises something else: propagates, no retry
  | stream (schema : Nat) (batches : List WBatch) (tail : Tail)
deriving Repr, DecidableEq

/-- what `fetch_url` hands to the checks in one attempt -/
inductive Fetched where
  | failed                           -- OSError / aiohttp.ClientError (missing object, connection): retryable
  | undecodable                      -- RuntimeError from the decoder (bad zstd/gzip, size caps): not retryable
  | got (sha : Str) (parsed : Parsed)   -- decoded bytes: their sha-256 hex digest and their IPC reading
deriving Repr, DecidableEq

inductive Reject where
  | fetchFailed
  | decodeFailed
  | shaMismatch
  | arrowInvalid
  | loop                             -- "Redirect loop detected": a batch inside carries vgi_rpc.location
  | rpcError (e : Ev)
  | noData
  | multiple (n : Nat)
  | schemaMismatch
  | readError                        -- an Arrow exception outside the retry types, propagated as is
  | exhausted                        -- "Failed to resolve ExternalLocation after N attempts"
deriving Repr, DecidableEq

/-- the read loop: first offending batch wins; log batches are only collected (classification without callback) -/
def scan : List WBatch → Tail → Except Reject (List Log × List WBatch)
  | [], .clean => .ok ([], [])
  | [], .invalid => .error .arrowInvalid
  | [], .other => .error .readError
  | b :: r, t =>
    if hasLocation b then .error .loop else
    match classify b with
    | .exc e => .error (.rpcError e)
    | .ignored => scan r t
    | .log l =>
      match scan r t with
      | .ok (ls, ds) => .ok (l :: ls, ds)
      | .error e => .error e
    | .data =>
      match scan r t with
      | .ok (ls, ds) => .ok (ls, b :: ds)
      | .error e => .error e

/-- `expected_sha256 is not None and actual != expected` -/
def shaBad (expSha : Option Str) (actual : Str) : Bool :=
  match expSha with
  | some h => actual != h
  | none => false

/-- `_fetch_and_resolve`: `.ok (logs, d)` = `on_log` is called with `logs` (in order) and `d` is returned;
`.error _` = an exception and NOTHING was handed to application code -/
def fetchAndResolve (expSchema : Nat) (expSha : Option Str) : Fetched → Except Reject (List Log × WBatch)
  | .failed => .error .fetchFailed
  | .undecodable => .error .decodeFailed
  | .got sha parsed =>
    if shaBad expSha sha then .error .shaMismatch else
    match parsed with
    | .bad => .error .arrowInvalid
    | .other => .error .readError
    | .stream sch bs tail =>
      match scan bs tail with
      | .error e => .error e
      | .ok (_, []) => .error .noData
      | .ok (logs, [d]) => if sch != expSchema then .error .schemaMismatch else .ok (logs, d)
      | .ok (_, ds) => .error (.multiple ds.length)

def retryable : Reject → Bool
  | .fetchFailed => true
  | .arrowInvalid => true
  | _ => false

/-- attempt `k` sees `fetch k`; `n` further attempts are allowed after this one -/
def resolveFrom (expSchema : Nat) (expSha : Option Str) (fetch : Nat → Fetched) : Nat → Nat → Except Reject (List Log × WBatch)
  | k, 0 =>
    match fetchAndResolve expSchema expSha (fetch k) with
    | .ok r => .ok r
    | .error e => if retryable e then .error .exhausted else .error e
  | k, n + 1 =>
    match fetchAndResolve expSchema expSha (fetch k) with
    | .ok r => .ok r
    | .error e => if retryable e then resolveFrom expSchema expSha fetch (k + 1) n else .error e

/-- `max_retries = min(config.max_retries, 2)` (negative values behave like 0: `stop_after_attempt(n ≤ 1)`) -/
def retries (maxRetries : Int) : Nat := min maxRetries.toNat Gen.C30.retryCap

/-- `resolve_external_location` on a pointer batch with a config: the retry loop over a fault sequence -/
def resolve (expSchema : Nat) (expSha : Option Str) (maxRetries : Int) (fetch : Nat → Fetched) :
    Except Reject (List Log × WBatch) :=
  resolveFrom expSchema expSha fetch 0 (retries maxRetries)

/-! ## externalisation decisions -/

structure Cfg where
  storage : Bool                     -- `config.storage is not None`
  threshold : Nat                    -- `externalize_threshold_bytes`
  compression : Option Nat           -- index into `Gen.C30.codecs`
deriving Repr, DecidableEq

/-- `size < threshold` keeps the batch inline -/
def below (cfg : Cfg) (size : Nat) : Bool :=
  if Gen.C30.sizeGuardIsLt then size < cfg.threshold else size ≤ cfg.threshold

/-- `maybe_externalize_batch` (unary results, stream headers): storage, not zero-row, not below the threshold -/
def wantsBatch (cfg : Cfg) (rows size : Nat) : Bool :=
  cfg.storage && !(Gen.C30.batchSkipsZeroRows && rows == 0) && !below cfg size

/-- `maybe_externalize_collector`: storage, a data batch exists (whatever its row count), not below the threshold -/
def wantsCollector (cfg : Cfg) (hasData : Bool) (size : Nat) : Bool :=
  cfg.storage && hasData && !below cfg size

/-! ## environment: hashing, Arrow IPC, codecs, object store — assumed laws are fields -/

/-- `B` = byte strings (abstract: the model never looks inside one).  Nothing is assumed about sizes: `comp` may EXPAND its
input (incompressible payloads, tiny payloads); the only law is that `decomp c` inverts `comp c`, so every transparency
theorem holds for payloads of any entropy. -/
structure Env (B : Type) where
  sha : B → Str
  ser : Nat → List WBatch → B
  parse : B → Parsed
  parse_ser : ∀ s bs, parse (ser s bs) = .stream s bs .clean
  comp : Nat → B → B
  decomp : Nat → B → Option B
  decomp_comp : ∀ c x, decomp c (comp c x) = some x

structure Obj (B : Type) where
  body : B
  enc : Option Nat                   -- Content-Encoding naming a known codec

structure Storage (B : Type) where
  S : Type
  put : S → Obj B → S × Str          -- `ExternalStorage.upload` → URL
  get : S → Str → Option (Obj B)
  get_put : ∀ s o, get (put s o).1 (put s o).2 = some o
  put_keeps : ∀ s o u x, get s u = some x → get (put s o).1 u = some x

/-- `fetch_url`: GET, then decode when Content-Encoding names a codec -/
def view {B : Type} (env : Env B) : Option (Obj B) → Fetched
  | none => .failed
  | some o =>
    match o.enc with
    | none => .got (env.sha o.body) (env.parse o.body)
    | some c =>
      match env.decomp c o.body with
      | none => .undecodable
      | some x => .got (env.sha x) (env.parse x)

structure Ptr where
  url : Str
  sha : Option Str
  schema : Nat
deriving Repr, DecidableEq

/-- the zero-row pointer batch (`make_external_location_batch`) -/
def Ptr.batch (p : Ptr) : WBatch := ⟨0, some { location := some p.url, sha := p.sha }, 0⟩

/-- serialise, digest (before compression), compress, upload, point -/
def externalize {B : Type} (env : Env B) (st : Storage B) (cfg : Cfg) (s : st.S) (schema : Nat) (bs : List WBatch) : st.S × Ptr :=
  let raw := env.ser schema bs
  let h := env.sha raw
  let o : Obj B := match cfg.compression with
    | none => ⟨raw, none⟩
    | some c => ⟨env.comp c raw, some c⟩
  let r := st.put s o
  (r.1, ⟨r.2, some h, schema⟩)

/-! ## stream level: Engine items on a wire that may carry pointers -/

def encode : Item → WBatch
  | .log l => ⟨0, some { level := some l.level, message := some l.text, extra := l.extra }, 0⟩
  | .data b => ⟨b.rows, some { app := b.md }, b.id⟩
  | .err e => ⟨0, some { level := some Gen.C30.exceptionLevel, message := some (e.type ++ ": ".toList ++ e.text),
                         excType := some e.type, kind := e.kind }, 0⟩
  | .token p => ⟨0, some { app := [("vgi_rpc.stream_state".toList, [])] }, p⟩

def decodeData (d : WBatch) : Batch := ⟨d.content, d.rows, match d.cm with | some m => m.app | none => []⟩

inductive WItem where
  | plain (i : Item)
  | ptr (p : Ptr)
deriving Repr, DecidableEq

/-- `resolve_external_location` as the client is configured: pointer ↦ logs for `on_log` and the batch, or a rejection -/
abbrev Resolver := Ptr → Except Reject (List Log × Batch)

/-- the resolver of a client reading store state `s` (every attempt sees the same object) -/
def resolverAt {B : Type} (env : Env B) (st : Storage B) (s : st.S) (maxRetries : Int) : Resolver := fun p =>
  match resolve p.schema p.sha maxRetries (fun _ => view env (st.get s p.url)) with
  | .ok (logs, d) => .ok (logs, decodeData d)
  | .error e => .error e

/-- `_flush_collector` with an external config: the whole cycle (logs + data + logs) becomes one pointer -/
def dataOf : List Item → Option Batch
  | [] => none
  | .data b :: _ => some b
  | _ :: r => dataOf r

def flushCollector {B : Type} (env : Env B) (st : Storage B) (cfg : Cfg) (size : Batch → Nat) (schema : Nat) (s : st.S)
    (items : List Item) : st.S × List WItem :=
  match dataOf items with
  | none => (s, items.map .plain)
  | some b =>
    if wantsCollector cfg true (size b) then
      let r := externalize env st cfg s schema (items.map encode)
      (r.1, [.ptr r.2])
    else (s, items.map .plain)

inductive StepOutX where
  | cont (items : List WItem)
  | done (items : List WItem)
  | fail (items : List WItem)
deriving Repr

/-- one `process()` call on the server: `processStep`, then the flush (an error discards the collector: inline) -/
def serveStep {B : Type} (env : Env B) (st : Storage B) (cfg : Cfg) (size : Batch → Nat) (schema : Nat) (exchange : Bool)
    (s : st.S) (step : Step) : st.S × StepOutX :=
  match (if exchange then processExchangeStep step else processStep step) with
  | .cont items => let r := flushCollector env st cfg size schema s items; (r.1, .cont r.2)
  | .done items => let r := flushCollector env st cfg size schema s items; (r.1, .done r.2)
  | .fail items => (s, .fail (items.map .plain))

def serveAll {B : Type} (env : Env B) (st : Storage B) (cfg : Cfg) (size : Batch → Nat) (schema : Nat) (exchange : Bool) :
    st.S → List Step → st.S × List StepOutX
  | s, [] => (s, [])
  | s, step :: r =>
    let a := serveStep env st cfg size schema exchange s step
    let b := serveAll env st cfg size schema exchange a.1 r
    (b.1, a.2 :: b.2)

inductive ReadEndX where
  | gotData (rest : List WItem)
  | raised
  | eos
  | gotToken (pos : Nat) (rest : List WItem)
  | failed (r : Reject)              -- resolution raised: a non-RpcError exception reaches the caller
deriving Repr

/-- `_read_batch_with_log_check`: logs → `on_log`; error → RpcError; first other batch → resolve if it is a pointer -/
def readUntilDataX (R : Resolver) : List WItem → List Ev × ReadEndX
  | [] => ([], .eos)
  | .plain (.log l) :: r => let (evs, e) := readUntilDataX R r; (.log l :: evs, e)
  | .plain (.data b) :: r => ([.data b], .gotData r)
  | .plain (.err e) :: _ => ([errEv e], .raised)
  | .plain (.token p) :: r => ([], .gotToken p r)
  | .ptr p :: r =>
    match R p with
    | .ok (logs, b) => (logs.map .log ++ [.data b], .gotData r)
    | .error rej => ([], .failed rej)

/-- `close()` draining: only log batches are delivered -/
def drainLogsX : List WItem → List Ev
  | [] => []
  | .plain (.log l) :: r => .log l :: drainLogsX r
  | _ :: _ => []

namespace Pipe

/-- `Engine.Pipe.iterate` over a wire with pointers; `outs` = what the server wrote for each `process()` call -/
def iterate (R : Resolver) : List WItem → List StepOutX → List Ev
  | carry, [] =>
      let (evs, _) := readUntilDataX R carry
      evs ++ [.fin]
  | carry, o :: r =>
      match o with
      | .cont items =>
          match readUntilDataX R (carry ++ items) with
          | (evs, .gotData rest) => evs ++ iterate R rest r
          | (evs, _) => evs
      | .done items =>
          match readUntilDataX R (carry ++ items) with
          | (evs, .gotData rest) => evs ++ (readUntilDataX R rest).1 ++ [.fin]
          | (evs, .failed _) => evs
          | (evs, _) => evs ++ [.fin]
      | .fail items => (readUntilDataX R (carry ++ items)).1

def exchangeOne (R : Resolver) (carry : List WItem) (o : StepOutX) : List Ev × Option (List WItem) :=
  match o with
  | .cont items =>
      match readUntilDataX R (carry ++ items) with
      | (evs, .gotData rest) => (evs, some rest)
      | (evs, _) => (evs, none)
  | .done items => ((readUntilDataX R (carry ++ items)).1, none)
  | .fail items => ((readUntilDataX R (carry ++ items)).1, none)

def exchangeAll (R : Resolver) : List WItem → List StepOutX → List Ev
  | carry, [] => drainLogsX carry
  | carry, o :: r =>
      match exchangeOne R carry o with
      | (evs, some rest) => evs ++ exchangeAll R rest r
      | (evs, none) => evs

end Pipe

/-! ## single batches: unary result, stream header, client-uploaded request -/

/-- `maybe_externalize_batch` on one batch of `rows` rows and buffer size `size` -/
def externalizeBatch {B : Type} (env : Env B) (st : Storage B) (cfg : Cfg) (s : st.S) (schema : Nat) (b : WBatch) (size : Nat) :
    st.S × Option Ptr :=
  if wantsBatch cfg b.rows size then
    let r := externalize env st cfg s schema [b]
    (r.1, some r.2)
  else (s, none)

/-- `_build_pointer_request_body` (as repaired): the client PUT the request body itself; the pointer carries its digest -/
def clientUpload {B : Type} (env : Env B) (st : Storage B) (s : st.S) (schema : Nat) (req : WBatch) : st.S × Ptr :=
  let raw := env.ser schema [req]
  let r := st.put s ⟨raw, none⟩
  (r.1, ⟨r.2, if Gen.C30.clientPointerHasSha then some (env.sha raw) else none, schema⟩)

/-! ## a concrete environment (non-vacuity of the `Env`/`Storage` laws; also run by the native driver) -/
namespace Toy

inductive TB where
  | raw (schema : Nat) (bs : List WBatch)      -- a well-formed IPC stream
  | cut (schema : Nat) (bs : List WBatch)      -- … truncated after `bs`
  | packed (c : Nat) (inner : TB)              -- compressed with codec `c`
  | junk (n : Nat)
deriving Repr

/-- a toy digest (structural, not collision-free: none of the laws needs that) -/
def digest : TB → Str
  | .raw s bs => 'r' :: List.replicate (s + bs.length) '.'
  | .cut s bs => 'c' :: List.replicate (s + bs.length) '.'
  | .packed c i => 'p' :: List.replicate c '.' ++ digest i
  | .junk n => 'j' :: List.replicate n '.'

def env : Env TB where
  sha := digest
  ser := .raw
  parse
    | .raw s bs => .stream s bs .clean
    | .cut s bs => .stream s bs .invalid
    | _ => .bad
  parse_ser _ _ := rfl
  comp := .packed
  decomp c
    | .packed c' i => if c = c' then some i else none
    | _ => none
  decomp_comp c x := by simp

/-- URLs are "u", "uu", "uuu", … — the object's 1-based position in an append-only list -/
def url (n : Nat) : Str := List.replicate n 'u'

def storage : Storage TB where
  S := List (Obj TB)
  put s o := (s ++ [o], url (s.length + 1))
  get s u := if u.length = 0 then none else s[u.length - 1]?
  get_put s o := by simp [url]
  put_keeps s o u x h := by
    by_cases hu : u.length = 0
    · simp [hu] at h
    · simp only [hu, if_false] at h ⊢
      have hlt : u.length - 1 < s.length := by
        rcases Nat.lt_or_ge (u.length - 1) s.length with h' | h'
        · exact h'
        · rw [List.getElem?_eq_none h'] at h; cases h
      rw [List.getElem?_append_left hlt]; exact h

end Toy

end VgiVerif.C30
