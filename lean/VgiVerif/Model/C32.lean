import VgiVerif.Prelude.Sched
import VgiVerif.Gen.Pool
/-
C32 model: `vgi_rpc/pool.py` — `WorkerPool.connect` / `_borrow` / `_return_worker` / `_evict_oldest_locked` /
`_reap_expired` / `close` / `idle_count`, `_PooledTransport.close` (abandoned-stream rule) and the stream bookkeeping
of `vgi_rpc/rpc/_client.py` (`_stream_opened`, `_last_stream_session`, `StreamSession._closed` / `_drained`).

* `Idle` is the dict `_idle` in insertion order: `cmd key → deque of (worker, returned_at)`; `popLifo`, `appendIdle`,
  `oldestKey` + `popLeft` (`_evict_oldest_locked`), `reap`, are transliterations of the dict/deque manipulations with the
  comparison operators taken from the extracted source (`Gen.Pool`).
* The concurrent model (Sched kit) gives every thread a program counter; every label is an event the harness observes
  on the real code (lock acquire/release, reads/writes of the unlocked `_closed` flag, clock reads, `proc.poll()`,
  `transport.close()`, spawns, and the borrower-side events).  Everything a thread does to lock-protected state between
  two observable events happens in the step of the first one (the pool lock is held: `C32_mutex`).
* Connection cleanliness is the ghost flag `WSt.synced` ("at a message boundary": no unread byte in either direction and
  the server waiting for a request), driven by the client operations of the borrower (`useConn` / `useSynced`).

`Cfg` carries the extracted shape of the code; `Cfg.legacy` is the code before the C32 repairs (used by `Findings/C32`).
-/
namespace VgiVerif.C32
open VgiVerif.Sched VgiVerif.Gen.Pool

abbrev Wid := Nat
abbrev Key := Nat
/-- `_IdleEntry`: (worker, returned_at) -/
abbrev Entry := Wid × Int
/-- the dict `WorkerPool._idle` in insertion order -/
abbrev Idle := List (Key × List Entry)

/-- evaluate an extracted Python comparison on integers -/
def cmpInt : Cmp → Int → Int → Bool
  | .lt, a, b => a < b
  | .le, a, b => a ≤ b
  | .gt, a, b => a > b
  | .ge, a, b => a ≥ b
  | .eq, a, b => a == b
  | .ne, a, b => a != b

/-- `x <cmp> float("inf")` for a finite `x` -/
def cmpInf : Cmp → Bool
  | .lt | .le | .ne => true
  | _ => false

structure Cfg where
  maxIdle : Nat
  timeout : Int
  /-- `_return_worker`: `if total_idle <cmp> self._max_idle: evict` -/
  evictCmp : Cmp
  /-- `_reap_expired`: `while dq and (now - dq[0].returned_at) <cmp> self._idle_timeout` -/
  reapCmp : Cmp
  /-- `_evict_oldest_locked`: `if dq and dq[0].returned_at <cmp> oldest_time` -/
  olderCmp : Cmp
  /-- `_return_worker` has the `if self._max_idle == 0: evicted = transport` branch -/
  zeroDiscards : Bool
  /-- the abandoned-stream rule looks at `StreamSession._drained` (not `_closed`) -/
  ruleDrained : Bool
  /-- `_PooledTransport` remembers a request sent while the last session was not drained (`_stream_leaked`) -/
  trackLeak : Bool
  /-- a borrow left by a non-`Exception` `BaseException` (KeyboardInterrupt …) is discarded (`_interrupted`) -/
  trackInterrupt : Bool
deriving Repr

/-- the configuration of the code as extracted -/
def Cfg.ofGen (maxIdle : Nat) (timeout : Int) : Cfg :=
  { maxIdle, timeout, evictCmp := Gen.Pool.evictCmp, reapCmp := Gen.Pool.reapCmp, olderCmp := Gen.Pool.olderCmp,
    zeroDiscards := Gen.Pool.zeroDiscards, ruleDrained := Gen.Pool.ruleDrained, trackLeak := Gen.Pool.trackLeak,
    trackInterrupt := Gen.Pool.trackInterrupt }

/-- the code before the C32 repairs -/
def Cfg.legacy (maxIdle : Nat) (timeout : Int) : Cfg :=
  { maxIdle, timeout, evictCmp := .ge, reapCmp := .ge, olderCmp := .lt,
    zeroDiscards := false, ruleDrained := false, trackLeak := false, trackInterrupt := false }

/-! ### the idle dict -/

/-- all idle workers, in dict order then deque order -/
def idleWs : Idle → List Wid
  | [] => []
  | kv :: r => kv.2.map (·.1) ++ idleWs r

/-- `sum(len(d) for d in self._idle.values())` -/
def total (i : Idle) : Nat := (idleWs i).length

/-- `_borrow`: `dq = self._idle.get(key); if dq: entry = dq.pop(); if not dq: del self._idle[key]` -/
def popLifo (k : Key) : Idle → Option (Wid × Idle)
  | [] => none
  | kv :: r =>
    if kv.1 = k then
      match kv.2.getLast? with
      | none => none
      | some e => some (e.1, if kv.2.dropLast = [] then r else (kv.1, kv.2.dropLast) :: r)
    else
      match popLifo k r with
      | none => none
      | some x => some (x.1, kv :: x.2)

/-- `dq = self._idle.setdefault(key, deque()); dq.append(entry)` -/
def appendIdle (k : Key) (e : Entry) : Idle → Idle
  | [] => [(k, [e])]
  | kv :: r => if kv.1 = k then (kv.1, kv.2 ++ [e]) :: r else kv :: appendIdle k e r

/-- the scan of `_evict_oldest_locked`: `(oldest_key, oldest_time)`, `none` = `(None, inf)` -/
def oldestKey (cmp : Cmp) : Idle → Option (Key × Int) → Option (Key × Int)
  | [], best => best
  | kv :: r, best =>
    match kv.2.head? with
    | none => oldestKey cmp r best
    | some e =>
      match best with
      | none => if cmpInf cmp then oldestKey cmp r (some (kv.1, e.2)) else oldestKey cmp r none
      | some b => if cmpInt cmp e.2 b.2 then oldestKey cmp r (some (kv.1, e.2)) else oldestKey cmp r (some b)

/-- `dq = self._idle[key]; entry = dq.popleft(); if not dq: del self._idle[key]` -/
def popLeft (k : Key) : Idle → Option (Wid × Idle)
  | [] => none
  | kv :: r =>
    if kv.1 = k then
      match kv.2 with
      | [] => none
      | e :: dq => some (e.1, if dq = [] then r else (kv.1, dq) :: r)
    else
      match popLeft k r with
      | none => none
      | some x => some (x.1, kv :: x.2)

/-- `_evict_oldest_locked` -/
def evictOldest (cmp : Cmp) (i : Idle) : Option (Wid × Idle) :=
  match oldestKey cmp i none with
  | none => none
  | some b => popLeft b.1 i

/-- the lock-protected tail of `_return_worker` for a live, clean worker when `max_idle ≠ 0` (or in the legacy code):
evict the oldest if at capacity, then append → (evicted, idle') -/
def returnIdle (c : Cfg) (k : Key) (w : Wid) (now : Int) (i : Idle) : Option Wid × Idle :=
  if cmpInt c.evictCmp (total i) c.maxIdle then
    match evictOldest c.olderCmp i with
    | some x => (some x.1, appendIdle k (w, now) x.2)
    | none => (none, appendIdle k (w, now) i)
  else (none, appendIdle k (w, now) i)

/-- `_reap_expired`, one deque: `while dq and (now - dq[0].returned_at) >= timeout: popleft` → (expired, kept) -/
def reapDq (c : Cfg) (now : Int) : List Entry → List Entry × List Entry
  | [] => ([], [])
  | e :: r =>
    if cmpInt c.reapCmp (now - e.2) c.timeout then ((e :: (reapDq c now r).1), (reapDq c now r).2) else ([], e :: r)

/-- `_reap_expired`: every key in dict order → (expired workers, idle') -/
def reap (c : Cfg) (now : Int) : Idle → List Wid × Idle
  | [] => ([], [])
  | kv :: r =>
    ((reapDq c now kv.2).1.map (·.1) ++ (reap c now r).1,
     if (reapDq c now kv.2).2 = [] then (reap c now r).2 else (kv.1, (reapDq c now kv.2).2) :: (reap c now r).2)

/-! ### the borrower's connection bookkeeping -/

/-- `_PooledTransport._session` as the pool sees it: no session, not closed, closed but not drained, closed and drained -/
inductive Sess where
  | none | open | dirty | drained
deriving Repr, DecidableEq

/-- `_PooledTransport._stream_opened`, `_stream_leaked`, `_last_stream_session`, `_interrupted` -/
structure Conn where
  opened : Bool := false
  leaked : Bool := false
  sess : Sess := .none
  interrupted : Bool := false
deriving Repr, DecidableEq

/-- `_PooledTransport.close`: `stream_abandoned` -/
def abandoned (c : Cfg) (x : Conn) : Bool :=
  (c.trackInterrupt && x.interrupted) || x.opened && ((c.trackLeak && x.leaked) ||
    (match x.sess with
     | .none => true
     | .open => true
     | .dirty => c.ruleDrained
     | .drained => false))

/-- a client operation of the borrower, classified by what it did to the session -/
inductive UseOp where
  | unary      -- a unary call, whatever its outcome (value, RpcError, on_log raised an `Exception`)
  | openOk     -- a stream call returned a session
  | openFail   -- a stream call raised after sending its request (init error, on_log raised while reading the header)
  | step       -- tick / exchange that left the session open (data, or on_log raised mid-read)
  | endOk      -- the session ended and its output was read to the EOS marker (`_drained`)
  | endDirty   -- the session ended (`_closed`) without reaching the EOS marker
  | sendFail   -- a stream call failed before its request was sent (dead transport)
  | interrupt  -- a `BaseException` that is not an `Exception` escaped from a client operation: the borrow is over
deriving Repr, DecidableEq

/-- every call fetches `transport.writer` to send its request: with the last session not drained, that is a leak -/
def leakNow (x : Conn) : Bool := x.leaked || (x.sess == .open || x.sess == .dirty)

def useConn (x : Conn) : UseOp → Option Conn
  | .unary => some { x with leaked := leakNow x }
  | .openOk => some { x with opened := true, leaked := leakNow x, sess := .open }
  | .openFail => some { x with opened := true, leaked := leakNow x }
  | .step => if x.sess = .open then some x else none
  | .endOk => if x.sess = .open then some { x with sess := .drained } else none
  | .endDirty => if x.sess = .open then some { x with sess := .dirty } else none
  | .sendFail => some { x with leaked := leakNow x }
  | .interrupt => some { x with interrupted := true }

/-- the connection's cleanliness after the operation -/
def useSynced (x : Conn) (sy : Bool) : UseOp → Bool
  | .unary => sy
  | .openOk => false
  | .openFail => sy
  | .step => sy
  | .endOk => !x.leaked
  | .endDirty => false
  | .sendFail => sy
  | .interrupt => false

/-! ### the concurrent model -/

/-- one worker process / transport -/
structure WSt where
  key : Key := 0
  /-- ghost: the process is running -/
  alive : Bool := false
  /-- ghost: the connection is at a message boundary -/
  synced : Bool := false
  /-- result of the last `proc.poll()` (`true` = still running); a fresh worker counts as polled alive -/
  lastPoll : Bool := false
deriving Repr, DecidableEq

inductive Pc where
  | idle
  -- connect / _borrow
  | bEnter (k : Key)            -- connect() called
  | bRefused                    -- saw `_closed`: raises RuntimeError
  | bWant (k : Key)             -- about to take the lock in `_borrow`
  | bPoll (k : Key) (w : Wid)   -- [lock] popped `w`, health check pending
  | bDead (k : Key) (w : Wid)   -- [lock] `w` is dead: `transport.close()` pending
  | bMiss (k : Key)             -- [lock] nothing reusable
  | bHave (w : Wid)             -- [lock] `return transport`
  | bSpawn (k : Key)            -- lock released, spawning
  | bNew (w : Wid)              -- spawned, `_spawns += 1` pending
  | bNewL (w : Wid)             -- [lock]
  | bFail                       -- spawn raised OSError
  | bFailL                      -- [lock] `_active -= 1`
  | bRaise                      -- re-raising
  | bGot (w : Wid)              -- `_borrow` returned `w`: the borrower is about to receive it
  | using (w : Wid) (x : Conn)  -- inside the `with pool.connect(...)` block
  -- _PooledTransport.close / _return_worker
  | rPoll (w : Wid) (ab : Bool) -- `_return_worker(w, ab)` entered
  | rDisc (w : Wid)             -- dead or abandoned: to be discarded
  | rDiscL (w : Wid)            -- [lock]
  | rDiscC (w : Wid)            -- `transport.close()` pending
  | rOk (w : Wid)               -- alive and clean
  | rLock (w : Wid)             -- [lock] `_active -= 1` done
  | rShut (w : Wid)             -- [lock] pool closed: `transport.close()` pending
  | rShutC                      -- [lock]
  | rKeep (w : Wid)             -- [lock] pool open
  | rApp (e : Option Wid)       -- [lock] appended; `e` evicted
  | rEvict (e : Wid)            -- `evicted.close()` pending
  | rEnd
  | rIntrL                      -- [lock] a non-Exception cut the return short inside the critical section
  | rIntr                       -- a non-Exception cut `_PooledTransport.close()` short: the second close() is a no-op
  -- _reap_expired
  | reapRead (now : Int)
  | reapL (ws : List Wid)       -- [lock]
  | reapC (ws : List Wid)
  -- close
  | cEnter | cEnd | cWr | cStop
  | cL (ws : List Wid)          -- [lock]
  | cC (ws : List Wid)
  -- idle_count
  | oWant
  | oL (n : Nat)                -- [lock]
  | oRet (n : Nat)
deriving Repr, DecidableEq

/-- the thread holds the pool lock -/
def Pc.inCS : Pc → Bool
  | .bPoll .. | .bDead .. | .bMiss .. | .bHave .. | .bNewL .. | .bFailL | .rDiscL .. | .rLock .. | .rShut ..
  | .rShutC | .rKeep .. | .rApp .. | .rIntrL | .reapL .. | .cL .. | .oL .. => true
  | _ => false

/-- inside `_PooledTransport.close()` / `_return_worker` (from its entry until the harness sees `connect()` return) -/
def Pc.inReturn : Pc → Bool
  | .rPoll .. | .rDisc .. | .rDiscL .. | .rDiscC .. | .rOk .. | .rLock .. | .rShut .. | .rShutC | .rKeep .. | .rApp ..
  | .rEvict .. | .rEnd => true
  | _ => false

/-- the worker a borrower thread holds (from the moment it leaves the idle dict / is spawned until it is put back or
handed to `transport.close()`) -/
def Pc.held : Pc → Option Wid
  | .bPoll _ w | .bDead _ w | .bHave w | .bNew w | .bNewL w | .bGot w | .using w _ | .rPoll w _ | .rDisc w
  | .rDiscL w | .rDiscC w | .rOk w | .rLock w | .rShut w | .rKeep w => some w
  | _ => none

inductive Label where
  | tick (d : Int)
  | die (w : Wid)
  | acq (t : Tid)
  | rel (t : Tid)
  | rdClosed (t : Tid) (v : Bool)
  | wrClosed (t : Tid)
  | clock (t : Tid) (v : Int)
  | spawn (t : Tid) (w : Wid) (k : Key)
  | spawnFail (t : Tid)
  | poll (t : Tid) (w : Wid) (alive : Bool)
  | tclose (t : Tid) (w : Wid)
  | connect (t : Tid) (k : Key)
  | refused (t : Tid)
  | raised (t : Tid)
  | got (t : Tid) (w : Wid)
  | use (t : Tid) (op : UseOp) (after : Conn)
  | ret (t : Tid) (w : Wid) (ab : Bool) (sy : Bool)
  | done (t : Tid)
  | intr (t : Tid)   -- a non-Exception (KeyboardInterrupt …) delivered to the thread between two events of its return path
  | closeCall (t : Tid)
  | closeDone (t : Tid)
  | obsCall (t : Tid)
  | obsVal (t : Tid) (n : Nat)
deriving Repr, DecidableEq

structure St where
  lock : Lock := {}
  closed : Bool := false
  /-- ghost: `close()` has emptied the idle dict -/
  swept : Bool := false
  active : Int := 0
  idle : Idle := []
  nextW : Nat := 0
  ws : Wid → WSt := fun _ => {}
  clock : Int := 0
  pc : Tid → Pc := fun _ => .idle

def setPc (s : St) (t : Tid) (p : Pc) : St := { s with pc := upd s.pc t p }
def setW (s : St) (w : Wid) (v : WSt) : St := { s with ws := upd s.ws w v }

def stepAcq (c : Cfg) (s : St) (t : Tid) : Option St :=
  match s.pc t with
  | .bWant k =>
    match popLifo k s.idle with
    | some x => some { s with active := s.active + 1, idle := x.2, pc := upd s.pc t (.bPoll k x.1) }
    | none => some { s with active := s.active + 1, pc := upd s.pc t (.bMiss k) }
  | .bNew w => some (setPc s t (.bNewL w))
  | .bFail => some { s with active := s.active - 1, pc := upd s.pc t .bFailL }
  | .rDisc w => some { s with active := s.active - 1, pc := upd s.pc t (.rDiscL w) }
  | .rOk w => some { s with active := s.active - 1, pc := upd s.pc t (.rLock w) }
  | .reapRead now => some { s with idle := (reap c now s.idle).2, pc := upd s.pc t (.reapL (reap c now s.idle).1) }
  | .cStop => some { s with idle := [], swept := true, pc := upd s.pc t (.cL (idleWs s.idle)) }
  | .oWant => some (setPc s t (.oL (total s.idle)))
  | _ => none

def stepRel (c : Cfg) (s : St) (t : Tid) : Option St :=
  match s.pc t with
  | .bMiss k => some (setPc s t (.bSpawn k))
  | .bHave w => some (setPc s t (.bGot w))
  | .bNewL w => some (setPc s t (.bGot w))
  | .bFailL => some (setPc s t .bRaise)
  | .rDiscL w => some (setPc s t (.rDiscC w))
  | .rShutC => some (setPc s t .rEnd)
  | .rKeep w => if c.zeroDiscards && c.maxIdle == 0 then some (setPc s t (.rEvict w)) else none
  | .rApp (some e) => some (setPc s t (.rEvict e))
  | .rApp none => some (setPc s t .rEnd)
  | .reapL [] => some (setPc s t .idle)
  | .reapL (w :: ws) => some (setPc s t (.reapC (w :: ws)))
  | .cL ws => some (setPc s t (.cC ws))
  | .oL n => some (setPc s t (.oRet n))
  | .rIntrL => some (setPc s t .rIntr)
  | _ => none

def stepPoll (s : St) (t : Tid) (w : Wid) (r : Bool) : Option St :=
  match s.pc t with
  | .bPoll k w' => if w' = w then some (setPc s t (if r then .bHave w else .bDead k w)) else none
  | .rPoll w' ab => if w' = w then some (setPc s t (if !r || ab then .rDisc w else .rOk w)) else none
  | _ => none

def stepTclose (s : St) (t : Tid) (w : Wid) : Option St :=
  match s.pc t with
  | .bDead k w' => if w' = w then some (setPc s t (.bMiss k)) else none
  | .rDiscC w' => if w' = w then some (setPc s t .rEnd) else none
  | .rShut w' => if w' = w then some (setPc s t .rShutC) else none
  | .rEvict w' => if w' = w then some (setPc s t .rEnd) else none
  | .reapC (w' :: ws) => if w' = w then some (setPc s t (if ws = [] then .idle else .reapC ws)) else none
  | .cC (w' :: ws) => if w' = w then some (setPc s t (.cC ws)) else none
  | _ => none

def step (c : Cfg) (s : St) : Label → Option St
  | .tick d => if d < 0 then none else some { s with clock := s.clock + d }
  | .die w => if w < s.nextW then some (setW s w { s.ws w with alive := false }) else none
  | .acq t =>
    match s.lock.acquire t with
    | none => none
    | some l => stepAcq c { s with lock := l } t
  | .rel t =>
    match s.lock.release t with
    | none => none
    | some l => stepRel c { s with lock := l } t
  | .rdClosed t v =>
    if v = s.closed then
      match s.pc t with
      | .bEnter k => some (setPc s t (if v then .bRefused else .bWant k))
      | .rLock w => some (setPc s t (if v then .rShut w else .rKeep w))
      | .cEnter => some (setPc s t (if v then .cEnd else .cWr))
      | _ => none
    else none
  | .wrClosed t =>
    match s.pc t with
    | .cWr => some { s with closed := true, pc := upd s.pc t .cStop }
    | _ => none
  | .clock t v =>
    if v = s.clock then
      match s.pc t with
      | .idle => some (setPc s t (.reapRead v))
      | .rKeep w =>
        if c.zeroDiscards && c.maxIdle == 0 then none
        else some { s with idle := (returnIdle c (s.ws w).key w v s.idle).2,
                           pc := upd s.pc t (.rApp (returnIdle c (s.ws w).key w v s.idle).1) }
      | _ => none
    else none
  | .spawn t w k =>
    match s.pc t with
    | .bSpawn k' =>
      if k' = k ∧ w = s.nextW then
        some { s with nextW := s.nextW + 1, ws := upd s.ws w { key := k, alive := true, synced := true, lastPoll := true },
                      pc := upd s.pc t (.bNew w) }
      else none
    | _ => none
  | .spawnFail t =>
    match s.pc t with
    | .bSpawn _ => some (setPc s t .bFail)
    | _ => none
  | .poll t w r =>
    if r = (s.ws w).alive then stepPoll (setW s w { s.ws w with lastPoll := r }) t w r else none
  | .tclose t w => stepTclose (setW s w { s.ws w with alive := false }) t w
  | .connect t k =>
    match s.pc t with
    | .idle => some (setPc s t (.bEnter k))
    | _ => none
  | .refused t =>
    match s.pc t with
    | .bRefused => some (setPc s t .idle)
    | _ => none
  | .raised t =>
    match s.pc t with
    | .bRaise => some (setPc s t .idle)
    | _ => none
  | .got t w =>
    match s.pc t with
    | .bGot w' => if w' = w then some (setPc s t (.using w {})) else none
    | _ => none
  | .use t op after =>
    match s.pc t with
    | .using w x =>
      match useConn x op with
      | some x' =>
        if x' = after then
          some { s with ws := upd s.ws w { s.ws w with synced := useSynced x (s.ws w).synced op },
                        pc := upd s.pc t (.using w x') }
        else none
      | none => none
    | _ => none
  | .ret t w ab sy =>
    match s.pc t with
    | .using w' x =>
      -- `sy` is the cleanliness the harness measured on the real connection: the model may only be more pessimistic
      if w' = w ∧ ab = abandoned c x ∧ (((s.ws w).alive && (s.ws w).synced) = true → sy = true) then
        some (setPc s t (.rPoll w ab))
      else none
    | _ => none
  | .done t =>
    match s.pc t with
    | .rEnd => some (setPc s t .idle)
    | .rIntr => some (setPc s t .idle)
    | _ => none
  | .intr t =>
    -- the exception unwinds `_return_worker` / `close()` (a `with self._lock:` it passes releases the lock: the `rel` that
    -- follows); whatever the thread still held is neither put back nor closed; `_returned` is already set, so the second
    -- `close()` of `connect()`'s `finally` does nothing
    if (s.pc t).inReturn then some (setPc s t (if (s.pc t).inCS then .rIntrL else .rIntr)) else none
  | .closeCall t =>
    match s.pc t with
    | .idle => some (setPc s t .cEnter)
    | _ => none
  | .closeDone t =>
    match s.pc t with
    | .cEnd => some (setPc s t .idle)
    | .cC [] => some (setPc s t .idle)
    | _ => none
  | .obsCall t =>
    match s.pc t with
    | .idle => some (setPc s t .oWant)
    | _ => none
  | .obsVal t n =>
    match s.pc t with
    | .oRet n' => if n' = n then some (setPc s t .idle) else none
    | _ => none

/-- the pool with any number of threads as a transition system of the Sched kit -/
def ts (c : Cfg) : TS St Label := { init := {}, step := step c }

end VgiVerif.C32
