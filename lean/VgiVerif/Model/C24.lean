import VgiVerif.Prelude.AuthTypes
import VgiVerif.Gen.C24
/-
C24 model: transliteration of `vgi_rpc/http/_bearer.py` — `require_all`'s closure and constructor guard,
`chain_authenticate`'s constructor guards and OR loop — and of the part of `_AuthMiddleware.process_request`
that turns a callback outcome into "dispatch with this AuthContext" / 401 / 500.
Callbacks are represented by what they do on the current request (`AuthOut`, `GateRes`); how often the inner
callback is invoked is part of the result.  The shape of `require_all`'s gate-only branch is read from the source
(`Gen.C24.unverifiedAnonymous`, `…Key`, `…Value`, `gateOnlyAuthenticated`).
-/
namespace VgiVerif.C24
open VgiVerif.PP VgiVerif.Auth

structure Composed where
  out : AuthOut          -- what the composed callback returns / raises
  innerCalls : Nat       -- how many times `inner(req)` ran
deriving Repr, DecidableEq

/-- the closure returned by `require_all(gate, inner)`, applied to the current request.
`anon` = the gate-only branch has the `claims.get(key) == value → anonymous` guard. -/
def requireAllWith (anon : Bool) (key value : Str) (gateOnlyAuth : Bool) (g : Gate) (inner : Option AuthOut) : Composed :=
  match g.res with
  | .raises e => ⟨.err e, 0⟩                                   -- `claims = gate(req)` raised: nothing else runs
  | .claims c =>
    match inner with
    | none =>
      if anon && (c.get key == some value) then
        ⟨.ok { domain := none, authenticated := false, principal := none, claims := [(g.claimsKey, .map c)] }, 0⟩
      else
        ⟨.ok { domain := some g.name, authenticated := gateOnlyAuth, principal := c.get "proxy".toList,
               claims := [(g.claimsKey, .map c)] }, 0⟩
    | some (.err e) => ⟨.err e, 1⟩                              -- `ctx = inner(req)` raised
    | some (.ok ctx) => ⟨.ok { ctx with claims := setKey ctx.claims g.claimsKey (.map c) }, 1⟩

/-- `require_all` of the tree under test -/
def requireAll (g : Gate) (inner : Option AuthOut) : Composed :=
  requireAllWith Gen.C24.unverifiedAnonymous Gen.C24.unverifiedKey Gen.C24.unverifiedValue
    Gen.C24.gateOnlyAuthenticated g inner

/-- what is handed to a combinator's constructor -/
inductive Member where
  | fn (out : AuthOut)       -- an ordinary authenticate callback (incl. the result of `require_all`)
  | gate (g : Gate)          -- a `PreconditionGate` instance
  | other                    -- some other object (only matters for `require_all`'s type check)
deriving Repr, DecidableEq

inductive CtorErr where
  | valueError | typeError
deriving Repr, DecidableEq

def Member.isGate : Member → Bool
  | .gate _ => true
  | _ => false

/-- `require_all(gate, inner)` at construction time -/
def requireAllConstruct (m : Member) : Except CtorErr Gate :=
  match m with
  | .gate g => .ok g
  | _ => if Gen.C24.requireAllTypeGuard then .error .typeError else .error .valueError

/-- `chain_authenticate(*authenticators)` at construction time: the callbacks it will try, or the error raised -/
def chainConstruct (ms : List Member) : Except CtorErr (List Member) :=
  if Gen.C24.chainEmptyGuard && ms.isEmpty then .error .valueError
  else if Gen.C24.chainGateGuard && ms.any Member.isGate then .error .typeError
  else .ok ms

/-- the chain's loop on the current request: results of the members tried, in order.
A `ValueError` moves on to the next member, anything else (success or another exception) ends the loop. -/
def chainRun : List AuthOut → AuthOut × Nat
  | [] => (.err (.value "No authenticator accepted the request".toList), 0)
  | o :: rest =>
    match o with
    | .err (.value _) => let r := chainRun rest; (r.1, r.2 + 1)
    | _ => (o, 1)

/-- what `_AuthMiddleware.process_request` does with the callback's outcome -/
inductive Served where
  | dispatch (ctx : AuthCtx)     -- the method runs and sees this `AuthContext`
  | status401
  | status500
deriving Repr, DecidableEq

def middleware : AuthOut → Served
  | .ok ctx => .dispatch ctx
  | .err (.value _) => .status401
  | .err (.permission _) => .status401
  | .err (.other _) => .status500

end VgiVerif.C24
