import VgiVerif.Proofs.C14
/-
C14 findings — negation witnesses on the *pinned* shape of the call sites (not obligations: they document the two defects
that the `fix:` commit removed; a repaired tree must not fail because a counter-example stopped existing).

pinned shape = what extraction yields on the tree before the fix:
  initAnchor = now, missAnchor = now   (`put(…, time.time())`, `put(…, now)`),   hitChecksType = false
and, since the method binding of the call token was merged, no method check on a hit (hitChecksMethod = false): the
call token opens only at its own method's endpoint, so a cold worker rejects a cross-method request as any bad token.
-/
namespace VgiVerif.C14.Findings
open VgiVerif.C14 VgiVerif.Gen.C14

def pinned : Shape :=
  { initAnchor := .now, missAnchor := .now, hitChecksType := false, hitChecksMethod := false, hitRefreshes := false }

/-- the repaired call sites with an LRU that also *refreshes the expiry* on a hit (sliding expiry) -/
def sliding : Shape := { Gen.C14.shape with hitRefreshes := true }

def cfgOf (sh : Shape) : Cfg :=
  { shape := sh, ttl := 10, tps := 1, declares := fun m t => m == t, decodes := fun _ _ => true }

def alice : Ident := .user "d".toList "alice".toList

/-- DESIGN §7.1 row C14: init on worker 0 at t=0, continuation on worker 1 at t=9 (miss → re-`put` with `now + ttl`),
    then the next continuation at t=12 -/
def expiryHist : List Step :=
  [.init 0 alice 0 7 (some 0), .tick 9, .cont 1 ⟨alice, 0, .issued 0, .issued 0, false⟩, .tick 3]
def expiryReq : Req := ⟨alice, 0, .issued 1, .issued 0, false⟩
def expiryWorld (sh : Shape) : World := run (cfgOf sh) (World.start [2, 2, 2] 0) expiryHist

/-- pinned: warm worker 1 serves the call, a cold worker rejects it as expired -/
theorem expiry_misaligned :
    (serveCont (cfgOf pinned) (expiryWorld pinned) 1 expiryReq).2 = .served 0 ⟨7, some 0, 0⟩ ⟨0, alice, 9, 1, 0⟩ false ∧
    (serveCont (cfgOf pinned) (expiryWorld pinned).emptied 1 expiryReq).2 = .rejected .tokenRejected := by
  decide +kernel

/-- the same history on the repaired shape: both reject -/
theorem expiry_aligned_after_fix :
    (serveCont (cfgOf Gen.C14.shape) (expiryWorld Gen.C14.shape) 1 expiryReq).2 = .rejected .tokenRejected ∧
    (serveCont (cfgOf Gen.C14.shape) (expiryWorld Gen.C14.shape).emptied 1 expiryReq).2 = .rejected .tokenRejected := by
  decide +kernel

/-- a stream of method 0 (call-state class 0) continued at method 1's endpoint on the worker that served `/init` -/
def crossHist : List Step := [.init 0 alice 0 7 (some 0)]
def crossReq : Req := ⟨alice, 1, .issued 0, .issued 0, false⟩
def crossWorld (sh : Shape) : World := run (cfgOf sh) (World.start [2, 2] 0) crossHist

/-- pinned: a hit skips what the miss path checks about the call (method binding, declared call-state type) -/
theorem hit_skips_call_checks :
    (serveCont (cfgOf pinned) (crossWorld pinned) 0 crossReq).2 = .served 1 ⟨7, some 0, 0⟩ ⟨0, alice, 0, 0, 0⟩ false ∧
    (serveCont (cfgOf pinned) (crossWorld pinned).emptied 0 crossReq).2 = .rejected .tokenRejected := by
  decide +kernel

theorem call_checks_after_fix :
    (serveCont (cfgOf Gen.C14.shape) (crossWorld Gen.C14.shape) 0 crossReq).2 = .rejected .tokenRejected ∧
    (serveCont (cfgOf Gen.C14.shape) (crossWorld Gen.C14.shape).emptied 0 crossReq).2 = .rejected .tokenRejected := by
  decide +kernel

/-- hence the full statement of the spec is false of the pinned shape -/
theorem pinned_not_transparent : ¬ Spec.Transparent (deployment (cfgOf pinned)) Start := by
  intro h
  have hecho : Echo (run (cfgOf pinned) (World.start [2, 2, 2] 0) expiryHist) expiryReq := by
    intro i c h1 h2
    have hi : i = 1 := by simpa [expiryReq] using h1.symm
    subst hi
    have h3 : (run (cfgOf pinned) (World.start [2, 2, 2] 0) expiryHist).cursors[1]? = some ⟨0, alice, 9, 1, 0⟩ := by
      decide +kernel
    rw [h3] at h2
    have : c = ⟨0, alice, 9, 1, 0⟩ := by simpa using h2.symm
    subst this; rfl
  have := h (World.start [2, 2, 2] 0) ⟨[2, 2, 2], 0, rfl⟩ expiryHist (1 : Nat) expiryReq hecho
  have h1 := expiry_misaligned
  have e : (Outcome.served 0 ⟨7, some 0, 0⟩ ⟨0, alice, 9, 1, 0⟩ false) = Outcome.rejected .tokenRejected :=
    h1.1.symm.trans (this.trans h1.2)
  exact absurd e (by simp)

/-- a stream kept busy on the worker that served `/init`: a hit at t=6 re-stores the entry with 6 + ttl, so at t=11 — past
    the call token's `created_at + ttl = 10`, cursor minted at 6 still fresh — the warm worker serves what a cold one refuses -/
def busyHist : List Step := [.init 0 alice 0 7 (some 0), .tick 6, .cont 0 ⟨alice, 0, .issued 0, .issued 0, false⟩, .tick 5]
def busyReq : Req := ⟨alice, 0, .issued 1, .issued 0, false⟩
def busyWorld (sh : Shape) : World := run (cfgOf sh) (World.start [2, 2] 0) busyHist

theorem sliding_expiry_outlives_token :
    (serveCont (cfgOf sliding) (busyWorld sliding) 0 busyReq).2 = .served 0 ⟨7, some 0, 0⟩ ⟨0, alice, 6, 1, 0⟩ false ∧
    (serveCont (cfgOf sliding) (busyWorld sliding).emptied 0 busyReq).2 = .rejected .tokenRejected := by
  decide +kernel

theorem fixed_expiry_does_not :
    (serveCont (cfgOf Gen.C14.shape) (busyWorld Gen.C14.shape) 0 busyReq).2 = .rejected .tokenRejected ∧
    (serveCont (cfgOf Gen.C14.shape) (busyWorld Gen.C14.shape).emptied 0 busyReq).2 = .rejected .tokenRejected := by
  decide +kernel

end VgiVerif.C14.Findings
