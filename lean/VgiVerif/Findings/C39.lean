import VgiVerif.Proofs.C39
/-
C39 finding (repaired by `fix: protocol_hash framing was ambiguous for names containing U+001E/U+001F`):
the canonical pre-image is separator-framed without length prefixes, so WITHOUT the name guards two different
contracts share a pre-image (hence a protocol_hash).  Not an obligation: documents the defect of the pinned tree.
-/
namespace VgiVerif.C39.Findings
open VgiVerif.C39 VgiVerif.C39.Spec VgiVerif.C39.Example

def unary (name : List Char) : Method Bool :=
  { name := name, kind := .unary, hasReturn := true, params := true, result := true, header := none, isExchange := none }

/-- class `A` with a method named `x|<US>y` -/
def a : Service Bool := { name := ['A'], methods := [unary ['x', '|', Char.ofNat 31, 'y']] }
/-- class `A|<US>x` with a method named `y` -/
def b : Service Bool := { name := ['A', '|', Char.ofNat 31, 'x'], methods := [unary ['y']] }

theorem wellFormed : a.WellFormed ∧ b.WellFormed := by
  unfold Service.WellFormed; decide

theorem different_contracts : ¬ SameWire a b := fun h => absurd h.1 (by decide)

theorem same_preimage : servicePreimage env a = servicePreimage env b := by
  simp [servicePreimage, rows, sortMethods, a, b]
  decide

/-- on a tree without the guards every service is accepted, and the FULL sensitivity statement is false -/
theorem sensitive_fails_without_guards : ¬ Spec.Sensitive (fun _ : Service Bool => True) (servicePreimage env) :=
  fun h => different_contracts (h a b wellFormed.1 wellFormed.2 trivial trivial same_preimage)

/-- with the extracted guards of the repaired tree both definitions are refused -/
theorem refused_by_repaired_code : ¬ Accepted env a ∧ ¬ Accepted env b := by
  simp [Accepted, rows, sortMethods, a, b]
  decide

/-- a cache lookup that walks the class hierarchy is NOT definition-only: touching the parent (class 0) first makes the
child (class 1) report the parent's schema -/
theorem mro_lookup_depends_on_touch_order :
    touchAll .mro [none, some 0] [] [0, 1] = [0, 0] ∧ touchAll .mro [none, some 0] [] [1, 0] = [1, 0] := by decide

end VgiVerif.C39.Findings
