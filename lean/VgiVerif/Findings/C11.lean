import VgiVerif.Model.C11
/-
C11 finding — the tree BEFORE the `fix:` commit (status: fixed).  `_run_http_producer_turn` compared the cap with
`resp_buf.tell()`; on a compressed continuation turn `resp_buf` sits behind `pa.CompressedOutputStream` and only sees what
the codec has flushed: `lag written` bytes (0 for the first 64–128 KiB).  The loop below is `C11.turn` with the decision
taken on the lagging count.  Not obligations: they document why `C11_overshoot` was false of the old code under a codec.
-/
namespace VgiVerif.C11.Findings
open VgiVerif.Engine VgiVerif.C11

/-- the pre-fix loop: `should_continue` reads the bytes the codec has flushed, `lag (bytes written)` -/
def lagTurn (lag : Nat → Nat) (cap : Option Nat) (sz : Item → Nat) : Nat → Nat → List Step → List Item
  | _, _, [] => []
  | told, pos, s :: r =>
      match processStep s with
      | .cont items =>
          items ++ (if Gen.C11.mintWhen (Gen.C11.shouldContinue cap (lag (told + bytes sz items)))
                    then [.token (pos + 1)]
                    else lagTurn lag cap sz (told + bytes sz items) (pos + 1) r)
      | .done items => items
      | .fail items => items

/-- without a lag (no codec; the init turn; every turn after the fix) it is the modelled loop -/
theorem lagTurn_id (cap : Option Nat) (sz : Item → Nat) (rest : List Step) :
    ∀ told pos, lagTurn id cap sz told pos rest = turn cap sz told pos rest := by
  induction rest with
  | nil => intro _ _; rfl
  | cons s r ih =>
    intro told pos
    simp only [lagTurn, turn, id]
    cases processStep s <;> simp [ih]

def emit (k : Nat) : Step := ⟨[], .emit ⟨k, 1, []⟩, []⟩
def script : List Step := [emit 1, emit 2, emit 3, emit 4]
/-- every data batch weighs 100 bytes, the sentinel 7 -/
def sz : Item → Nat
  | .data _ => 100
  | .token _ => 7
  | _ => 0

/-- cap 150, nothing flushed yet: the compressed turn carries all four batches and no token — 400 bytes where
`max told cap + last step + sentinel` = 150 + 100 + 7 -/
theorem old_compressed_turn_ignores_cap :
    lagTurn (fun _ => 0) (some 150) sz 0 0 script = [.data ⟨1, 1, []⟩, .data ⟨2, 1, []⟩, .data ⟨3, 1, []⟩, .data ⟨4, 1, []⟩] ∧
    bytes sz (lagTurn (fun _ => 0) (some 150) sz 0 0 script) = 400 ∧
    ¬ bytes sz (lagTurn (fun _ => 0) (some 150) sz 0 0 script) ≤ max 0 150 + wire sz (emit 4) + 7 := by
  decide

/-- the same turn measured on the IPC bytes (the repaired code): two batches, then the token -/
theorem fixed_turn_stops :
    turn (some 150) sz 0 0 script = [.data ⟨1, 1, []⟩, .data ⟨2, 1, []⟩, .token 2] ∧
    bytes sz (turn (some 150) sz 0 0 script) ≤ max 0 150 + wire sz (emit 2) + 7 := by
  decide

end VgiVerif.C11.Findings
