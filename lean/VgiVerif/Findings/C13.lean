import VgiVerif.Lemmas.Token
/-
C13 — negation witness for the *pinned* tree (not an obligation): with `methodBound = false` (no method in the call
AAD, no method recorded in / checked against the cache entry) a stream started by `gena` is accepted at `genb`'s
`/exchange`, warm or cold.
-/
namespace VgiVerif.C13.Findings
open VgiVerif.Token

def z : Zstd := ⟨fun p => p, fun p => some p⟩
def body : CallBody := ⟨[], [], [1], [2], [3]⟩
def km : CallMint := ⟨.anonymous, "gena".toList, List.replicate 16 7, 100, body, 0⟩
def cm : CursorMint := ⟨.anonymous, "gena".toList, List.replicate 16 7, 100, [9, 9], 1⟩
def pinned : Shape := ⟨true, false⟩
def E : Wire :=
  ⟨fun t => if t = cm.tok z 1 then [65] else if t = km.tok pinned z 1 then [66] else [67],
   fun w => if w = [65] then some (cm.tok z 1) else if w = [66] then some (km.tok pinned z 1) else none⟩
def D : Decoders := ⟨fun _ => true, fun _ => true, fun _ => true⟩
def srv : Server := ⟨1, 3600⟩
def W : World :=
  { cursors := [cm] ++ World.empty.cursors, calls := km :: World.empty.calls,
    caches := (setCache World.empty 0 ((World.empty.caches 0).put km.callId (cacheIdent km.who)
      (cacheDeadline srv.ttl km.t 100, ⟨km.method, km.body⟩))).caches }
/-- `gena`'s tokens, byte for byte, posted to `/genb/exchange` -/
def req : Req := ⟨.anonymous, "genb".toList, 150, [65], some [66]⟩

theorem reachable : Reachable pinned E z D srv [] W := by
  refine Reachable.step Reachable.start (Step.init World.empty 0 km (some (100, [9, 9], 1)) 100 ?_ ?_ ?_)
  · have f : ∀ b : Bytes, b.length < 10 → fitsLen b := fun b h => by unfold fitsLen; tok_consts; omega
    refine ⟨by decide, by decide, ⟨f _ (by decide), f _ (by decide), f _ (by decide), f _ (by decide), f _ (by decide)⟩, trivial, ?_⟩
    exact nulFree_of_chars (by decide)
  · intro k hk; cases hk
  · intro c hc; cases hc; exact ⟨by decide, by unfold fitsLen; decide⟩

/-- **pinned shape: `genb` accepts `gena`'s stream** — on the warm worker (cache hit) and on a cold one (call token) -/
theorem cross_method_accepted :
    (∃ effs acc, recover pinned E z D srv (W.caches 0) req = (effs, .ok acc) ∧ acc.hit = true) ∧
    (∃ effs acc, recover pinned E z D srv (W.caches 1) req = (effs, .ok acc) ∧ acc.hit = false) ∧
    cm.method ≠ req.method := by
  refine ⟨⟨_, _, (by decide : recover pinned E z D srv (W.caches 0) req
      = ([.stateDecode, .bindCallState, .rehydrate], .ok ⟨[9, 9], List.replicate 16 7, ⟨"gena".toList, body⟩, true, 0⟩)), rfl⟩,
    ⟨_, _, (by decide : recover pinned E z D srv (W.caches 1) req
      = ([.cachePut, .stateDecode, .bindCallState, .rehydrate], .ok ⟨[9, 9], List.replicate 16 7, ⟨"genb".toList, body⟩, false, 100⟩)), rfl⟩,
    by decide⟩

/-- **a fixed-width method field does not bind the method**: with `method.encode()[:32].ljust(32, b"\0")` two names
    that agree on their first 32 bytes give the same segment (and hence the same call AAD) — while the terminated
    layout of the repaired tree keeps them apart (`C13_call_aad_binds_method`) -/
theorem fixed_width_field_not_injective :
    (List.replicate 32 'a' ++ ['1'] : List Char) ≠ List.replicate 32 'a' ++ ['2'] ∧
    methodFieldWith 32 0 0 (List.replicate 32 'a' ++ ['1']) = methodFieldWith 32 0 0 (List.replicate 32 'a' ++ ['2']) ∧
    methodFieldWith 0 0 0 (List.replicate 32 'a' ++ ['1']) ≠ methodFieldWith 0 0 0 (List.replicate 32 'a' ++ ['2']) := by
  decide

/-- padding is ambiguous as well once names may end in the pad byte's character — identifiers cannot, but the layout
    itself does not separate `"a"` from `"a\0"` -/
theorem fixed_width_padding_ambiguous :
    methodFieldWith 4 0 0 ['a'] = methodFieldWith 4 0 0 ['a', Char.ofNat 0] := by decide

end VgiVerif.C13.Findings
