import VgiVerif.Model.C38
/-
C38 findings — the defects of the tree BEFORE the `fix:` commit, stated on the model instantiated with the pre-fix
shapes (`__post_init__` only rejects `x < 0`; `2 ** attempt` unclamped; `random.uniform(0, exp_delay)` unguarded).
Not obligations: they document why `C38_wait` / `C38_outcome` were false of the old code.  (Status: fixed.)
-/
namespace VgiVerif.C38.Findings
open VgiVerif.PyFloat VgiVerif.Gen.Retry VgiVerif.C38

deriving instance DecidableEq for Except

def cfg (base max : F) (retries : Int) : Cfg :=
  { maxRetries := retries, backoffBase := base, backoffMax := max, retryable := [503], retryOnConn := true, respectRA := true }

/-- NaN and +inf passed the old validation (`nan < 0` is False) -/
theorem old_validation_accepts_nan : validateWith .negOnly .negOnly (cfg .nan (.fin 1) 3) = none := by decide +kernel
theorem old_validation_accepts_nan_max : validateWith .negOnly .negOnly (cfg (.fin 1) .nan 3) = none := by decide +kernel
theorem old_validation_accepts_inf : validateWith .negOnly .negOnly (cfg .posInf .posInf 3) = none := by decide +kernel

/-- ... and the repaired validation rejects them -/
theorem new_validation_rejects :
    validateWith .finiteNonneg .finiteNonneg (cfg .nan (.fin 1) 3) = some .backoffBase ∧
    validateWith .finiteNonneg .finiteNonneg (cfg (.fin 1) .nan 3) = some .backoffMax ∧
    validateWith .finiteNonneg .finiteNonneg (cfg .posInf (.fin 1) 3) = some .backoffBase ∧
    validateWith .finiteNonneg .finiteNonneg (cfg (.fin 1) .posInf 3) = some .backoffMax := by decide +kernel

/-- a NaN base slept NaN: no clamp catches it (`min(nan, max)` is nan) -/
theorem old_sleeps_nan :
    computeDelayWith none false (cfg .nan (.fin 1) 3) 0 none (1/2) = .ok (.nan, true) := by decide +kernel

/-- a NaN cap disabled the clamp on `Retry-After`: the client sleeps whatever the server asks for -/
theorem old_nan_cap_unbounded :
    computeDelayWith none false (cfg (.fin 1) .nan 3) 0 (some (.fin 1000000)) (1/2) = .ok (.fin 1000000, true) := by
  decide +kernel

/-- `backoff_base * 2**1024`: `OverflowError` instead of a delay (reached after 1024 failed attempts when
    `max_retries ≥ 1025`), even for `backoff_base = 0` -/
theorem old_overflow : computeDelayWith none false (cfg (.fin 0) (.fin 0) 2000) 1024 none 0 = .error .overflow := by
  decide +kernel

/-- a finite but huge base makes the ceiling +inf; `random.uniform(0, inf)` with a draw of 0.0 is NaN -/
theorem old_inf_ceiling_nan :
    computeDelayWith none false (cfg (.fin ((2 : Rat) ^ 1023)) (.fin 1) 3) 1 none 0 = .ok (.nan, true) := by
  decide +kernel

/-- the repaired shapes on the same inputs -/
theorem new_no_overflow :
    computeDelayWith (some 1023) true (cfg (.fin 0) (.fin 0) 2000) 1024 none 0 = .ok (.fin 0, true) := by decide +kernel
theorem new_inf_ceiling_capped :
    computeDelayWith (some 1023) true (cfg (.fin ((2 : Rat) ^ 1023)) (.fin 1) 3) 1 none 0 = .ok (.fin 1, false) := by
  decide +kernel

/-- a guard that only consults the token is re-armed by an in-flight `exchange()` storing its token after a re-entrant
    cancel: two cancel POSTs for one stream (seeded change C38-9; not present on the pinned tree) -/
theorem token_only_guard_duplicates_cancel :
    cancelPosts .noTokenOnly ⟨false, true⟩ [.cancel, .storeToken, .cancel] = 2 := by decide

end VgiVerif.C38.Findings
