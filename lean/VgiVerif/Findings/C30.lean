import VgiVerif.Spec.C30
/-
C30 — the two defects found on the pinned tree, as witnesses on the code AS IT WAS (both are repaired in the repo worktree;
Model/C30.lean models the repaired code and the obligations in Proofs/C30.lean are about that).  Not obligations.

 (1) `_fetch_and_resolve` called `_dispatch_log_or_error(batch, cm, on_log)` inside the read loop, so the log batches of an
     object reached `on_log` before the object was validated — and once per retry when the stream was truncated.
 (2) `_build_pointer_request_body` built the pointer for a client-uploaded request without `vgi_rpc.location.sha256`.
-/
namespace VgiVerif.C30.Findings
open VgiVerif.Engine VgiVerif.C30

/-- the read loop as built: logs are dispatched as they are met; the result carries everything dispatched so far -/
def scanAsBuilt : List WBatch → Tail → List Log × Except Reject (List WBatch)
  | [], .clean => ([], .ok [])
  | [], .invalid => ([], .error .arrowInvalid)
  | [], .other => ([], .error .readError)
  | b :: r, t =>
    if hasLocation b then ([], .error .loop) else
    match classify b with
    | .exc e => ([], .error (.rpcError e))
    | .badLevel => ([], .error .badLevel)
    | .log l => let (ls, res) := scanAsBuilt r t; (l :: ls, res)
    | .data =>
      match scanAsBuilt r t with
      | (ls, .ok ds) => (ls, .ok (b :: ds))
      | (ls, .error e) => (ls, .error e)

/-- one attempt as built: (`on_log` calls, outcome) -/
def attemptAsBuilt (expSchema : Nat) : Parsed → List Log × Except Reject WBatch
  | .bad => ([], .error .arrowInvalid)
  | .other => ([], .error .readError)
  | .stream sch bs tail =>
    match scanAsBuilt bs tail with
    | (ls, .error e) => (ls, .error e)
    | (ls, .ok []) => (ls, .error .noData)
    | (ls, .ok [d]) => if sch != expSchema then (ls, .error .schemaMismatch) else (ls, .ok d)
    | (ls, .ok ds) => (ls, .error (.multiple ds.length))

def logB (t : String) : WBatch := ⟨0, some { level := some "INFO".toList, message := some t.toList }, 0⟩

/-- (1a) an object with a log and two data batches is rejected — after its log was handed to `on_log` -/
theorem logs_delivered_then_rejected :
    attemptAsBuilt 0 (.stream 0 [logB "l1", ⟨2, none, 1⟩, ⟨3, none, 2⟩] .clean)
      = ([⟨"INFO".toList, "l1".toList, []⟩], .error (.multiple 2)) := by rfl

/-- (1b) a truncated object: every retried attempt re-delivers the log (three attempts → three `on_log` calls) -/
theorem logs_redelivered_per_attempt :
    (attemptAsBuilt 0 (.stream 0 [logB "l1"] .invalid)).1 = [⟨"INFO".toList, "l1".toList, []⟩] ∧
    retryable .arrowInvalid = true := by
  constructor <;> rfl

/-- …whereas the repaired procedure hands over nothing in both cases -/
theorem repaired_hands_nothing :
    Spec.onLogCalls (resolve 0 none 2 (fun _ => .got [] (.stream 0 [logB "l1", ⟨2, none, 1⟩, ⟨3, none, 2⟩] .clean))) = [] ∧
    Spec.onLogCalls (resolve 0 none 2 (fun _ => .got [] (.stream 0 [logB "l1"] .invalid))) = [] := by
  constructor <;> rfl

/-- (2) without a digest on the pointer a substituted, well-formed request is resolved and handed to the method:
`clientUpload` as built = a pointer with `sha := none`; the store returns some OTHER request batch -/
theorem substituted_request_accepted (other : WBatch) (h : classify other = .data) (hl : hasLocation other = false) :
    resolve 0 none 2 (fun _ => .got [] (.stream 0 [other] .clean)) = .ok ([], other) := by
  have hf : fetchAndResolve 0 none (.got [] (.stream 0 [other] .clean)) = .ok ([], other) := by
    simp [fetchAndResolve, shaBad, scan, h, hl]
  unfold resolve
  cases (retries 2) <;> simp [resolveFrom, hf]

end VgiVerif.C30.Findings
