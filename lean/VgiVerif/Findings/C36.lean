import VgiVerif.Spec.C36
import VgiVerif.Model.C36
/-
C36 finding (fixed by "fix: token introspection validates the resolver's ttl_seconds (finite, positive) instead of
forwarding NaN/Infinity/null"): on the pinned tree `on_post` had no ttl guard.  The model interprets the extracted
guard list; here the same interpreter is run over the pinned list (the extracted one minus `.ttlCheck`) on the
DESIGN §7.1 witness — a resolver returning `ttl_seconds = nan` — and the property's negation is proved.  Not an obligation.
-/
namespace VgiVerif.C36.Findings
open VgiVerif.Introspect VgiVerif.C36

/-- guard list of the pinned tree -/
def pinnedGuards : List Gen.C36.Guard :=
  [.authz 403 "not_an_introspector", .rateLimit 429 "rate_limited" "1", .readToken 404 "unresolved", .digest,
   .jwsShape 404 "unresolved", .resolve 503, .unresolved 404 "unresolved"]

/-- the repaired list is the pinned one plus the ttl guard -/
theorem repaired_is_pinned_plus_ttl :
    Gen.C36.guards = pinnedGuards ++ [.ttlCheck 500 "token resolver returned an unusable ttl_seconds"] := by rfl

def cfg : Cfg := ⟨["proxy".toList], true⟩
def proxy : Caller := ⟨true, "proxy".toList⟩
def rq : Req := ⟨some 16, 16, .object (.str "opaque".toList)⟩
def nanResolver : Resolver := fun _ => .identity ⟨"p".toList, "n".toList, .float .nan "nan".toList⟩

/-- pinned: `200 {"principal":"p","token_name":"n","ttl_seconds":NaN}` -/
theorem pinned_forwards_nan :
    (run cfg proxy rq nanResolver pinnedGuards ⟨⟨false, 0⟩, none, none⟩).1
      = ⟨200, .identity ⟨"p".toList, "n".toList, .float .nan "nan".toList⟩, true, none⟩ := by decide

theorem pinned_violates_C36 :
    ¬ (∀ i, (run cfg proxy rq nanResolver pinnedGuards ⟨⟨false, 0⟩, none, none⟩).1.body = .identity i →
        Spec.FinitePositive i.ttl) := by
  intro h
  have := h ⟨"p".toList, "n".toList, .float .nan "nan".toList⟩ (by rw [pinned_forwards_nan])
  simp [Spec.FinitePositive] at this

/-- repaired: a server error instead -/
theorem repaired_refuses_nan : (onPost cfg proxy rq nanResolver).1.status = 500 := by decide

end VgiVerif.C36.Findings
