import VgiVerif.Proofs.C05
/-
C05 — the defects repaired in /repo (documentation, not obligations): with the handler tables of the pinned tree (the
guards added by the two `fix:` commits removed) the same decision procedure lets each of these well-framed requests end
the connection without a reply — or, for a pointer at bytes that are not an IPC stream, answer and then end it.
-/
namespace VgiVerif.C05.Findings
open VgiVerif.C05 VgiVerif.Gen.C05

/-- the tree before `fix: a request naming an unusable shared-memory segment …` and `fix: a request the server could not decode …` -/
def pinned : Tables :=
  { Tables.gen with attachGuard := [], attachConvert := [], resolveConvert := [], pointerGuard := [], releaseGuard := [], traceDecode := [], asPyGuard := [],
                    firstRead := [], drainSkips := [], firstReadDrains := false, firstDrainSkips := [], firstDrainEnds := [] }

/-- a plain valid `add(1, 2)` -/
def valid : Req :=
  { openStream := .ok, firstRead := .ok, laterReads := [], hasMethod := true, methodText := true, version := .current,
    traceparent := .absent, tracestate := .absent, shmName := .absent, shmSize := .absent, isPointer := false,
    staticShm := false, shmOpen := .ok, allocInit := .ok, resolve := .ok, deser := .ok, release := .ok, ncols := 2, rows := 1, asPy := .ok,
    isTransportOptions := false, streamNoHeader := false, peerWaits := false, methodKnown := true, versionCheck := .ok, validate := .ok, call := .ok }

def missingSegment : Req := { valid with shmName := .text, shmSize := .numeric, shmOpen := .raises .FileNotFoundError }
def foreignSegment : Req := { valid with shmName := .text, shmSize := .numeric, allocInit := .raises .ValueError }
def badTraceparent : Req := { valid with traceparent := .undecodable }
def badTracestate : Req := { valid with traceparent := .text, tracestate := .undecodable }
def emptyStream : Req := { valid with firstRead := .raises .StopIteration }
def invalidContent : Req := { valid with firstRead := .raises .IPCError }
def time64ns : Req := { valid with asPy := .raises .ValueError }
def dateOverflow : Req := { valid with asPy := .raises .OverflowError }
def pointerNonNumeric : Req :=
  { valid with shmName := .text, shmSize := .numeric, isPointer := true, rows := 0, resolve := .raises .ValueError }
def pointerNoLength : Req :=
  { valid with shmName := .text, shmSize := .numeric, isPointer := true, rows := 0, resolve := .raises .AssertionError }
def pointerGarbage : Req :=
  { valid with shmName := .text, shmSize := .numeric, isPointer := true, rows := 0, resolve := .raises .ArrowInvalid }
def pointerStale : Req :=
  { valid with shmName := .text, shmSize := .numeric, isPointer := true, release := .raises .ValueError }

def witnesses : List Req :=
  [missingSegment, foreignSegment, badTraceparent, badTracestate, emptyStream, invalidContent, time64ns, dateOverflow,
   pointerNonNumeric, pointerNoLength, pointerStale]

/-- pinned tree: every one of them ends the connection silently -/
theorem pinned_silent : witnesses.map (fun rq => (serveOne pinned rq).outcome) = witnesses.map (fun _ => .silentStop) := by decide

/-- pinned tree: a pointer at bytes that are not an IPC stream is answered — and then the connection is ended -/
theorem pinned_garbage_region_stops : (serveOne pinned pointerGarbage).outcome = .replyStop := by decide

/-- repaired tree: all of them are answered and the connection keeps serving.  (`pointerNoLength` raises ValueError
there — the `assert` is gone, see `Gen.C05.pointerAssertsLength`.) -/
theorem repaired_answered :
    (pointerGarbage :: { pointerNoLength with resolve := .raises .ValueError } :: witnesses.erase pointerNoLength).map
        (fun rq => (serveOne Tables.gen rq).outcome)
      = (pointerGarbage :: pointerNoLength :: witnesses.erase pointerNoLength).map (fun _ => .replyContinue) := by decide

/-- a foreign segment smaller than the 24-byte header: `ShmAllocator` raises struct.error.  If `ShmSegment.attach` did not
convert it (handler narrowed to ValueError), nothing on the way out catches it: the connection ends silently -/
def tinySegment : Req := { valid with shmName := .text, shmSize := .numeric, allocInit := .raises .StructError }

theorem tiny_segment_needs_conversion :
    (serveOne { Tables.gen with attachConvert := [.ValueError] } tinySegment).outcome = .silentStop ∧
    (serveOne Tables.gen tinySegment).outcome = .replyContinue := by decide

/-- a pointer at a region that holds an IPC stream without a batch (StopIteration), or bytes that are not IPC framing
(OSError): unless `resolve_shm_batch` turns them into ValueError, the first ends the serve loop as "peer closed", the second
escapes `serve()` — no reply either way -/
def pointerSchemaOnly : Req :=
  { valid with shmName := .text, shmSize := .numeric, isPointer := true, rows := 0, deser := .raises .StopIteration }
def pointerNotIpc : Req :=
  { valid with shmName := .text, shmSize := .numeric, isPointer := true, rows := 0, deser := .raises .OSError }

theorem region_read_needs_conversion :
    (serveOne { Tables.gen with resolveConvert := [] } pointerSchemaOnly).outcome = .silentStop ∧
    (serveOne { Tables.gen with resolveConvert := [] } pointerNotIpc).outcome = .silentStop ∧
    (serveOne Tables.gen pointerSchemaOnly).outcome = .replyContinue ∧
    (serveOne Tables.gen pointerNotIpc).outcome = .replyContinue := by decide

/-- a refused header-less stream call from a lockstep peer: if the server drained the input stream BEFORE writing the error,
both sides would wait for each other -/
def refusedStream : Req := { valid with streamNoHeader := true, peerWaits := true, validate := .raises .TypeError }

theorem refusal_must_reply_first :
    (serveOne { Tables.gen with validationReplyFirst := false } refusedStream).outcome = .hang ∧
    (serveOne Tables.gen refusedStream).outcome = .replyContinue := by decide

theorem assert_gone : Gen.C05.pointerAssertsLength = false := by decide

end VgiVerif.C05.Findings
