import VgiVerif.Model.C28
import VgiVerif.Spec.C28
/-
C28 finding (fixed in the repo worktree by
"fix: shared-memory sink could write past its allocation into the next live batch").

Before the repair `_ShmSink.write` had no guard in front of the copy (`Gen.C28Shm.sinkBounded = false`) and
`allocate_and_write` sized the allocation as `get_record_batch_size(batch) + 4096`.  Arrow's stream writer
emits `schema message + record batch message + EOS`; the schema message of a wide schema (a 400-column batch:
22 480 bytes) or of a schema with large metadata exceeds the 4 096 bytes, so the stream is longer than its
allocation and the tail lands in the next live region.

These are *witnesses*, not obligations: they document the defect on the unguarded shape of the model
(`Sink.writeWith false …`) and must keep compiling whatever the source looks like.
-/
namespace VgiVerif.C28.Findings
open VgiVerif.C28 VgiVerif.Gen.C28Shm

/-- two live neighbours `[100, 104)` and `[104, 108)`; the sink owns the first -/
def table : Table := [(100, 4), (104, 4)]
def zero : Mem := fun _ => 0

/-- the unguarded sink, given 6 bytes for its 4-byte region, completes the write … -/
theorem unguarded_accepts :
    ((⟨100, 100, 104⟩ : Sink).writeWith false false .unknown 1000 zero [1, 2, 3, 4, 5, 6]).2.2 = .ok := by decide

/-- … and byte 104, which belongs to the neighbour, is altered: containment fails -/
theorem unguarded_escapes :
    ¬ Spec.UnchangedOutside zero ((⟨100, 100, 104⟩ : Sink).writeWith false false .unknown 1000 zero [1, 2, 3, 4, 5, 6]).2.1 100 4 := by
  intro h
  have := h 104 (by unfold Spec.InRegion; omega)
  revert this
  decide

/-- the other live batch is not preserved -/
theorem unguarded_alters_neighbour :
    ¬ Spec.LivePreserved [(104, 4)] zero ((⟨100, 100, 104⟩ : Sink).writeWith false false .unknown 1000 zero [1, 2, 3, 4, 5, 6]).2.1 := by
  intro h
  have := h (104, 4) (List.mem_singleton.2 rfl) 104 (by unfold Spec.InRegion; decide)
  revert this
  decide

/-- the same input on the guarded shape (the repaired source) is refused and memory is untouched -/
theorem guarded_refuses :
    ((⟨100, 100, 104⟩ : Sink).writeWith true true .gt 1000 zero [1, 2, 3, 4, 5, 6]).2.2 = .overflow ∧
      ((⟨100, 100, 104⟩ : Sink).writeWith true true .gt 1000 zero [1, 2, 3, 4, 5, 6]).2.1 104 = 0 := by decide

/-- the observed 400-column batch (3 rows of int64): allocation 28 896 + 4 096 = 32 992 bytes; stream =
    schema message 22 480 + record batch 28 896 + EOS 8 = 51 384 bytes -/
theorem observed_overshoot : 28896 + 4096 = 32992 ∧ ¬ (22480 + 28896 + 8 ≤ 32992) := by decide

end VgiVerif.C28.Findings
