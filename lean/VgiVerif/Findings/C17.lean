import VgiVerif.Model.C17
import VgiVerif.Spec.C17
import VgiVerif.Proofs.C18
/-
C17 — the two OPEN findings, as counterexamples to the full statements of Spec/C17.lean (not obligations).

1. `C17:chunked-body-ignored` — a request without Content-Length: Falcon's `req.bounded_stream` yields nothing, so the
   "read max+1 bytes" branch of `_MaxRequestBytesMiddleware` sees an empty body; an oversize chunked body is not refused
   with 413 and a small one does not reach the RPC layer.
2. `C17:undecodable:zstd:incomplete` — a truncated size-less zstd frame: `stream_reader` delivers the decodable prefix
   and then reports the end of the stream without an error; the prefix is handed to the RPC layer.
-/
namespace VgiVerif.C17.Findings
open VgiVerif.Codec VgiVerif.C17

def noZ : ZFrame := ⟨none, none, none, ⟨Unit, fun _ _ => none⟩, ()⟩
def noG : GFrame := ⟨⟨Unit, fun _ _ _ => none, fun _ => none, fun _ => false, fun _ => none, fun _ => false⟩, (), false⟩
def L0 : Libs := ⟨fun _ => noZ, fun _ => noG, fun _ d => d, fun _ d => d⟩

def cfg3 : Cfg := ⟨some 3, [.zstd, .gzip], ["/health".toList]⟩
/-- POST /echo, no Content-Length, five bytes on the wire, cap 3 -/
def chunkedBig : Req := ⟨post, "/echo".toList, none, [1, 2, 3, 4, 5], none⟩
/-- POST /echo, no Content-Length, two bytes on the wire, cap 3 -/
def chunkedSmall : Req := ⟨post, "/echo".toList, none, [1, 2], none⟩

theorem chunkedBig_outcome : (process L0 cfg3 chunkedBig).outcome = .toRpc [] := by decide
theorem chunkedSmall_outcome : (process L0 cfg3 chunkedSmall).outcome = .toRpc [] := by decide

/-- the full wire-cap statement is false of the code as it is -/
theorem wireCap_not_enforced : ¬ Spec.WireCapEnforced process := by
  intro h
  have := h L0 cfg3 chunkedBig 3 rfl rfl (Or.inl rfl) (by decide)
  rw [chunkedBig_outcome] at this
  exact absurd this (by decide)

/-- … and so is "an uncoded body within the cap reaches the RPC layer unchanged" -/
theorem plain_not_delivered : ¬ Spec.PlainDelivered process := by
  intro h
  have := h L0 cfg3 chunkedSmall (Or.inl rfl) (by intro c hc; cases hc; decide) (Or.inl (by decide))
  rw [chunkedSmall_outcome] at this
  exact absurd this (by decide)

/-- a size-less zstd frame of `[1,2,3]` cut short: the reader delivers `[1,2]` and then the end of the stream -/
def truncated : ZFrame := ⟨some 18446744073709551615, none, none, C18.greedy, ([1, 2] : Bytes)⟩
def L1 : Libs := ⟨fun _ => truncated, fun _ => noG, fun _ d => d, fun _ d => d⟩
def cfg10 : Cfg := ⟨some 10, [.zstd, .gzip], ["/health".toList]⟩
def truncReq : Req := ⟨post, "/echo".toList, some 1, [0], some "zstd".toList⟩

theorem truncated_outcome : (process L1 cfg10 truncReq).outcome = .toRpc [1, 2] := by decide

theorem truncated_is_truncated : Spec.TruncatedZ (L1.zstdView (bounded truncReq)) [1, 2] [1, 2, 3] :=
  ⟨by decide, ⟨[3], rfl⟩, ⟨_, by decide, rfl⟩, _, C18.greedy_readerFor, rfl⟩

/-- the full "an incomplete frame never reaches the RPC layer" statement is false of the code as it is -/
theorem truncated_not_refused : ¬ Spec.TruncatedRefused process := by
  intro h
  have := h L1 cfg10 truncReq 10 1 [1, 2] [1, 2, 3] rfl rfl (by decide) (by decide) (by decide) (by decide)
    truncated_is_truncated
  rw [truncated_outcome] at this
  exact absurd this (by decide)

end VgiVerif.C17.Findings
