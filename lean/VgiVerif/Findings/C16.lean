import VgiVerif.Model.C16
import VgiVerif.Spec.C16
import VgiVerif.Proofs.C16
/-
C16 findings — NOT obligations.  `pinned` is the shape the extractor emitted for the tree before the `fix:` commit
"max_externalized_response_bytes is checked against the exact upload size before uploading": nobody handed the budget
down and the upload helpers did not look at one.  On that shape the property fails on the witnesses below (sizes as
measured on the real code: a 1 000-byte unary result has buffer size 1 008 and serializes to 1 296 bytes).
-/
namespace VgiVerif.C16.Findings
open VgiVerif.SizeCaps VgiVerif.C16 VgiVerif.C16.Spec

def pinned : Shape :=
  { VgiVerif.Gen.RespCaps.shape with
    uploadBatchBudget := none, uploadCollBudget := none,
    unaryPassesBudget := false, exchangePassesBudget := false, producerPassesBudget := false }

def cfg : Cfg := ⟨none, some 1013, true, 100⟩
def result : Batch := ⟨1008, 1, 1100⟩

/-- unary: buffer size 1 008 ≤ 1 013 passes the pre-flight, 1 296 bytes are uploaded, and only then the response is
    turned into the external-cap error: refused, but not before upload -/
example : unaryRespond pinned cfg 150 200 8 700 result 1296 300 = ⟨.errExt, 858, [1296]⟩ := by rfl
example : ¬ ExternalOk cfg.extCap (obs (unaryRespond pinned cfg 150 200 8 700 result 1296 300)) := by
  intro h
  have := (h 1013 rfl).2 rfl
  simp [obs, unaryRespond, pinned, cfg, result, flushBatch, predictBatch, capHit, budgetRefuses, enforce, Cmp.holds,
    VgiVerif.Gen.RespCaps.shape] at this

/-- producer: the same payload in a turn that finishes — no post-flush check on this path, so the turn *succeeds*
    with 1 296 bytes uploaded against a cap of 1 013 -/
def script : List Iter := [⟨⟨0, some result, 1296, 300⟩, true, false, 700⟩]
example : (producerTurn pinned cfg 200 150 8 script).kind = .ok ∧ (producerTurn pinned cfg 200 150 8 script).uploads = [1296] := by
  constructor <;> rfl
example : ¬ ProducerOk cfg.wireCap cfg.extCap 200 (producerTurn pinned cfg 200 150 8 script).last 150 8
    (producerTurn pinned cfg 200 150 8 script).body (producerTurn pinned cfg 200 150 8 script).uploads := by
  intro h
  have := h.2 1013 rfl
  have e : (producerTurn pinned cfg 200 150 8 script).uploads = [1296] := by rfl
  rw [e] at this
  simp [total] at this

/-- the pinned shape is not `Sound`; the working tree's is (`shape_sound`), and there both payloads are refused with
    nothing uploaded -/
example : ¬ Sound pinned := fun h => by have := h.unaryPasses; simp [pinned] at this
example : unaryRespond' cfg 150 200 8 700 result 1296 300 = ⟨.errExt, 908, []⟩ := by rfl
example : (producerTurn' cfg 200 150 8 script).kind = .errExt ∧ (producerTurn' cfg 200 150 8 script).uploads = [] := by
  constructor <;> rfl

end VgiVerif.C16.Findings
