import VgiVerif.Model.C22
import VgiVerif.Spec.C22
/-
C22 finding (fixed in the tree under test): a header that is present with an empty value.
The pinned tree tested "absent" with `if not raw`, which the model renders as `AbsentTest.falsy`;
the §6 table puts the empty value in row 2 (`malformed`), not row 1 (`no_proof`).
Not an obligation: documents which shape deviates and that the repaired shape does not.
-/
namespace VgiVerif.C22.Findings
open VgiVerif.PP

/-- with the pinned shape the gate says `no_proof` where the table says `malformed` -/
theorem pinned_shape_deviates (hmac : Hmac) (cfg : Config) (now mono : Int) (cache : Option NonceState) :
    (gateVerifyWith .falsy hmac cfg (some []) now cache mono).1 = .done (.err .noProof) ∧
    (Spec.table hmac cfg [[]] now cache mono).1 = .err .malformed := ⟨rfl, rfl⟩

/-- with `if raw is None` the empty value reaches `verify_proof` and is `malformed` -/
theorem repaired_shape_agrees (hmac : Hmac) (cfg : Config) (now mono : Int) (cache : Option NonceState) :
    (gateVerifyWith .isNone hmac cfg (some []) now cache mono).1 = .done (.err .malformed) := by
  simp only [gateVerifyWith, reduceCtorEq, false_and, if_false]
  rfl

end VgiVerif.C22.Findings
