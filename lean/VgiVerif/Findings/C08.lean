import VgiVerif.Model.C08
/-
C08 findings (both FIXED in the repo worktree; kept as machine-checked witnesses of what the pinned code did).

(b) `_dispatch_log_or_error` before "fix: a malformed log batch from a peer failed the client's call": the same model
function instantiated with the guards of the pinned tree (`Gen.LogDispatch.pinned`, which is also what the extractor
emits for the pinned source) yields `crash` on each class of hostile metadata.

(a) the dropped logs of failing steps are witnessed against the real code by the harness (known_findings/C08.json);
the as-built engine (`keepFailLogs = false`) lives in Model/Engine.lean and `Engine.producer_asBuilt_eq_spec` states
exactly when it coincided with the property.
-/
namespace VgiVerif.C08.Findings
open VgiVerif.Engine VgiVerif.LogWire
open VgiVerif.Gen.LogDispatch (pinned shape)

def info : Option MdVal := some ⟨true, "INFO".toList⟩
def msg : Option MdVal := some ⟨true, "m".toList⟩
def batch (level message : Option MdVal) (extra : Option (MdVal × Parsed)) (sid rid : Option MdVal := none) : WireBatch :=
  ⟨0, some ⟨level, message, extra, none, sid, rid⟩⟩
def ex (j : Json) : Option (MdVal × Parsed) := some (⟨true, []⟩, .ok j)

/-- extras named like `Message`'s own parameters → TypeError -/
theorem pinned_crashes_reserved_key :
    dispatchLog pinned (batch info msg (ex (.obj [("level".toList, .str "x".toList)]))) = .crash .typeError := by decide
/-- `log_extra` a JSON array → AttributeError -/
theorem pinned_crashes_non_object :
    dispatchLog pinned (batch info msg (ex (.arr [.num "1".toList]))) = .crash .attributeError := by decide
/-- non-UTF-8 message → UnicodeDecodeError -/
theorem pinned_crashes_non_utf8 :
    dispatchLog pinned (batch info (some ⟨false, "�".toList⟩) none) = .crash .unicodeDecodeError := by decide
/-- a level the client does not know → ValueError -/
theorem pinned_crashes_unknown_level :
    dispatchLog pinned (batch (some ⟨true, "NOTICE".toList⟩) msg none) = .crash .valueError := by decide
/-- over-deep nesting in `log_extra` → RecursionError; a huge integer → ValueError -/
theorem pinned_crashes_json_limits :
    dispatchLog pinned (batch info msg (some (⟨true, []⟩, .recursion))) = .crash .recursionError ∧
    dispatchLog pinned (batch info msg (some (⟨true, []⟩, .valueError))) = .crash .valueError := by decide

/-- the same batches on the repaired shape: delivered / ignored -/
theorem repaired_handles :
    dispatchLog shape (batch info msg (ex (.obj [("level".toList, .str "x".toList)])))
      = .delivered ⟨"INFO".toList, "m".toList, [("level".toList, "x".toList)]⟩ ∧
    dispatchLog shape (batch info msg (ex (.arr [.num "1".toList]))) = .delivered ⟨"INFO".toList, "m".toList, []⟩ ∧
    dispatchLog shape (batch (some ⟨true, "NOTICE".toList⟩) msg none) = .ignored := by decide

end VgiVerif.C08.Findings
