import VgiVerif.Model.C02
import VgiVerif.Spec.C02
/-
C02 open finding (not a gating obligation): a temporal column coarser than a microsecond silently truncates.

`Spec.Rejects` (full statement: every value the declared type cannot represent is rejected) is FALSE of the model — and of the
code, see known_findings/C02.json — for `Annotated[datetime, ArrowType(pa.timestamp("ms"))]`: the value 2020-01-01
00:00:00.123456 is well-typed, not representable, and one hop returns 00:00:00.123000 instead of an error.
-/
namespace VgiVerif.C02.Findings
open VgiVerif.Py VgiVerif.C02

def tsMs : Ty := .native 1 1 0
def sent : V := .native 1 1577836800123456 0
def received : V := .native 1 1577836800123000 0

theorem witness_wellTyped : wellTyped concreteEnv tsMs sent = true := by decide
theorem witness_not_representable : inhabits concreteEnv tsMs sent = false := by decide
theorem witness_changed : sendParam concreteEnv tsMs sent = .ok received := by rfl

/-- the full rejection statement does not hold -/
theorem not_rejects : ¬ Spec.Rejects concreteEnv (sendParam concreteEnv) := by
  intro h
  obtain ⟨e, he⟩ := h tsMs sent (by decide) witness_wellTyped witness_not_representable
  rw [witness_changed] at he
  cases he

/-- the hypothesis of `C02_reject_partial` that fails here -/
theorem not_lossless : ¬ lossless concreteEnv tsMs sent := by
  intro h
  have := h 1577836800123000 0 (by rfl)
  revert this
  decide

/-! Second open finding: a Decimal whose coefficient has 39 digits and whose rescale drops digits is parsed by pyarrow into
128 bits with silent wrap-around; when the wrapped number happens to rescale exactly, a different value is stored. -/

def dec38 : Ty := .native 5 38 0
def sentDec : V := .native 5 (-386588882507734923781764784854539347556) (-1)
def receivedDec : V := .native 5 (-4630651558679646031839017742277113610) 0

theorem witness_dec_wellTyped : wellTyped concreteEnv dec38 sentDec = true := by decide
theorem witness_dec_not_representable : inhabits concreteEnv dec38 sentDec = false := by decide
theorem witness_dec_changed : sendParam concreteEnv dec38 sentDec = .ok receivedDec := by rfl

/-! Third open finding: a hint with the Optional *inside* the annotation, `Annotated[frozenset[int] | None, ArrowType(…)]`,
is not resolved by `_deserialize_value` (it peels one Optional, then one Annotated layer): the value is returned as it came off
the wire — a list instead of the frozenset — and None is refused although the annotation allows it. -/

def optInsideAnn : List Wrap := [.annArrow, .opt]

theorem witness_hint_unconverted :
    tripH concreteEnv optInsideAnn (.set (.int .i64)) (.set [.int 1]) = .ok (.list [.int 1]) := by rfl
theorem witness_hint_none_refused :
    tripH concreteEnv optInsideAnn (.set (.int .i64)) .none = .error .typeError := by rfl
theorem witness_hint_irregular : regular optInsideAnn = false := by decide

end VgiVerif.C02.Findings
