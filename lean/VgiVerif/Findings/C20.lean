import VgiVerif.Model.C20
import VgiVerif.Proofs.C20
/-
C20 finding (DESIGN §7.1), documented on the *pinned* shape — not an obligation.

On the pinned tree `make_wsgi_app` passed `{prefix}/health` in the same list as `{prefix}/_oauth/`, and
`_AuthMiddleware.process_request` compared every entry with `req.path.startswith(p)`.  For that shape the full property is
false: `POST /healthcheck` (a method whose name merely starts with the health endpoint's name) is exempt, the callback is
never consulted, and the method runs for a rejected caller.  The repaired source (exact comparison for the health path)
extracts to a shape that satisfies `ShapeOk`, for which `C20_exact` / `C20` hold.
-/
namespace VgiVerif.C20.Findings
open VgiVerif.Gen.Exempt VgiVerif.C20

/-- the exemption shape of the pinned tree -/
def pinned : AuthShape :=
  { optionsExempt := true,
    literals := [(.startsWith, Spec.wellKnown)],
    entries := [{ cmp := .startsWith, suffix := Spec.healthSuffix, cond := .health },
                { cmp := .startsWith, suffix := Spec.oauthSuffix, cond := .pkce }],
    recognised := true, stateless := true }

def cfg : Cfg :=
  { pfx := [], authConfigured := true, health := true, pkce := false, oauthMeta := false, upload := false, sticky := false,
    sizeCap := false, describePage := true, landing := true, introspect := false,
    attrs := [['h', 'e', 'a', 'l', 't', 'h', 'c', 'h', 'e', 'c', 'k']], describe := true }

def healthcheck : List Char := ['/', 'h', 'e', 'a', 'l', 't', 'h', 'c', 'h', 'e', 'c', 'k']

/-- the pinned shape fails the soundness criterion … -/
theorem pinned_not_ok : ShapeOk pinned = false := by decide

/-- … and the property is false of it: a rejected `POST /healthcheck` never consults the callback and runs the method -/
theorem pinned_violates :
    respond pinned cfg ⟨verbPost, healthcheck, false⟩
      = ⟨false, false, [.unary ['h', 'e', 'a', 'l', 't', 'h', 'c', 'h', 'e', 'c', 'k']]⟩ := by decide

/-- the request is not in the bypass class of the property -/
theorem healthcheck_not_bypass : ¬ Spec.Bypass cfg.pfx cfg.health cfg.pkce verbPost healthcheck := by
  intro h
  rcases h with h | h | ⟨_, h⟩ | ⟨h, _⟩
  · exact absurd h (by decide)
  · exact absurd (List.isPrefixOf_iff_prefix.mpr h) (by decide)
  · exact absurd h (by decide)
  · exact absurd h (by decide)

end VgiVerif.C20.Findings
