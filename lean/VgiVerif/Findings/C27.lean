import VgiVerif.Model.C27
import VgiVerif.Spec.C27
/-
C27 finding (DESIGN §7.1, repaired by
`fix: a session opened after close_session() in the same request was orphaned …`):

on the pinned tree `_StickySink.open` left `closed = True` standing, so a request doing `close_session(); open_session()`
answered with BOTH `VGI-Session` and `VGI-Session-Close`; `_capture` applies the close last, the client ends with no token,
and the freshly registered session has no holder.

Both shapes are run through the same model functions (`stepActionP`): with `openResetsClosed := false` the witness
orphans, with `true` it does not.  Not an obligation (a repaired tree must not fail because a counter-example is gone).
-/
namespace VgiVerif.C27.Findings
open VgiVerif.Sticky VgiVerif.C27 VgiVerif.C27.Spec

abbrev DWire := Tok × Bool
def codec : Codec DWire := { enc := fun t => (t, true), dec := fun w => some w.1, dec_enc := fun _ => rfl }

def cfg : Cfg := ⟨[119, 48], 0, 300⟩
def W0 : World := { reg := {}, env := ⟨1000, 0, 0⟩ }
def rs0 : RS := { accept := true }

/-- the method body `close_session(); open_session(state)` under a given sink shape, then header emission and `_capture` -/
def closeThenOpen (openResetsClosed : Bool) : World × View DWire :=
  let s1 := stepActionP openResetsClosed cfg 0 .anon 7 W0 rs0 .close
  let s2 := stepActionP openResetsClosed cfg 0 .anon 7 s1.1 s1.2.1 (.open 1 none)
  (s2.1, capture ({} : View DWire) ⟨.ok, s2.2.1.mint.map codec.enc, s2.2.1.closed, []⟩)

/-- pinned shape: the registry keeps a session of client 7, the client holds no token — an orphan -/
theorem pinned_orphans :
    (closeThenOpen false).2.token = none ∧ (liveOf (closeThenOpen false).1.reg 7).length = 1 := by
  decide

/-- repaired shape: the client holds a token -/
theorem repaired_tracks :
    (closeThenOpen true).2.token.isSome = true ∧ (liveOf (closeThenOpen true).1.reg 7).length = 1 := by
  decide

end VgiVerif.C27.Findings
