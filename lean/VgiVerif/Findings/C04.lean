import VgiVerif.Proofs.C04
/-
C04 — open finding `C04:desync:unknown-method-headerless-stream` (documentation, not an obligation).

A client whose Protocol declares a header-less stream method `zz` talks to a server that does not have `zz`.
The server answers the request with an "unknown method" error stream and is back at the request boundary; the client
— which learns of the failure only when it reads the first output — has by then opened (and will close) its input
stream.  The server parses that stream as the NEXT request:
  * tick + close: the tick batch carries no `vgi_rpc.method` → a ProtocolError reply that the next call receives;
  * close only:   the stream has no batch at all → a "no batch" ProtocolError reply that the next call receives
                  (before the C05 repair of `_read_request`: StopIteration ended the `serve` loop, connection dead).
The full statements of Spec/C04.lean are therefore false on the current tree, and a server-side-only repair (draining
after an unknown method as after the other refusals) is not available: the server cannot know whether the unknown
method was a header-less stream, and draining when it was not swallows the next request.
-/
namespace VgiVerif.C04.Findings
open VgiVerif.C04

def noLog : Nat → Bool := fun _ => false

/-- a server with one unary method; method index 1 is unknown to it -/
def svc : Svc := ⟨[.unary 1 false]⟩

/-- witness 1: open `zz` (unknown, header-less), one tick, leave the `with` block; then a unary call -/
def hist1 : List Call := [.stream noLog ⟨1, true, true, false, true⟩ false [.tick], .unary noLog ⟨0, true, true, false, true⟩]

theorem agree1 : Spec.AllAgree svc hist1 := by
  intro c hc
  simp [hist1] at hc
  rcases hc with rfl | rfl <;> simp [Spec.Agree, svc]

/-- after the stream call the connection is not synced: a stale error stream is waiting for the next reader -/
theorem not_synced : (runHist Gen.C04.shape svc hist1 St.init).1 ≠ St.init := by decide

/-- the unary call that follows receives that stale error instead of its value -/
theorem next_call_gets_stale_error :
    ((runHist Gen.C04.shape svc hist1 St.init).2.map fun o => o.outs.map (·.res)) = [[.opened, .error, .closed], [.error]]
    ∧ (runCall Gen.C04.shape svc (.unary noLog ⟨0, true, true, false, true⟩) St.init).2.outs.map (·.res) = [.value] := by decide

theorem full_sync_false : ¬ Spec.SyncAfterEveryCall Gen.C04.shape :=
  fun h => not_synced (h svc hist1 agree1)

/-- witness 2: open `zz`, leave at once: the empty input stream is answered as a request; the next call gets that reply -/
def hist2 : List Call := [.stream noLog ⟨1, true, true, false, true⟩ false [], .unary noLog ⟨0, true, true, false, true⟩]

theorem close_only_also_desyncs :
    ((runHist Gen.C04.shape svc hist2 St.init).2.map fun o => o.outs.map (·.res)) = [[.opened, .closed], [.error]] := by decide

/-- on the tree before that repair the serve loop ended and the next call was never answered -/
theorem close_only_killed_server_before :
    (runHist { repaired with emptyRequestReplies := false } svc hist2 St.init).1.srv = .dead ∧
    ((runHist { repaired with emptyRequestReplies := false } svc hist2 St.init).2.map fun o => o.outs.map (·.blocked))
      = [[false, false], [true]] := by decide

/-- draining after an unknown method (as after the other refusals) is not a repair: when the unknown method was unary
nothing follows, and the drain swallows the next request -/
def naive : Gen.C04.Shape := { repaired with drainUnknown := true }

def hist3 : List Call := [.unary noLog ⟨1, true, true, false, true⟩, .unary noLog ⟨0, true, true, false, true⟩]

theorem naive_repair_blocks :
    ((runHist naive svc hist3 St.init).2.map fun o => o.outs.map (·.blocked)) = [[false], [true]] := by decide

/-- the order inside `_read_unary_response` matters: if the result value were validated / decoded BEFORE the rest of the
response is drained, a client that cannot decode it (Protocols differ) would leave the EOS marker on the transport and the
next call would read it as its own (empty) response -/
def lateDrain : Gen.C04.Shape := { repaired with unaryDrainBeforeDecode := false }

def hist4 : List Call := [.unary noLog ⟨0, true, true, false, false⟩, .unary noLog ⟨0, true, true, false, true⟩]

theorem decode_failure_needs_early_drain :
    (runHist lateDrain svc hist4 St.init).1 ≠ St.init ∧
    ((runHist lateDrain svc hist4 St.init).2.map fun o => o.outs.map (·.res)) = [[.raised], [.transport]] ∧
    ((runHist repaired svc hist4 St.init).2.map fun o => o.outs.map (·.res)) = [[.raised], [.value]] := by decide

/-- the argument conversion must happen before the request's IPC stream is opened: otherwise a client-side conversion error
unwinds through the writer and leaves a batch-less request on the wire; the server answers it, and the next call reads that
answer as its own -/
def lateConversion : Gen.C04.Shape := { repaired with requestBuiltBeforeStream := false }

def hist5 : List Call := [.unary noLog ⟨0, true, true, true, true⟩, .unary noLog ⟨0, true, true, false, true⟩]

theorem client_rejection_must_write_nothing :
    ((runHist lateConversion svc hist5 St.init).2.map fun o => o.outs.map (·.res)) = [[.raised], [.error]] ∧
    ((runHist repaired svc hist5 St.init).2.map fun o => o.outs.map (·.res)) = [[.raised], [.value]] := by decide

end VgiVerif.C04.Findings
