import VgiVerif.Model.C33
/-
C33 findings — Lean-checked witness traces.  Not obligations.

(b) the two accept-loop defects of the tree BEFORE the `fix:` commits, on the model instantiated with the pre-fix
shapes (status: fixed).  Same traces as the schedules found against the real `_serve_socket_threaded` under the
deterministic scheduler (harness/c33.py, `LOOP_CORPUS`).

(a) two launcher hazards: the unlink-while-waiting inode hazard of the per-hash lock file when the installed
`filelock` lacks the `st_nlink` re-check (documentation of an assumption: `pyproject.toml` allows `filelock>=3.13`),
and the exit-time unlink of a worker removing its successor's socket (status: open).
-/
namespace VgiVerif.C33.Findings
open VgiVerif.C33 VgiVerif.Sched

namespace Loop
open VgiVerif.C33.Loop

def cfg3 : Cfg := ⟨some 3, 480, none⟩
def cfg6 : Cfg := ⟨some 6, 480, none⟩

/-- the spec monitor's verdict at the end of a label sequence (`none` = not a run of the model) -/
def verdict (sh : Shape) (cfg : Cfg) (ls : List Label) : Option Bool := ((ts sh cfg).run ls).map (·.mon.bad)

/-- defect 1 — `shutdown_requested` is not cleared on accept: connection 0 comes and goes, the idle timer (timer 1)
fires and decides at t = 3, connection 1 is accepted after the decision and is still being served when the next
accept timeout makes the loop leave -/
def staleFlag : List Label :=
  [.sockAccept 0, .register, .addActive, .spawn, .serveBegin 0, .serveEnd 0, .handlerEnd 0 true,
   .tick 3, .fire 1, .callback 1,
   .sockAccept 1, .register, .addActive, .spawn, .serveBegin 1,
   .tick 4, .acceptTimeout, .check true]

theorem pinned_exits_under_a_connection : verdict Shape.pinned cfg3 staleFlag = some true := by decide +kernel
/-- the second repair alone does not help -/
theorem only_stale_timer_fix_exits_under_a_connection : verdict ⟨false, true⟩ cfg3 staleFlag = some true := by
  decide +kernel
/-- with the flag cleared on accept the loop cannot leave there: `check true` is not a step -/
theorem repaired_does_not_exit : verdict Shape.repaired cfg3 staleFlag = none := by decide +kernel
theorem repaired_continues :
    verdict Shape.repaired cfg3 (staleFlag.dropLast ++ [.check false]) = some false := by decide +kernel

/-- defect 2 — a stale timer callback: timer 1 fires at t = 6 but its callback has not got the lock yet; connection 1
is accepted (the cancel comes too late for timer 1), served and finished, its handler arms timer 2; now the stale
callback of timer 1 runs: it sets `timer = None` over timer 2 and, since `conn_count == 0`, requests shutdown — the
loop leaves 4 quanta after connection 1 finished although `idle_timeout` is 6 -/
def staleCallback : List Label :=
  [.sockAccept 0, .register, .addActive, .spawn, .serveBegin 0, .serveEnd 0, .handlerEnd 0 true,
   .tick 6, .fire 1,
   .sockAccept 1, .register, .addActive, .spawn, .serveBegin 1, .serveEnd 1, .handlerEnd 1 true,
   .callback 1,
   .tick 4, .acceptTimeout, .check true]

theorem pinned_exits_early : verdict Shape.pinned cfg6 staleCallback = some true := by decide +kernel
/-- the first repair alone does not help -/
theorem only_flag_fix_exits_early : verdict ⟨true, false⟩ cfg6 staleCallback = some true := by decide +kernel
/-- the stale callback also discards the newer timer: `timer = None` although timer 2 is armed -/
theorem stale_callback_discards_timer :
    ((ts ⟨true, false⟩ cfg6).run (staleCallback.take 17)).map (fun s => (s.timer, s.tstate 2)) = some (none, .armed) := by
  decide +kernel
theorem repaired_ignores_stale_callback : verdict Shape.repaired cfg6 staleCallback = none := by decide +kernel
theorem repaired_keeps_timer :
    ((ts Shape.repaired cfg6).run (staleCallback.take 17)).map (fun s => (s.timer, s.flag)) = some (some 2, false) := by
  decide +kernel

end Loop

end VgiVerif.C33.Findings
