import VgiVerif.Model.C33
import VgiVerif.Lemmas.Sched
/-
C33 findings — Lean-checked witness traces.  Not obligations.

(b) the two accept-loop defects of the tree BEFORE the `fix:` commits, on the model instantiated with the pre-fix
shapes (status: fixed).  Same traces as the schedules found against the real `_serve_socket_threaded` under the
deterministic scheduler (harness/c33.py, `LOOP_CORPUS`).

(a) two launcher hazards: the unlink-while-waiting inode hazard of the per-hash lock file when the installed
`filelock` lacks the `st_nlink` re-check (documentation of an assumption: `pyproject.toml` allows `filelock>=3.13`),
and the exit-time unlink of a worker removing its successor's socket (status: open).
-/
namespace VgiVerif.C33.Findings
open VgiVerif.C33 VgiVerif.Sched

namespace Loop
open VgiVerif.C33.Loop

def cfg3 : Cfg := ⟨some 3, 480, none⟩
def cfg6 : Cfg := ⟨some 6, 480, none⟩

/-- the spec monitor's verdict at the end of a label sequence (`none` = not a run of the model) -/
def verdict (sh : Shape) (cfg : Cfg) (ls : List Label) : Option Bool := ((ts sh cfg).run ls).map (·.mon.bad)

/-- defect 1 — `shutdown_requested` is not cleared on accept: connection 0 comes and goes, the idle timer (timer 1)
fires and decides at t = 3, connection 1 is accepted after the decision and is still being served when the next
accept timeout makes the loop leave -/
def staleFlag : List Label :=
  [.sockAccept 0, .register, .addActive, .spawn, .serveBegin 0, .serveEnd 0, .handlerEnd 0 true,
   .tick 3, .fire 1, .cbRead 1, .callback 1,
   .sockAccept 1, .register, .addActive, .spawn, .serveBegin 1,
   .tick 4, .acceptTimeout, .check true]

theorem pinned_exits_under_a_connection : verdict Shape.pinned cfg3 staleFlag = some true := by decide +kernel
/-- the second repair alone does not help -/
theorem only_stale_timer_fix_exits_under_a_connection : verdict ⟨false, .own, false⟩ cfg3 staleFlag = some true := by
  decide +kernel
/-- with the flag cleared on accept the loop cannot leave there: `check true` is not a step -/
theorem repaired_does_not_exit : verdict Shape.repaired cfg3 staleFlag = none := by decide +kernel
theorem repaired_continues :
    verdict Shape.repaired cfg3 (staleFlag.dropLast ++ [.check false]) = some false := by decide +kernel

/-- defect 2 — a stale timer callback: timer 1 fires at t = 6 but its callback has not got the lock yet; connection 1
is accepted (the cancel comes too late for timer 1), served and finished, its handler arms timer 2; now the stale
callback of timer 1 runs: it sets `timer = None` over timer 2 and, since `conn_count == 0`, requests shutdown — the
loop leaves 4 quanta after connection 1 finished although `idle_timeout` is 6 -/
def staleCallback : List Label :=
  [.sockAccept 0, .register, .addActive, .spawn, .serveBegin 0, .serveEnd 0, .handlerEnd 0 true,
   .tick 6, .fire 1,
   .sockAccept 1, .register, .addActive, .spawn, .serveBegin 1, .serveEnd 1, .handlerEnd 1 true,
   .cbRead 1, .callback 1,
   .tick 4, .acceptTimeout, .check true]

theorem pinned_exits_early : verdict Shape.pinned cfg6 staleCallback = some true := by decide +kernel
/-- the first repair alone does not help -/
theorem only_flag_fix_exits_early : verdict ⟨true, .none, false⟩ cfg6 staleCallback = some true := by decide +kernel
/-- the stale callback also discards the newer timer: `timer = None` although timer 2 is armed -/
theorem stale_callback_discards_timer :
    ((ts ⟨true, .none, false⟩ cfg6).run (staleCallback.take 18)).map (fun s => (s.timer, s.tstate 2)) = some (none, .armed) := by
  decide +kernel
/-- seeded change C33-7 — the identity test is there, but `fired` is the late-bound shared variable `timer`, read when timer 1's
thread gets to CALL its callback (`cbRead 1`): by then connection 1 has come and gone and `timer` is timer 2, so the stale
callback of timer 1 sees `timer is fired`, discards timer 2 and requests shutdown -/
theorem late_bound_identity_exits_early : verdict ⟨true, .late true, false⟩ cfg6 staleCallback = some true := by decide +kernel
theorem late_bound_identity_exits_early' : verdict ⟨true, .late false, false⟩ cfg6 staleCallback = some true := by
  decide +kernel
/-- had the argument been read at once (the thread is only delayed AFTER the read), the test would have worked: the very
window a late binding opens is the one between the timer firing and its callback being called -/
theorem late_bound_read_at_once_is_stale :
    ((ts ⟨true, .late true, false⟩ cfg6).run
      [.sockAccept 0, .register, .addActive, .spawn, .serveBegin 0, .serveEnd 0, .handlerEnd 0 true, .tick 6, .fire 1, .cbRead 1,
       .sockAccept 1, .register, .addActive, .spawn, .serveBegin 1, .serveEnd 1, .handlerEnd 1 true,
       .callback 1]).map (fun s => (s.timer, s.flag)) = some (some 2, false) := by decide +kernel
theorem repaired_ignores_stale_callback : verdict Shape.repaired cfg6 staleCallback = none := by decide +kernel
theorem repaired_keeps_timer :
    ((ts Shape.repaired cfg6).run (staleCallback.take 18)).map (fun s => (s.timer, s.flag)) = some (some 2, false) := by
  decide +kernel

/-- seeded change C33-4 — the connection is counted by its OWN thread (`regInHandler`), both repairs kept: connection 0 comes
and goes, timer 1 is due at t = 3; connection 1 is accepted at t = 3 and its thread is started but does not get to run; the
timer fires and its callback sees `conn_count == 0`; one accept timeout later the loop leaves although connection 1 was
accepted and nobody has served it yet (it is counted and served only afterwards) -/
def lateCount : List Label :=
  [.sockAccept 0, .addActive, .spawn, .hregister 0, .serveBegin 0, .serveEnd 0, .handlerEnd 0 true,
   .tick 3, .sockAccept 1, .addActive, .spawn, .fire 1, .cbRead 1, .callback 1,
   .tick 4, .acceptTimeout, .check true,
   .hregister 1, .serveBegin 1]

theorem handler_side_count_exits_under_a_connection :
    verdict ⟨true, .own, true⟩ cfg3 lateCount = some true := by decide +kernel
/-- the counting section in the accept loop is not a step of that shape, and vice versa -/
theorem handler_side_count_has_no_loop_register :
    verdict ⟨true, .own, true⟩ cfg3 [.sockAccept 0, .register] = none ∧
    verdict Shape.repaired cfg3 [.sockAccept 0, .addActive] = none ∧
    verdict Shape.repaired cfg3 [.sockAccept 0, .register, .addActive, .spawn, .hregister 0] = none := by decide +kernel
/-- in the repaired shape the same arrival is harmless: the loop counts the connection (and clears the flag) before the
thread exists, however late the thread runs -/
theorem loop_side_count_survives_late_thread :
    verdict Shape.repaired cfg3
      [.sockAccept 0, .register, .addActive, .spawn, .serveBegin 0, .serveEnd 0, .handlerEnd 0 true,
       .tick 3, .sockAccept 1, .fire 1, .cbRead 1, .callback 1, .register, .addActive, .spawn,
       .tick 4, .acceptTimeout, .check false, .tick 4, .acceptTimeout, .check false, .serveBegin 1] = some false := by
  decide +kernel

end Loop

namespace Launch
open VgiVerif.C33.Launch

/-- (clobbered, a worker was spawned while another was alive, a launch returned a dead path, #accepting among workers 0..2) -/
def verdict (sh : LShape) (idle : Nat) (ls : List Label) : Option (Bool × Bool × Bool × Nat) :=
  ((ts sh idle).run ls).map fun s =>
    (s.clobbered, s.mon.badSpawn, s.mon.badRet, ([0, 1, 2].filter fun w => isAccepting (s.ws w)).length)

/-- the start-up of worker `w` spawned by launcher `t` in the extracted order (listen, then announce), up to `_spawn_worker` returning -/
def startUp (t : Tid) (w : Wid) : List Label :=
  [.spawn t w, .wCheck w true, .wClear w, .wBind w, .wListen w, .wAnnounce w, .spawnReady t]

/-- the unlink-while-waiting inode hazard.  A foreign launcher's GC (process 9) holds the endpoint's lock file (inode 0),
finds the endpoint stale and unlinks socket, meta and LOCK FILE; launcher 1 had opened the lock path before the unlink
(it waits on inode 0), launcher 2 opens it afterwards (fresh inode 1).  When the GC releases, both get "the" lock.
Without the `st_nlink` re-check both probe, both spawn. -/
def inodeHazard : List Label :=
  [.begin 9 .gc, .lockOpen 9, .lockFlock 9 true, .lockVerify 9 true, .probe 9 false, .gcUnlinkSock 9, .gcUnlinkMeta 9,
   .begin 1 .launch, .lockOpen 1,
   .gcUnlinkLock 9, .release 9,
   .lockFlock 1 true, .lockVerify 1 true,
   .begin 2 .launch, .lockOpen 2, .lockFlock 2 true, .lockVerify 2 true,
   .probe 1 false, .probe 2 false, .unlinkStale 1 true, .unlinkStale 2 true, .writeMeta 1, .writeMeta 2,
   .spawn 1 0, .spawn 2 1]

/-- with a `filelock` that lacks the re-check (allowed by `filelock>=3.13`): two worker processes, no clobbering involved -/
theorem no_nlink_check_double_spawn : verdict ⟨false, true, true⟩ 8 inodeHazard = some (false, true, false, 0) := by decide +kernel
/-- with the installed `filelock` the dead-inode lock is refused: `lockVerify 1 true` is not a step … -/
theorem nlink_check_refuses_dead_inode : verdict ⟨true, true, true⟩ 8 inodeHazard = none := by decide +kernel
/-- … launcher 1 drops the dead lock and polls again -/
theorem nlink_check_retries :
    ((ts ⟨true, true, true⟩ 8).run (inodeHazard.take 12 ++ [.lockVerify 1 false])).map (fun s => (s.pc 1, s.held 0)) =
      some (.opening .launch, none) := by decide +kernel

/-- OPEN — a worker's exit-time unlink removes its successor's socket (`serve_unix`'s `finally` →
`_unlink_bound_unix_socket`: `lstat`, compare identity, `unlink` are separate system calls).  Worker 0 idles out and has
compared the path's identity (its own) when launcher 2 — probe failed, stale socket unlinked — spawns worker 1 on the
same path; worker 0's `unlink` now removes worker 1's socket.  Launcher 2 returns a path that names nobody although
worker 1 is accepting, and launcher 3 (probe fails: no such file) spawns worker 2 while worker 1 is alive. -/
def exitUnlinkToctou : List Label :=
  [.begin 1 .launch, .lockOpen 1, .lockFlock 1 true, .lockVerify 1 true, .probe 1 false, .unlinkStale 1 true, .writeMeta 1] ++
  startUp 1 0 ++ [.release 1, .ret 1,
   .tick 8, .wExit 0, .wStat 0,
   .begin 2 .launch, .lockOpen 2, .lockFlock 2 true, .lockVerify 2 true, .probe 2 false, .unlinkStale 2 true, .writeMeta 2] ++
  startUp 2 1 ++ [.wUnlink 0,
   .release 2, .ret 2,
   .begin 3 .launch, .lockOpen 3, .lockFlock 3 true, .lockVerify 3 true, .probe 3 false, .unlinkStale 3 true, .writeMeta 3] ++
  startUp 3 2

theorem exit_unlink_clobbers_successor : verdict ⟨true, true, true⟩ 8 exitUnlinkToctou = some (true, true, true, 2) := by
  decide +kernel
/-- the full statements of `C33_single_spawn` / `C33_accepting` (without the `clobbered = false` hypothesis) are false of
the model of the code as it is -/
theorem full_statement_fails :
    ∃ s, (ts LShape.extracted 8).Reachable s ∧
      (Spec.LMon.run 8 s.hist).badSpawn = true ∧ (Spec.LMon.run 8 s.hist).badRet = true := by
  have h : ((ts LShape.extracted 8).run exitUnlinkToctou).isSome = true := by decide +kernel
  obtain ⟨s, hs⟩ := Option.isSome_iff_exists.1 h
  refine ⟨s, TS.reachable_of_run _ hs, ?_⟩
  have h2 : (((ts LShape.extracted 8).run exitUnlinkToctou).map fun s =>
      ((Spec.LMon.run 8 s.hist).badSpawn, (Spec.LMon.run 8 s.hist).badRet)) = some (true, true) := by decide +kernel
  rw [hs] at h2
  simpa using h2

/-- the same race seen from the successor: worker 1 has just bound when worker 0's late `unlink` removes its socket; worker 1's own
`os.lstat(path)` right after `bind` fails, the process dies, `_spawn_worker` (hence `launch`) raises — no path is returned, the
endpoint is left without a worker -/
theorem exit_unlink_kills_starting_successor :
    verdict ⟨true, true, true⟩ 8
      ([.begin 1 .launch, .lockOpen 1, .lockFlock 1 true, .lockVerify 1 true, .probe 1 false, .unlinkStale 1 true, .writeMeta 1] ++
       startUp 1 0 ++ [.release 1, .ret 1, .tick 8, .wExit 0, .wStat 0,
       .begin 2 .launch, .lockOpen 2, .lockFlock 2 true, .lockVerify 2 true, .probe 2 false, .unlinkStale 2 true, .writeMeta 2,
       .spawn 2 1, .wCheck 1 true, .wClear 1, .wBind 1, .wUnlink 0, .wLost 1, .spawnFail 2, .release 2, .raised 2]) =
      some (true, false, false, 0) := by decide +kernel
/-- without a clobbering the fresh socket cannot vanish: `wLost` of a bound worker is not a step -/
theorem bound_worker_not_lost_without_clobber :
    verdict ⟨true, true, true⟩ 8
      ([.begin 1 .launch, .lockOpen 1, .lockFlock 1 true, .lockVerify 1 true, .probe 1 false, .unlinkStale 1 true, .writeMeta 1,
        .spawn 1 0, .wCheck 0 true, .wClear 0, .wBind 0, .wLost 0]) = none := by decide +kernel

/-- seeded change C33-5 — `serve_unix` announces (`on_bound`) BEFORE it listens (`listenFirst = false`): worker 0 is bound and
has written its `UNIX:<path>` line; launcher 1's `_spawn_worker` returns on it and `launch` returns a path whose socket does
not listen yet (connect → ECONNREFUSED); launcher 2 gets the lock, its probe is refused, it unlinks the LIVE worker's socket
and creates worker 1 while worker 0 is alive; worker 0 then starts listening on its unlinked socket -/
def announceBeforeListen : List Label :=
  [.begin 1 .launch, .begin 2 .launch, .lockOpen 1, .lockFlock 1 true, .lockVerify 1 true, .probe 1 false, .unlinkStale 1 true,
   .writeMeta 1, .spawn 1 0, .wCheck 0 true, .wClear 0, .wBind 0, .wAnnounce 0, .spawnReady 1, .release 1, .ret 1,
   .lockOpen 2, .lockFlock 2 true, .lockVerify 2 true, .probe 2 false, .unlinkStale 2 true, .writeMeta 2, .spawn 2 1,
   .wListen 0]

theorem announce_first_breaks_both_halves :
    verdict ⟨true, false, true⟩ 8 announceBeforeListen = some (false, true, true, 1) := by decide +kernel
/-- in the extracted order the announcement cannot come before `listen()` -/
theorem listen_first_refuses : verdict ⟨true, true, true⟩ 8 announceBeforeListen = none := by decide +kernel
theorem listen_first_refuses_at :
    (ts ⟨true, true, true⟩ 8).rejectIndex announceBeforeListen = some 12 := by decide +kernel

/-- seeded change C33-8 — the lock of an explicit-socket launch is derived from the path STRING (`lockBySocket = false`): launcher 1
(spelling `s/x.sock`) and launcher 2 (spelling `link/x.sock`, `link → s`) each get "the" lock on their own file, both probe
(nothing yet), both unlink, both create a worker for the one socket; worker 1 removes worker 0's fresh socket and binds -/
def aliasedLocks : List Label :=
  [.begin 1 .launch, .begin 2 .launch, .lockOpen 1, .lockOpen 2, .lockFlock 1 true, .lockVerify 1 true,
   .lockFlock 2 true, .lockVerify 2 true,
   .probe 1 false, .probe 2 false, .unlinkStale 1 true, .unlinkStale 2 true, .writeMeta 1, .writeMeta 2,
   .spawn 1 0, .spawn 2 1]

theorem string_keyed_lock_double_spawn : verdict ⟨true, true, false⟩ 8 aliasedLocks = some (false, true, false, 0) := by
  decide +kernel
/-- with the lock keyed by the socket the second launcher's flock fails: it waits -/
theorem socket_keyed_lock_excludes : verdict ⟨true, true, true⟩ 8 aliasedLocks = none := by decide +kernel
theorem socket_keyed_lock_excludes_at : (ts ⟨true, true, true⟩ 8).rejectIndex aliasedLocks = some 6 := by decide +kernel

end Launch

end VgiVerif.C33.Findings
