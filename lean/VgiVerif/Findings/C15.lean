import VgiVerif.Model.C15
import VgiVerif.Spec.C15
/-
C15 findings — NOT obligations.  The model is parametric in the extracted tables; `pinned` is what the extractor
emitted for the tree before the three `fix:` commits.  On those tables the property fails on the witnesses below
(each reproduced against the real code first), which is why the model's theorems are stated over the tables of the
*working* tree: `Proofs/C15` goes through for the repaired source and would break again if a repair were undone.
-/
namespace VgiVerif.C15.Findings
open VgiVerif.HttpReq VgiVerif.C15 VgiVerif.C15.Spec

def pinnedParse500 : ParseExc → Option Nat
  | .arrowInvalid | .stopIteration => some 400
  | _ => some 500            -- fell through to `except Exception` → 500

def pinnedExchangeParse : ParseExc → Option Nat
  | .arrowInvalid => some 400
  | _ => none                -- `except pa.ArrowInvalid` only: everything else escaped

/-- pinned: `except (KeyError, ValueError)` around `_deserialize_params`; anything else fell to `except Exception` -/
def pinnedDeser : DeserExc → Option Nat
  | .keyError | .valueError | .arrowInvalid | .typeError | .stopIteration => some 400
  | _ => some 500

/-- tables of the pinned tree (before the fixes) -/
def pinned : Tables :=
  { VgiVerif.Gen.HttpStatus.tables with
    unaryParse := pinnedParse500
    initParse := pinnedParse500
    exchangeParse := pinnedExchangeParse
    uploadParse := pinnedParse500
    unaryDeser := pinnedDeser
    initDeser := pinnedDeser
    readWrapsBatchValidation := false
    readWrapsKwargs := false
    readWrapsEmptyStream := false
    sizeCap := ⟨413, .falcon⟩
    encBomb := ⟨413, .falcon⟩
    encCorrupt := ⟨400, .falcon⟩
    coerce := fun _ => some 500 }

/-- `/exchange` with an IPC stream that has no batch: unhandled `StopIteration` → 500 with a JSON body -/
def zeroBatchExchange : Req := ⟨.exchange, .producer, .parseFail .stopIteration, .correct, .none, .within, .ok, .valid, .ok⟩
example : (respondWith pinned zeroBatchExchange) = ⟨500, false, false, false⟩ := by rfl
example : ¬ (respondWith pinned zeroBatchExchange).status < 500 := by decide
example : specStatus zeroBatchExchange = 400 := by rfl

/-- a corrupted flatbuffer (`OSError`) on the unary route: 200 + marker although nothing was dispatched -/
def corruptUnary : Req := ⟨.unary, .unary, .parseFail .osError, .correct, .none, .within, .ok, .valid, .ok⟩
example : (respondWith pinned corruptUnary) = ⟨200, true, true, false⟩ := by rfl
example : ¬ MarkerOk corruptUnary (respondWith pinned corruptUnary).marker := by decide
example : ¬ Allowed corruptUnary (respondWith pinned corruptUnary).status := by decide

/-- an oversize body: 413 whose body is Falcon's JSON page -/
def oversize : Req := ⟨.unary, .unary, .valid, .correct, .none, .oversize, .ok, .valid, .ok⟩
example : (respondWith pinned oversize) = ⟨413, false, false, false⟩ := by rfl
example : ¬ BodyOk (respondWith pinned oversize).status (respondWith pinned oversize).arrow := by decide

/-- a body that does not decompress: 400 whose body is Falcon's JSON page -/
def undecodable : Req := ⟨.unary, .unary, .valid, .correct, .corrupt, .within, .ok, .valid, .ok⟩
example : ¬ BodyOk (respondWith pinned undecodable).status (respondWith pinned undecodable).arrow := by decide

/-- an /exchange input batch that does not fit the input schema: 200 + marker although `process()` never ran -/
def badInput : Req := ⟨.exchange, .exchanger, .badParams .mismatch, .correct, .none, .within, .ok, .valid, .ok⟩
example : (respondWith pinned badInput) = ⟨200, true, true, false⟩ := by rfl
example : ¬ MarkerOk badInput (respondWith pinned badInput).marker := by decide

/-- on the repaired tables every one of them is answered as the property demands -/
example : (respond zeroBatchExchange, respond corruptUnary, respond oversize, respond undecodable, respond badInput)
    = (⟨400, false, true, false⟩, ⟨400, false, true, false⟩, ⟨413, false, true, false⟩, ⟨400, false, true, false⟩,
       ⟨400, false, true, false⟩) := by rfl

end VgiVerif.C15.Findings
