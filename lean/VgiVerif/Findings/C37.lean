import VgiVerif.Model.C37
import VgiVerif.Spec.C37
/-
C37 findings — the defects of the tree *before* the `fix:` commit, as Lean-checked facts about the `pinned` shape of the
model (not obligations: they document what was wrong; the obligations in Proofs/C37.lean are about the shape the source
has now).  Each witness: the pinned validator accepts the input, and the WHATWG model resolves the resulting `Location`
somewhere the property forbids.
-/
namespace VgiVerif.C37.Findings
open VgiVerif.UrlPy VgiVerif.UrlWhatwg VgiVerif.C37

deriving instance DecidableEq for Except

def env : Env := ⟨fun _ => true, fun _ => true⟩
/-- the URL of the callback request: `https://svc.example/_oauth/callback?code=c` -/
def base : Url := ⟨"https".toList, [], [], .domain "svc.example".toList, none, ["_oauth".toList, "callback".toList], some "code=c".toList, none⟩
def allow : List Str := Gen.Pkce.defaultAllowedReturnOrigins

def hostOf (r : Result) : Option Host := match r with | .ok u => some u.host | _ => none
def portOf (r : Result) : Option (Option Nat) := match r with | .ok u => some u.port | _ => none
def pathOf (r : Result) : Option Str := match r with | .ok u => some (pathString u) | _ => none

/-- 1. backslash before `@`: Python sees userinfo `evil.com\` and host `cupola…`, the browser sees host `evil.com` -/
def w1 : Str := "https://evil.com\\@cupola.query-farm.services/".toList
theorem w1_accepted : validateReturnToPinned env w1 allow = .ok w1 := by decide
theorem w1_browser_host : hostOf (parse base (redirectTarget w1 "token=SECRET".toList)) = some (.domain "evil.com".toList) := by decide
theorem w1_allowlisted_host : hostOf (parse base "https://cupola.query-farm.services".toList) = some (.domain "cupola.query-farm.services".toList) := by decide

/-- 2. the port of an allow-listed host is ignored -/
def w2 : Str := "https://cupola.query-farm.services:8443/x".toList
theorem w2_accepted : validateReturnToPinned env w2 allow = .ok w2 := by decide
theorem w2_browser_port : portOf (parse base (redirectTarget w2 "token=SECRET".toList)) = some (some 8443) := by decide
theorem w2_allowlisted_port : portOf (parse base "https://cupola.query-farm.services".toList) = some none := by decide

/-- 3. request path `/%5Cevil.com` (decoded by the WSGI layer), prefix "": `Location: /\evil.com` is scheme-relative -/
def w3 : Str := "/\\evil.com".toList
theorem w3_accepted : validateOriginalUrlPinned env w3 [] = .ok w3 := by decide
theorem w3_browser_host : hostOf (parse base w3) = some (.domain "evil.com".toList) := by decide

/-- 3b. same class: three slashes -/
def w3b : Str := "///evil.com".toList
theorem w3b_accepted : validateOriginalUrlPinned env w3b [] = .ok w3b := by decide
theorem w3b_browser_host : hostOf (parse base w3b) = some (.domain "evil.com".toList) := by decide

/-- 4. dot segments leave the prefix (same origin) -/
def w4 : Str := "/vgi/../../x".toList
theorem w4_accepted : validateOriginalUrlPinned env w4 "/vgi".toList = .ok w4 := by decide
theorem w4_browser_path : pathOf (parse base w4) = some "/x".toList := by decide

/-- 5. a return-to the browser cannot parse at all (`:abc` port) was accepted; surrounding whitespace as well -/
theorem w5_accepted : validateReturnToPinned env "https://cupola.query-farm.services:abc/".toList allow
    = .ok "https://cupola.query-farm.services:abc/".toList := by decide
theorem w5_browser : parse base "https://cupola.query-farm.services:abc/#token=S".toList = .failure := by decide

/-- the repaired validators refuse all of them -/
theorem repaired_refuses :
    validateReturnToRepaired env w1 allow = .ok [] ∧ validateReturnToRepaired env w2 allow = .ok [] ∧
    validateOriginalUrlRepaired env w3 [] = .ok ['/'] ∧ validateOriginalUrlRepaired env w3b [] = .ok ['/'] ∧
    validateOriginalUrlRepaired env w4 "/vgi".toList = .ok "/vgi".toList := by decide

/-- (seeded change C37-6, never in the tree) with the `X or DEFAULT` shape of the defaulting an explicitly empty
allow-list would silently become the built-in default -/
theorem truthy_defaulting_ignores_empty :
    effectiveAllowWith .truthy (some []) = Gen.Pkce.defaultAllowedReturnOrigins ∧ Gen.Pkce.defaultAllowedReturnOrigins ≠ [] := by
  decide

end VgiVerif.C37.Findings
