import VgiVerif.Lemmas.Token
/-
C12 — negation witnesses for the *pinned* tree (documentation of the defects; NOT obligations — the repaired tree
must not fail because a counter-example stopped existing).

1. non-canonical base64: with the lax decode (`strictB64 = false`, the pinned `_open_*_token`) a text that is not
   byte-identical to any minted token is accepted, as soon as base64 has a second spelling of the same envelope
   (`b64decode(validate=True)` ignores the unused low bits of the last quantum).
2. per-check messages: with the pinned raise sites the responses of two token checks differ.
-/
namespace VgiVerif.C12.Findings
open VgiVerif.Token

def z : Zstd := ⟨fun p => p, fun p => some p⟩
def body : CallBody := ⟨[], [], [1], [2], [3]⟩
def km : CallMint := ⟨.anonymous, "gen".toList, List.replicate 16 7, 100, body, 0⟩
def cm : CursorMint := ⟨.anonymous, "gen".toList, List.replicate 16 7, 100, [9, 9], 1⟩
/-- base64 with two spellings of the minted envelope: `[65]` (canonical, what the server emitted) and `[66]` -/
def E : Wire :=
  ⟨fun t => if t = cm.tok z 1 then [65] else [67],
   fun w => if w = [65] ∨ w = [66] then some (cm.tok z 1) else none⟩
def D : Decoders := ⟨fun _ => true, fun _ => true, fun _ => true⟩
def srv : Server := ⟨1, 3600⟩
def W : World :=
  { cursors := [cm] ++ World.empty.cursors, calls := km :: World.empty.calls,
    caches := (setCache World.empty 0 ((World.empty.caches 0).put km.callId (cacheIdent km.who)
      (cacheDeadline srv.ttl km.t 100, ⟨km.method, km.body⟩))).caches }
/-- the re-spelled token -/
def req : Req := ⟨.anonymous, "gen".toList, 150, [66], none⟩

def pinned : Shape := ⟨false, true⟩

theorem reachable : Reachable pinned E z D srv [] W := by
  refine Reachable.step Reachable.start (Step.init World.empty 0 km (some (100, [9, 9], 1)) 100 ?_ ?_ ?_)
  · have f : ∀ b : Bytes, b.length < 10 → fitsLen b := fun b h => by unfold fitsLen; tok_consts; omega
    refine ⟨by decide, by decide, ⟨f _ (by decide), f _ (by decide), f _ (by decide), f _ (by decide), f _ (by decide)⟩, trivial, ?_⟩
    exact nulFree_of_chars (by decide)
  · intro k hk; cases hk
  · intro c hc; cases hc; exact ⟨by decide, by unfold fitsLen; decide⟩

/-- the attacker only re-spells a token it was given -/
theorem known : ReqKnown E (W.toks pinned z srv.key) [] req := by
  refine ⟨?_, ?_⟩
  · intro t ht
    have : t = cm.tok z 1 := by
      simp only [E, req] at ht
      simpa using ht.symm
    subst this
    exact Known.minted (by simp [World.toks, W, srv])
  · intro c t hc; cases hc

/-- **pinned shape: a modified token is accepted** — `[66]` is no minted text, yet the request is served -/
theorem noncanonical_accepted :
    (∃ effs acc, recover pinned E z D srv (W.caches 0) req = (effs, .ok acc)) ∧
    (∀ c ∈ W.cursors, req.cursor ≠ E.enc (c.tok z srv.key)) := by
  refine ⟨⟨_, _, (by decide : recover pinned E z D srv (W.caches 0) req
      = ([.stateDecode, .bindCallState, .rehydrate], .ok ⟨[9, 9], List.replicate 16 7, ⟨"gen".toList, body⟩, true, 0⟩))⟩, ?_⟩
  intro c hc
  simp only [W, World.empty, List.append_nil, List.mem_singleton] at hc
  subst hc
  decide

/-- the same request on the repaired shape is rejected -/
theorem noncanonical_rejected_when_strict :
    recover ⟨true, true⟩ E z D srv (W.caches 0) req = ([], .reject .curB64) := by decide

/-- the raise sites of the pinned tree (as `extract/gen_c12.py` reads them from commit 8d20616) -/
def pinnedSites : List (String × String × String) := [
  ("_open_cursor_token#0", "Malformed state token", "BAD_REQUEST"),
  ("_open_cursor_token#1", "State token signature verification failed", "BAD_REQUEST"),
  ("_open_cursor_token#2", "Malformed state token", "BAD_REQUEST"),
  ("_open_cursor_token#3", "Malformed state token", "BAD_REQUEST"),
  ("_open_cursor_token#4", "State token expired", "BAD_REQUEST"),
  ("_open_call_token#0", "Malformed call token", "BAD_REQUEST"),
  ("_open_call_token#1", "Call token signature verification failed", "BAD_REQUEST"),
  ("_open_call_token#2", "Malformed call token", "BAD_REQUEST"),
  ("_open_call_token#3", "Malformed call token", "BAD_REQUEST"),
  ("_open_call_token#4", "Call token expired", "BAD_REQUEST"),
  ("_unpack_plaintext#0", "Malformed token payload", "BAD_REQUEST"),
  ("_unpack_plaintext#1", "Malformed token payload", "BAD_REQUEST"),
  ("_unpack_plaintext#2", "Malformed token payload", "BAD_REQUEST"),
  ("_resolve_call_from_token#1", "State token does not belong to the supplied call token", "BAD_REQUEST")]

/-- **pinned messages distinguish the failed check** (tampered vs. bad base64 vs. expired vs. other stream) -/
theorem pinned_messages_differ :
    responseIn pinnedSites .curSeal ≠ responseIn pinnedSites .curB64 ∧
    responseIn pinnedSites .curSeal ≠ responseIn pinnedSites .curExpired ∧
    responseIn pinnedSites .curSeal ≠ responseIn pinnedSites .pairing := by decide

end VgiVerif.C12.Findings
