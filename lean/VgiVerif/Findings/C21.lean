import VgiVerif.Model.C21
/-
C21 finding (fixed in the repo worktree: "fix: client 401 parser raised RecursionError on a deeply nested body").

On the pinned tree `_parse_unauthorized` guarded `json.loads` with `contextlib.suppress(ValueError)` only.  A 401 body
nested deeper than the interpreter recurses (`b"[" * 200000`) makes `json.loads` raise `RecursionError`, which is a
`RuntimeError`: with the pinned guard the model's parser lets it escape.  Not a gating obligation — it documents the
defect; the gating statement is `C21_client` / `C21_client_total_iff` over the guard extracted from the current source.
-/
namespace VgiVerif.C21.Findings

/-- the pinned guard -/
def pinnedSuppresses : List String := ["ValueError"]

/-- `json.loads(b"[" * 200000)` -/
def deepEnv : ClientEnv := ⟨fun _ => .raised .recursionError, fun bs => bs.map (fun b => Char.ofNat b.toNat)⟩

theorem pinned_parser_escapes :
    parseWith pinnedSuppresses deepEnv (List.replicate 200000 91) = .escaped .recursionError := by
  rfl

theorem pinned_parser_not_total :
    ¬ ∀ (E : ClientEnv) (content : List UInt8), ∃ r d h, parseWith pinnedSuppresses E content = .authErr r d h := by
  intro h
  obtain ⟨r, d, hh, hp⟩ := h deepEnv []
  cases hp

/-- the repaired guard on the same body -/
theorem repaired_parser_answers :
    ∃ d, parseWith ["ValueError", "RecursionError"] deepEnv [91, 91, 91] = .authErr .unauthorized d [] :=
  ⟨_, rfl⟩

end VgiVerif.C21.Findings
