import VgiVerif.Model.C26
import VgiVerif.Spec.C26
/-
C26 findings (all FIXED by "fix: sticky session close hook could run during, and calls could dispatch after, the
end of their session"): event sequences observed on the ORIGINAL `_sticky.py` under the deterministic scheduler.
Each is (a) a violation of the spec, found by its executable monitor, and (b) NOT a run of the model of the
repaired protocol: the model refuses the label at which the original code left the discipline.

Threads: 0 = reaper, 1 and 2 = request / DELETE threads, 90 = the harness thread that opened session 0.
-/
namespace VgiVerif.C26.Findings
open VgiVerif.C26 VgiVerif.C26.Spec VgiVerif.Sched

/-! ### (a) the observed event sequences violate the property -/

/-- reaper closed the session while request thread 1 was dispatching on it -/
def close_during_dispatch_reaper : List Ev :=
  [.dispatchBegin 1 0, .closeStart 0 0, .closeEnd 0 0, .dispatchEnd 1 0]
example : monitor close_during_dispatch_reaper = [.closeDuringDispatch 1 0] := by decide

/-- thread 1 looked the entry up, DELETE (thread 2) closed the session, thread 1 then took the lock and dispatched -/
def dispatch_after_close_delete : List Ev :=
  [.closeStart 2 0, .closeEnd 2 0, .dispatchBegin 1 0, .dispatchEnd 1 0]
example : monitor dispatch_after_close_delete = [.dispatchAfterClose 2 0] := by decide

/-- thread 1 called `close_session()` (which released the session lock first); thread 2 dispatched concurrently -/
def concurrent_dispatch_close_session : List Ev :=
  [.dispatchBegin 1 0, .dispatchBegin 2 0, .dispatchEnd 2 0, .closeStart 1 0, .closeEnd 1 0, .dispatchEnd 1 0]
example : monitor concurrent_dispatch_close_session = [.concurrentDispatch 1 0] := by decide

/-! ### (b) the corresponding label sequences are not runs of the repaired protocol -/

/-- session 0 (ttl 4) opened by thread 90 -/
def opened0 : List Label :=
  [.openBegin 90 4 true, .readClock 90 0, .allocSid 90 0, .regAcq 90, .regRel 90, .readClock 90 0, .openDone 90]

/-- request 1 is dispatching; the clock passes the TTL; the reaper pops the entry and — in the original code —
enters the close hook at once.  The model refuses that `closeStart`: the reaper must first take the entry lock,
which thread 1 holds. -/
def reaper_trace : List Label :=
  opened0 ++ [.reqBegin 1 0, .readClock 1 0, .regAcq 1, .regRel 1, .entAcq 1 0, .regAcq 1, .regRel 1,
    .dispatchBegin 1 0, .tick 5, .readClock 0 5, .regAcq 0, .regRel 0, .closeStart 0 0]
example : ts.accepts reaper_trace = false := by decide
example : ts.rejectIndex reaper_trace = some 19 := by decide
example : ts.accepts (reaper_trace.take 19) = true := by decide
/-- … and the entry lock is not available to the reaper either -/
example : ts.accepts (reaper_trace.take 19 ++ [.entAcq 0 0]) = false := by decide

/-- the lookup → acquire window: thread 1 has the entry (lookup done), DELETE closes the session, thread 1 takes the
lock.  In the model thread 1 must re-validate (`is_live`) and cannot begin to dispatch. -/
def window_trace : List Label :=
  opened0 ++ [.reqBegin 1 0, .readClock 1 0, .regAcq 1, .regRel 1,
    .delBegin 2 0, .readClock 2 0, .regAcq 2, .regRel 2, .entAcq 2 0, .regAcq 2, .regRel 2, .entAcq 2 0,
    .closeStart 2 0, .closeEnd 2 0, .entRel 2 0, .entRel 2 0,
    .entAcq 1 0, .dispatchBegin 1 0]
example : ts.accepts window_trace = false := by decide
example : ts.rejectIndex window_trace = some 24 := by decide
/-- what the repaired code does instead: re-validate, release, answer session_lost -/
example : ts.accepts (window_trace.take 24 ++ [.regAcq 1, .regRel 1, .entRel 1 0, .lost 1]) = true := by decide

/-! ### a bounded wait for the entry lock in `_close_entry` (seeded change C26-2) breaks the property

Not a defect of the tree: the model is parametrised by the extracted discipline (`Disc`); these are runs of the
model under the discipline "`entry.lock.acquire(timeout=5 s)`, then go on regardless" — what the theorems of
`Proofs/C26.lean` exclude through `timeoutDisabled`. -/

/-- request 1 dispatches on session 0 for more than the bound; shutdown (thread 2) pops the entry, its timed acquire
fails, and the close hook runs during the dispatch -/
def timed_trace : List Label :=
  opened0 ++ [.reqBegin 1 0, .readClock 1 0, .regAcq 1, .regRel 1, .entAcq 1 0, .regAcq 1, .regRel 1,
    .dispatchBegin 1 0, .shutBegin 2, .regAcq 2, .regRel 2, .tick 11, .entTimeout 2 0, .closeStart 2 0, .closeEnd 2 0,
    .mstep 1, .dispatchEnd 1 0, .entRel 1 0]
example : (tsD ⟨some 5000, true⟩).accepts timed_trace = true := by decide
example : monitor [.dispatchBegin 1 0, .closeStart 2 0, .closeEnd 2 0, .dispatchEnd 1 0] = [.closeDuringDispatch 1 0] := by decide
/-- the model of the source (blocking acquire) refuses the failing acquire -/
example : ts.rejectIndex timed_trace = some 19 := by decide
/-- "give up instead": the ended session is never closed (the run is at rest, the entry is gone, no hook ran) -/
example : ((tsD ⟨some 5000, false⟩).run (timed_trace.take 20 ++ [.mstep 1, .dispatchEnd 1 0, .entRel 1 0])).map
    (fun st => (st.live 0, st.cstart 0, decide (st.pc 1 = .idle), decide (st.pc 2 = .idle))) = some (false, 0, true, true) := by
  decide

end VgiVerif.C26.Findings
