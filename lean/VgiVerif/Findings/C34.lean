import VgiVerif.Model.C34
/-
C34 findings — all three repaired in the repository (one `fix:` commit each); kept here as kernel-checked witnesses that the
records the pinned tree wrote do NOT satisfy the schema / the property.  Not obligations.

1. empty exception text: `raise ValueError("")` — `_emit_access_log` stored `error_message` only when truthy, so the error
   record had no `error_message`; the schema requires a non-empty one for status=error.
2. 500-character cut on the HTTP paths (`_truncate_error_message`): a 2 000-character message was logged as its first 500
   characters although docs/access-log-spec.md §4.1/§5b say "No length cap … MUST NOT be truncated".
3. the `record_too_large` sentinel of a *stream* record dropped `stream_id`, which the schema requires for method_type=stream
   (and which is what ties the record to its stream).
-/
namespace VgiVerif.C34.Findings
open VgiVerif.C34

/-- an error record as the pinned tree wrote it for `ValueError("")` over a pipe -/
def emptyMessageRecord : Record :=
  { message := "P.m error".toList, serverId := ['s'], protocol := ['P'], protocolHash := List.replicate 64 '0',
    method := ['m'], methodType := .unary, principal := [], authDomain := [], authenticated := false, remoteAddr := [],
    status := .error, errorType := "ValueError".toList, errorMessage := none, cancelled := false, serverVersion := none,
    requestId := some ['r'], httpStatus := none, requestData := false, originalRequestBytes := true,
    truncated := some .payloadOmitted, streamId := none, claims := none, requestState := false, responseState := false,
    requestBytes := false, responseBytes := false, stats := true }

theorem emptyMessage_invalid : SchemaOk emptyMessageRecord = false := by decide

/-- the same record with the repaired fallback (the class name) is valid -/
theorem emptyMessage_repaired : SchemaOk { emptyMessageRecord with errorMessage := some "ValueError".toList } = true := by decide

/-- the pinned tree's cut: the first 500 characters of a 2 000-character message are not the message -/
theorem truncation_loses : (List.replicate 2000 'x').take 500 ≠ List.replicate 2000 'x' := by
  intro h
  have := congrArg List.length h
  rw [List.length_take, List.length_replicate] at this
  omega

/-- the sentinel the pinned tree wrote for a stream record: no `stream_id` -/
def streamSentinelWithoutId : Record :=
  { message := tooLargeStr, serverId := ['s'], protocol := ['P'], protocolHash := List.replicate 64 '0',
    method := ['m'], methodType := .stream, principal := [], authDomain := [], authenticated := false, remoteAddr := [],
    status := .ok, errorType := [], errorMessage := none, cancelled := false, serverVersion := none, requestId := none,
    httpStatus := none, requestData := false, originalRequestBytes := false, truncated := some .tooLarge, streamId := none,
    claims := none, requestState := false, responseState := false, requestBytes := false, responseBytes := false,
    stats := false }

theorem streamSentinel_invalid : SchemaOk streamSentinelWithoutId = false := by decide

theorem streamSentinel_repaired :
    SchemaOk { streamSentinelWithoutId with streamId := some (List.replicate 32 'a') } = true := by decide

end VgiVerif.C34.Findings
