import VgiVerif.Spec.C35
import VgiVerif.Model.C35
/-
C35 finding (fixed by "fix: claim redaction for access logs recurses into nested objects and arrays"):
on the pinned tree `redact_claims` was flat.  The model is parametric in the two extracted shape flags
(`Gen.C35.recurseMap`, `Gen.C35.recurseSeq`); this file instantiates the same definition with both flags `false`
(the pinned shape) and proves the negation of the property on the DESIGN §7.1 witness.  Not an obligation.
-/
namespace VgiVerif.C35.Findings
open VgiVerif.ClaimTree VgiVerif.C35

mutual
/-- `redactV` with the shape flags as parameters -/
def redactVW (rm rs : Bool) : Json → Json
  | .atom a => .atom a
  | .arr xs => if rs then .arr (redactLW rm rs xs) else .arr xs
  | .obj kvs => if rm then .obj (redactOW rm rs kvs) else .obj kvs
def redactLW (rm rs : Bool) : JList → JList
  | .nil => .nil
  | .cons h t => .cons (redactVW rm rs h) (redactLW rm rs t)
def redactOW (rm rs : Bool) : JObj → JObj
  | .nil => .nil
  | .cons k v t => .cons k (if sensitive k then placeholder else redactVW rm rs v) (redactOW rm rs t)
end

/-! the model *is* this definition at the extracted flags -/
mutual
theorem redactV_eq : ∀ j : Json, redactV j = redactVW Gen.C35.recurseMap Gen.C35.recurseSeq j
  | .atom _ => by simp [redactV, redactVW]
  | .arr xs => by simp [redactV, redactVW, redactL_eq xs]
  | .obj kvs => by simp [redactV, redactVW, redactO_eq kvs]
theorem redactL_eq : ∀ xs : JList, redactL xs = redactLW Gen.C35.recurseMap Gen.C35.recurseSeq xs
  | .nil => by simp [redactL, redactLW]
  | .cons h t => by simp [redactL, redactLW, redactV_eq h, redactL_eq t]
theorem redactO_eq : ∀ kvs : JObj, redactO kvs = redactOW Gen.C35.recurseMap Gen.C35.recurseSeq kvs
  | .nil => by simp [redactO, redactOW]
  | .cons k v t => by simp [redactO, redactOW, redactV_eq v, redactO_eq t]
end

/-- `{"ctx": {"email": "a@b"}, "l": [{"password": "p"}]}` -/
def witness : JObj :=
  .cons "ctx".toList (.obj (.cons "email".toList (.atom (.str "a@b".toList)) .nil))
  (.cons "l".toList (.arr (.cons (.obj (.cons "password".toList (.atom (.str "p".toList)) .nil)) .nil)) .nil)

/-- the flat (pinned) shape logs the nested e-mail address verbatim … -/
theorem flat_logs_nested_value :
    (Json.obj (redactOW false false witness)).get [.key "ctx".toList, .key "email".toList]
      = some (.atom (.str "a@b".toList)) := by rfl

/-- … and the value inside the array too -/
theorem flat_logs_value_in_array :
    (Json.obj (redactOW false false witness)).get [.key "l".toList, .idx 0, .key "password".toList]
      = some (.atom (.str "p".toList)) := by rfl

/-- so the property is false of the pinned shape -/
theorem flat_violates_C35 :
    ¬ Spec.RedactedAtEveryDepth sensitive placeholder (.obj witness) (.obj (redactOW false false witness)) := by
  intro h
  have hs : sensitive "email".toList = true := by decide
  rcases h [.key "ctx".toList] "email".toList (.atom (.str "a@b".toList)) hs (by rfl) with h1 | ⟨_, _, _, _, _, h2⟩
  · rw [show ([Step.key "ctx".toList] ++ [Step.key "email".toList]) = [.key "ctx".toList, .key "email".toList] from rfl,
      flat_logs_nested_value] at h1
    simp [placeholder] at h1
    exact absurd h1 (by decide)
  · rw [show ([Step.key "ctx".toList] ++ [Step.key "email".toList]) = [.key "ctx".toList, .key "email".toList] from rfl,
      flat_logs_nested_value] at h2
    simp at h2

/-- while the repaired shape redacts it -/
theorem repaired_redacts_witness :
    (Json.obj (redactOW true true witness)).get [.key "ctx".toList, .key "email".toList] = some placeholder := by rfl

end VgiVerif.C35.Findings
