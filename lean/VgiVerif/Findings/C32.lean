import VgiVerif.Model.C32
/-
C32 findings: the three defects of the pinned tree, as runs of the model of the code BEFORE the repairs (`Cfg.legacy`).
All three were reproduced on the real code first (harness/c32.py against the unrepaired tree) and are repaired by
`fix:` commits; the obligations in `Proofs/C32.lean` are about the repaired code (`Cfg.ofGen`).  Not obligations.
-/
namespace VgiVerif.C32.Findings
open VgiVerif.Sched VgiVerif.C32

/-- the events of one borrower thread `t` that spawns worker `w` for key 0 and receives it -/
def spawnGet (t : Tid) (w : Wid) : List Label :=
  [.connect t 0, .rdClosed t false, .acq t, .rel t, .spawn t w 0, .acq t, .rel t, .got t w]

/-- a live, not-abandoned worker goes back into the dict (legacy code: always through the clock read) -/
def putBack (t : Tid) (w : Wid) (sy : Bool) : List Label :=
  [.ret t w false sy, .poll t w true, .acq t, .rdClosed t false, .clock t 0, .rel t, .done t]

/-- borrower `t` is handed idle worker `w` -/
def reuse (t : Tid) (w : Wid) : List Label :=
  [.connect t 0, .rdClosed t false, .acq t, .poll t w true, .rel t]

/-- **`max_idle = 0` kept one idle worker**: `total_idle >= 0` holds, there is nothing to evict, the worker is appended -/
theorem legacy_max_idle_zero :
    ∃ s, (ts (Cfg.legacy 0 4)).run (spawnGet 1 0 ++ putBack 1 0 true) = some s ∧ total s.idle = 1 ∧ ¬ total s.idle ≤ 0 := by
  refine ⟨_, rfl, ?_, ?_⟩ <;> decide

/-- **a session closed without reaching its end-of-stream marker counted as cleanly closed** (`exchange()` refusing a batch
of another schema, or `on_log` raising during the drain of `close()` / `cancel()`): the worker is re-lent with its
connection in the middle of a stream -/
theorem legacy_dirty_close_relent :
    ∃ s, (ts (Cfg.legacy 1 4)).run
        (spawnGet 1 0 ++ [.use 1 .openOk { opened := true, sess := .open }, .use 1 .endDirty { opened := true, sess := .dirty }]
          ++ putBack 1 0 false ++ reuse 2 0) = some s ∧
      s.pc 2 = .bGot 0 ∧ (s.ws 0).synced = false := by
  refine ⟨_, rfl, ?_, ?_⟩ <;> decide

/-- **a stream left open behind a later, cleanly closed one was not noticed** (only the last session is tracked) -/
theorem legacy_overlapped_stream_relent :
    ∃ s, (ts (Cfg.legacy 1 4)).run
        (spawnGet 1 0 ++ [.use 1 .openOk { opened := true, sess := .open },
                          .use 1 .openOk { opened := true, leaked := true, sess := .open },
                          .use 1 .endOk { opened := true, leaked := true, sess := .drained }]
          ++ putBack 1 0 false ++ reuse 2 0) = some s ∧
      s.pc 2 = .bGot 0 ∧ (s.ws 0).synced = false := by
  refine ⟨_, rfl, ?_, ?_⟩ <;> decide

/-- **a borrow cut short by `KeyboardInterrupt`** (raised from `on_log` in the middle of a unary response, or anywhere
else) went back to the pool like any other -/
theorem legacy_interrupt_relent :
    ∃ s, (ts (Cfg.legacy 1 4)).run
        (spawnGet 1 0 ++ [.use 1 .interrupt { interrupted := true }] ++ putBack 1 0 false ++ reuse 2 0) = some s ∧
      s.pc 2 = .bGot 0 ∧ (s.ws 0).synced = false := by
  refine ⟨_, rfl, ?_, ?_⟩ <;> decide

/-- the repaired rule refuses all three runs: the same events are not a run of the repaired model -/
example : (ts (Cfg.ofGen 0 4)).accepts (spawnGet 1 0 ++ putBack 1 0 true) = false := by decide
example : (ts (Cfg.ofGen 1 4)).accepts
    (spawnGet 1 0 ++ [.use 1 .openOk { opened := true, sess := .open }, .use 1 .endDirty { opened := true, sess := .dirty }]
      ++ putBack 1 0 false) = false := by decide

end VgiVerif.C32.Findings
