import VgiVerif.Model.C24
import VgiVerif.Spec.C24
/-
C24 finding (fixed in the tree under test): `require_all(gate)` with no inner authenticator and a gate that let
the request through unverified (proxy-proof `allow` mode, no valid proof).  The pinned tree had no
`claims.get("verified") == "false"` guard (`anon = false`): the request was handed to the method as
`AuthContext(domain="vgi_proxy_proof", authenticated=True, principal="")`.
Not an obligation: documents the deviating shape and that the repaired shape does not deviate.
-/
namespace VgiVerif.C24.Findings
open VgiVerif.PP VgiVerif.Auth

def unverified : Claims :=
  [("verified".toList, "false".toList), ("proxy".toList, []), ("kid".toList, []), ("origin_id".toList, "w".toList),
   ("reason".toList, "no_proof".toList)]

def g : Gate := { name := "vgi_proxy_proof".toList, claimsKey := "vgi_proxy_proof".toList, res := .claims unverified }

/-- the gate did not verify the request … -/
theorem gate_unverified : Spec.gatePassedUnverified g := ⟨unverified, rfl, rfl⟩

/-- … yet the pinned shape reports an authenticated caller (and AND semantics fails) -/
theorem pinned_shape_authenticates :
    (requireAllWith false "verified".toList "false".toList true g none).out
      = .ok { domain := some "vgi_proxy_proof".toList, authenticated := true, principal := some [],
              claims := [("vgi_proxy_proof".toList, .map unverified)] } := rfl

theorem pinned_shape_not_anonymous :
    ¬ Spec.sameUpToAttribution g.claimsKey
        (requireAllWith false "verified".toList "false".toList true g none).out (Spec.withoutGate none) := by
  rw [pinned_shape_authenticates]
  intro h
  exact absurd h.1 (by decide)

/-- the repaired shape hands over the anonymous context plus the attribution entry -/
theorem repaired_shape_anonymous :
    (requireAllWith true "verified".toList "false".toList true g none).out
      = .ok { domain := none, authenticated := false, principal := none,
              claims := [("vgi_proxy_proof".toList, .map unverified)] } := rfl

end VgiVerif.C24.Findings
