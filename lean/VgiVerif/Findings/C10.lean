import VgiVerif.Spec.C10
/-
C10 finding (fixed in the code under test, commit "fix: HTTP producer iterator kept following continuation tokens after
cancel()"): witness that the property fails for the code as it was — the same op machine with `chk := false`, i.e.
`HttpStreamSession.__iter__` not re-checking `_finished` before it follows a continuation token.

Program: a producer emitting three batches, no response cap (the server breaks after every batch).
Ops: next, next (the iterator is now suspended inside a continuation response that ends with a token), cancel, next.
With the check the last `next` ends the iteration and the server log stays as it was when the cancel was served;
without it the iterator follows the token and the server runs `process` again — after `on_cancel`.
Not an obligation.
-/
namespace VgiVerif.C10.Findings
open VgiVerif.Engine VgiVerif.C10 VgiVerif.C10.HttpM

def emitStep (i : Nat) : Step := ⟨[], .emit ⟨i, 1, []⟩, []⟩
def prog : Prog := ⟨[], [emitStep 1, emitStep 2, emitStep 3]⟩
def method : Method := ⟨prog, none, [], none⟩
def cfg (chk : Bool) : Cfg := { env := ⟨fun _ _ _ => none⟩, brk := fun _ => true, chk := chk }
def ops : List Op := [.next, .next, .cancel, .next]

def slogAfter (chk : Bool) : List SEv :=
  match openS (cfg chk) method with
  | (_, some s0) => (run (cfg chk) prog s0 ops).1.slog
  | _ => []

/-- as built before the repair: `process` #2 runs after `on_cancel` -/
theorem witness_unfixed :
    slogAfter false = [.process 0 [], .process 1 [], .onCancel 1, .process 2 []] := by
  simp [slogAfter, openS, method, initBody, prog, Prog.isProducer, sinkLogs, logItems, Http.turn, processStep, emitStep, cfg,
    Http.parseInit, session, turnLog, ops, run, step, next, afterPending, afterPendingEnd, pull, fuel, serve, cancel,
    post, rep]

/-- as repaired: nothing follows `on_cancel` -/
theorem witness_fixed :
    slogAfter true = [.process 0 [], .process 1 [], .onCancel 1] := by
  simp [slogAfter, openS, method, initBody, prog, Prog.isProducer, sinkLogs, logItems, Http.turn, processStep, emitStep, cfg,
    Http.parseInit, session, turnLog, ops, run, step, next, afterPending, afterPendingEnd, pull, fuel, serve, cancel,
    post, rep]

/-! ### second seeded variant: `cancel()` sent through `_post_with_retry`

Same program; ops: next, cancel.  The network loses the answer to the cancel request (POST number 1; `/init` is number 0)
after the server served it; the client has a retry budget of one.  With a bare POST the hook runs once; with the retried
POST the stateless server serves the cancel request twice and `on_cancel` runs twice. -/

def lossy (retryCancel : Bool) : Cfg :=
  { env := ⟨fun _ _ _ => none⟩, brk := fun _ => true, chk := true, lost := fun r => r == 1, retries := some 1,
    retryCancel := retryCancel }

def slogCancel (retryCancel : Bool) : List SEv :=
  match openS (lossy retryCancel) method with
  | (_, some s0) => (run (lossy retryCancel) prog s0 [.next, .cancel]).1.slog
  | _ => []

theorem witness_cancel_retried : slogCancel true = [.process 0 [], .onCancel 1, .onCancel 1] := by
  simp [slogCancel, openS, method, initBody, prog, Prog.isProducer, sinkLogs, logItems, Http.turn, processStep, emitStep,
    lossy, Http.parseInit, session, turnLog, run, step, next, afterPending, cancel, post, rep, attempts]

theorem witness_cancel_bare : slogCancel false = [.process 0 [], .onCancel 1] := by
  simp [slogCancel, openS, method, initBody, prog, Prog.isProducer, sinkLogs, logItems, Http.turn, processStep, emitStep,
    lossy, Http.parseInit, session, turnLog, run, step, next, afterPending, cancel, post, rep, attempts]

/-! ### third seeded variant: `emit()` refusing a collector on which `finish()` was already called

A step that calls `finish()` and then `emit(b)`: as built it amounts to emit+finish (the batch is delivered, the stream
ends); with the extra guard the call fails and the batch is dropped. -/

theorem witness_finish_then_emit_as_built :
    normalizeWith true false [.finish, .emit ⟨2, 1, []⟩] = ⟨[], .emitFinish ⟨2, 1, []⟩, []⟩ := rfl

theorem witness_finish_then_emit_guarded :
    normalizeWith true true [.finish, .emit ⟨2, 1, []⟩] = ⟨[], .raise emitAfterFinishExn, []⟩ := rfl

end VgiVerif.C10.Findings
