import VgiVerif.Proofs.C06
/-
C06 — defects found on the pinned tree and repaired in the repo worktree (documentation, not obligations).

The model is parametric in the extracted handler shapes, so the *pinned* shapes can be written down here and the
property refuted on them:

1. `_read_request` had no handler around `as_py()` (`readWrap = []`): the `OverflowError` of a timestamp beyond datetime's
   range left `_read_request` as itself; on the socket family nothing catches it (`escaped`, no reply), over HTTP the
   generic `except Exception` answers 500 → `200 + X-VGI-RPC-Error`.
2. `_read_request` had no handler around the validating batch read (`readValidationWrap = []`): same for `IPCError`.
3. the HTTP sites rewrapped only `(KeyError, ValueError)` from `_deserialize_params`: an `OverflowError` raised while a
   nested dataclass blob is decoded skipped that handler and met `except Exception → 500`.
-/
namespace VgiVerif.C06.Findings
open VgiVerif.Gen.Validate VgiVerif.C06

/-- an `OverflowError`: an `Exception`, none of the classes any `except` clause lists -/
def overflowError : Exn := ⟨"OverflowError".toList, [.Exception]⟩
/-- `IPCError` as it was on the pinned tree: an `Exception` that no `except` clause named -/
def pinnedIpcError : Exn := ⟨"IPCError".toList, [.Exception]⟩

def tsRequest : Request := ⟨[⟨"a".toList, "timestamp[s]".toList, false, .unreadable overflowError⟩], 1, true, none⟩

/-- the big `try` of the HTTP sites on the pinned tree, as seen by an exception that is an instance of none of the
classes of its 400 tuple (`ArrowInvalid, TypeError, StopIteration, RpcError, VersionError`): that clause is skipped -/
def pinnedHttpTry : List Handler := [⟨[], .status 400⟩, ⟨[.Exception], .status 500⟩]
/-- `serve_one`'s `try` around `_read_request` on the pinned tree, seen the same way (`ArrowInvalid` / `VersionError, RpcError`) -/
def pinnedPipeReadTry : List Handler := [⟨[], .streamReraise⟩, ⟨[], .streamReturn⟩]

/-- pinned `_read_request` (no handler around `as_py()`): the conversion error is raised as it is … -/
example : readRequestWith readValidationWrap [] tsRequest = .error (overflowError, .noPythonValue "a".toList) := by rfl
/-- … escapes `serve_one` on the socket family (no reply is written) … -/
example : (propagate overflowError [pinnedPipeReadTry]).1 = .escaped := by decide
/-- … and is answered as a server-side failure over HTTP -/
example : (propagate overflowError [pinnedHttpTry]).1 = .http 200 true := by decide
/-- repaired: it is the framework's `RpcError`, i.e. 400 / error stream (`Aux.wire_read`) -/
example : readRequest tsRequest = .error (rpcError, .noPythonValue "a".toList) := by rfl

/-- pinned (no handler around the validating read): an invalid batch raises `IPCError`, which escapes / is a 200+marker -/
example : readRequestWith [] readWrap ⟨[], 1, false, none⟩ = .error (ipcError, .invalidBatch) := by rfl
example : (propagate pinnedIpcError [pinnedPipeReadTry]).1 = .escaped := by decide
example : (propagate pinnedIpcError [pinnedHttpTry]).1 = .http 200 true := by decide

/-- the `try` chain of the deserialise step at the HTTP sites as it was on the pinned tree: the inner handler listed
`(KeyError, ValueError)` — classes an `OverflowError` is not an instance of, so that level is skipped -/
def pinnedDeserChain : List (List Handler) := [[⟨[], .rewrapTypeError⟩], pinnedHttpTry]

example : (propagate overflowError pinnedDeserChain).1 = .http 200 true := by decide
/-- repaired chain: 400 -/
example : (propagate overflowError (http_unary.chain .deserialize)).1 = .http 400 false := by decide

end VgiVerif.C06.Findings
