import VgiVerif.Model.C25
/-
C25 finding (repaired by `fix: session tokens were accepted in re-encoded forms …`):

on the pinned tree `_open_session_token` took whatever `base64.urlsafe_b64decode` made of the header value, and that decoder
is lenient (skips characters outside the alphabet, accepts `+/` and stray `=`, ignores unused trailing bits).  So values
that are NOT the minted text — e.g. the token with its last character's unused bits flipped, which every default
deployment has (12-hex-char server ids leave 4 unused bits) — opened the session instead of answering `session_lost`.
Harmless to authenticity (the holder of the token could present the token itself), but it is a "modified token" that the
property says must be refused (DESIGN §7.3).

Both shapes are run through the same function (`openSessionTokenP`): without the canonical-text comparison the re-encoded
value opens, with it only the minted text does.  Not an obligation.
-/
namespace VgiVerif.C25.Findings
open VgiVerif.Sticky

/-- base64 stand-in: a wire value is (envelope, is-the-canonical-text); the lenient decoder ignores the flag -/
abbrev DWire := Tok × Bool
def codec : Codec DWire := { enc := fun t => (t, true), dec := fun w => some w.1, dec_enc := fun _ => rfl }

def frame : Bytes := packFrame 1000 [119, 48] (sidOfCtr 0) 1300
def minted : Tok := .sealed 0 (aad .anon) Gen.Sticky.tokenVersion 0 frame
/-- the same envelope under a different text -/
def reencoded : DWire := (minted, false)

theorem pinned_accepts_reencoded :
    (openSessionTokenP false codec reencoded 0 (aad .anon)).toOption.isSome = true ∧ reencoded ≠ codec.enc minted := by
  decide

theorem repaired_rejects_reencoded :
    (openSessionTokenP true codec reencoded 0 (aad .anon)).toOption.isSome = false ∧
    (openSessionTokenP true codec (codec.enc minted) 0 (aad .anon)).toOption.isSome = true := by
  decide

end VgiVerif.C25.Findings
