import VgiVerif.Prelude.PyStr
import VgiVerif.Prelude.UrlPy
/-
`Url.whatwg`: the WHATWG URL Standard's *basic URL parser* (https://url.spec.whatwg.org/#concept-basic-url-parser)
restricted to what a browser does with the `Location` value of a 302 received from an `http(s)` service:

  * input pre-processing: strip leading/trailing C0-control-or-space, remove every ASCII tab / newline;
  * scheme start / scheme / no scheme states; **special** schemes only (`http https ws wss ftp`); `file:` and
    non-special schemes are reported as `unsupported` (outside the modelled fragment — never "safe");
  * special relative or authority / special authority slashes / special authority ignore slashes states (`\` ≡ `/`);
  * relative / relative slash states against a special, non-`file` base URL;
  * authority state (credentials = everything before the *last* `@`), host / port states (`[`…`]` nesting for `:`,
    port digits, > 65535 → failure, default port → null);
  * host parser for special schemes: IPv6 literal, percent-decoding, ASCII lower-casing (= "domain to ASCII" for an
    ASCII domain with no `xn--` label, as the standard notes), forbidden domain code points, "ends in a number" →
    IPv4 parser (hex / octal / short forms);  non-ASCII domains and `xn--` labels need IDNA → `unsupported`;
  * path start / path states: `/` and `\` separate segments, single- and double-dot segments (incl. `%2e`), shortening,
    path percent-encode set;  query / fragment are kept raw (only the origin and the path matter to C37).

This is a hand transcription: there is no browser in the sandbox, so it is cross-checked only against the committed
corpus `corpus/C37/whatwg.json` (examples from the standard and from web-platform-tests' urltestdata) — trusted base.
-/
namespace VgiVerif.UrlWhatwg
open VgiVerif.PyStr VgiVerif.UrlPy

inductive Host where
  | domain (s : Str)
  | ipv4 (n : Nat)
  | ipv6 (pieces : List Nat)
deriving Repr, DecidableEq

structure Url where
  scheme : Str
  username : Str
  password : Str
  host : Host
  port : Option Nat
  path : List Str
  query : Option Str
  fragment : Option Str
deriving Repr, DecidableEq

inductive Result where
  | ok (u : Url)
  /-- the standard's `failure`: the browser does not navigate -/
  | failure
  /-- outside the modelled fragment (non-special scheme, `file:`, IDNA needed) -/
  | unsupported
deriving Repr, DecidableEq

/-! ## character classes -/

def isAsciiAlnum (c : Char) : Bool := isAsciiAlpha c || isAsciiDigit c
def isHexDigit (c : Char) : Bool :=
  isAsciiDigit c || (decide (65 ≤ c.toNat) && decide (c.toNat ≤ 70)) || (decide (97 ≤ c.toNat) && decide (c.toNat ≤ 102))
def hexVal (c : Char) : Nat :=
  if isAsciiDigit c then c.toNat - 48 else if decide (97 ≤ c.toNat) then c.toNat - 87 else c.toNat - 55
/-- `/` or `\` (a special URL treats them alike) -/
def isSlash (c : Char) : Bool := c == '/' || c == '\\'
/-- end of the authority of a special URL -/
def isAuthEnd (c : Char) : Bool := c == '/' || c == '?' || c == '#' || c == '\\'

def defaultPort (scheme : Str) : Option Nat :=
  if scheme = "http".toList then some 80 else if scheme = "https".toList then some 443
  else if scheme = "ws".toList then some 80 else if scheme = "wss".toList then some 443
  else if scheme = "ftp".toList then some 21 else none

def isFile (scheme : Str) : Bool := scheme == "file".toList
/-- special scheme other than `file` -/
def isSpecial (scheme : Str) : Bool := (defaultPort scheme).isSome

/-! ## percent-encoding -/

def utf8 (c : Char) : List Nat :=
  let n := c.toNat
  if n < 0x80 then [n]
  else if n < 0x800 then [0xC0 + n / 64, 0x80 + n % 64]
  else if n < 0x10000 then [0xE0 + n / 4096, 0x80 + n / 64 % 64, 0x80 + n % 64]
  else [0xF0 + n / 262144, 0x80 + n / 4096 % 64, 0x80 + n / 64 % 64, 0x80 + n % 64]

def hexUpper (n : Nat) : Char := if n < 10 then Char.ofNat (48 + n) else Char.ofNat (55 + n)
def pctByte (b : Nat) : Str := ['%', hexUpper (b / 16), hexUpper (b % 16)]

/-- C0 control percent-encode set -/
def inC0Set (c : Char) : Bool := decide (c.toNat < 0x20) || decide (c.toNat > 0x7E)
def inQuerySet (c : Char) : Bool := inC0Set c || c == ' ' || c == '"' || c == '#' || c == '<' || c == '>'
def inPathSet (c : Char) : Bool := inQuerySet c || c == '?' || c == '^' || c == '`' || c == '{' || c == '}'
def inUserinfoSet (c : Char) : Bool :=
  inPathSet c || c == '/' || c == ':' || c == ';' || c == '=' || c == '@' || c == '[' || c == '\\' || c == ']' || c == '|'

def encodeWith (set : Char → Bool) (s : Str) : Str :=
  s.flatMap (fun c => if set c then (utf8 c).flatMap pctByte else [c])

/-- percent-decode to bytes -/
def percentDecode : Str → List Nat
  | '%' :: a :: b :: r =>
    if isHexDigit a && isHexDigit b then (hexVal a * 16 + hexVal b) :: percentDecode r
    else utf8 '%' ++ percentDecode (a :: b :: r)
  | c :: r => utf8 c ++ percentDecode r
  | [] => []

/-! ## IPv4 -/

/-- IPv4 number parser: `none` = failure -/
def ipv4Number (s : Str) : Option Nat :=
  if s.isEmpty then none
  else
    let (digits, radix) :=
      match s with
      | '0' :: x :: r => if x == 'x' || x == 'X' then (r, 16) else (x :: r, 8)
      | _ => (s, 10)
    if digits.isEmpty then some 0
    else if radix == 16 then
      if digits.all isHexDigit then some (digits.foldl (fun a c => a * 16 + hexVal c) 0) else none
    else if radix == 8 then
      if digits.all (fun c => decide (48 ≤ c.toNat) && decide (c.toNat ≤ 55)) then
        some (digits.foldl (fun a c => a * 8 + (c.toNat - 48)) 0) else none
    else
      if digits.all isAsciiDigit then some (decimalVal digits) else none

/-- the parts of a dotted host, a single trailing empty part removed -/
def ipv4Parts (s : Str) : List Str :=
  let parts := splitOn '.' s
  match parts.reverse with
  | [] :: r@(_ :: _) => r.reverse
  | _ => parts

/-- ends-in-a-number checker -/
def endsInNumber (s : Str) : Bool :=
  let parts := splitOn '.' s
  let parts :=
    match parts.reverse with
    | [] :: r => if parts.length = 1 then [] else r.reverse
    | _ => parts
  match parts.reverse with
  | [] => false
  | last :: _ =>
    if !last.isEmpty && last.all isAsciiDigit then true
    else (ipv4Number last).isSome

/-- IPv4 parser: `none` = failure -/
def ipv4Parse (s : Str) : Option Nat :=
  let parts := ipv4Parts s
  if parts.length > 4 then none
  else
    match parts.mapM ipv4Number with
    | none => none
    | some nums =>
      match nums.reverse with
      | [] => none
      | last :: initRev =>
        if initRev.any (fun n => decide (n > 255)) then none
        else if last ≥ 256 ^ (5 - nums.length) then none
        else
          some (last + (initRev.reverse.zipIdx.foldl (fun a (n, i) => a + n * 256 ^ (3 - i)) 0))

/-! ## IPv6 (the standard's IPv6 parser; no theorem depends on it) -/

/-- up to four hex digits: `(value, count, rest)` -/
def hex4 : Nat → Str → Nat → Nat → Nat × Nat × Str
  | 0, s, v, n => (v, n, s)
  | fuel + 1, c :: r, v, n => if isHexDigit c then hex4 fuel r (v * 16 + hexVal c) (n + 1) else (v, n, c :: r)
  | _ + 1, [], v, n => (v, n, [])

/-- one decimal piece of an embedded IPv4 address: digits, no leading zero, ≤ 255 -/
def ipv4Piece : Str → Option Nat → Option (Nat × Str)
  | c :: r, acc =>
    if isAsciiDigit c then
      let d := c.toNat - 48
      match acc with
      | none => ipv4Piece r (some d)
      | some 0 => none
      | some a => if a * 10 + d > 255 then none else ipv4Piece r (some (a * 10 + d))
    else acc.map (fun a => (a, c :: r))
  | [], acc => acc.map (fun a => (a, []))

/-- the embedded IPv4 tail `a.b.c.d` → two 16-bit pieces -/
def ipv4InIpv6 (s : Str) : Option (Nat × Nat) :=
  match ipv4Piece s none with
  | some (a, '.' :: s1) =>
    match ipv4Piece s1 none with
    | some (b, '.' :: s2) =>
      match ipv4Piece s2 none with
      | some (c, '.' :: s3) =>
        match ipv4Piece s3 none with
        | some (d, []) => some (a * 256 + b, c * 256 + d)
        | _ => none
      | _ => none
    | _ => none
  | _ => none

/-- main loop: pieces so far (in order), index of the compression (count of pieces before it) -/
def ipv6Loop : Nat → Str → List Nat → Option Nat → Option (List Nat × Option Nat)
  | 0, _, _, _ => none
  | _ + 1, [], pieces, compress => some (pieces, compress)
  | fuel + 1, s@(c :: r), pieces, compress =>
    -- the standard's pieceIndex: the compression marker occupies one slot
    let idx := pieces.length + (if compress.isSome then 1 else 0)
    if idx = 8 then none
    else if c == ':' then
      if compress.isSome then none else ipv6Loop fuel r pieces (some pieces.length)
    else
      let (value, len, rest) := hex4 4 s 0 0
      match rest with
      | '.' :: _ =>
        if len = 0 then none
        else if idx > 6 then none
        else
          match ipv4InIpv6 s with
          | some (p, q) => some (pieces ++ [p, q], compress)
          | none => none
      | ':' :: r2 => if r2.isEmpty then none else if len = 0 then none else ipv6Loop fuel r2 (pieces ++ [value]) compress
      | [] => if len = 0 then none else some (pieces ++ [value], compress)
      | _ :: _ => none

def ipv6Parse (s : Str) : Option (List Nat) :=
  let start : Option (Str × Option Nat) :=
    match s with
    | ':' :: ':' :: r => some (r, some 0)
    | ':' :: _ => none
    | _ => some (s, none)
  match start with
  | none => none
  | some (s, compress) =>
    match ipv6Loop (s.length + 2) s [] compress with
    | none => none
    | some (pieces, compress) =>
      if pieces.length > 8 then none
      else
        match compress with
        | some k =>
          if pieces.length = 8 then none
          else some (pieces.take k ++ List.replicate (8 - pieces.length) 0 ++ pieces.drop k)
        | none => if pieces.length = 8 then some pieces else none

/-! ## host parser (special scheme) -/

inductive HostResult where
  | ok (h : Host)
  | failure
  | unsupported
deriving Repr, DecidableEq

/-- forbidden domain code point (ASCII) -/
def isForbiddenDomain (c : Char) : Bool :=
  decide (c.toNat ≤ 0x20) || c == '#' || c == '/' || c == ':' || c == '<' || c == '>' || c == '?' || c == '@'
    || c == '[' || c == '\\' || c == ']' || c == '^' || c == '|' || c == '%' || decide (c.toNat = 0x7F)

def xnPrefix : Str := "xn--".toList

/-- the host parser after "domain to ASCII" on an ASCII, lower-cased domain -/
def domainToHost (dom : Str) : HostResult :=
  if (splitOn '.' dom).any (fun l => xnPrefix.isPrefixOf l) then .unsupported
  else if dom.isEmpty then .failure
  else if dom.any isForbiddenDomain then .failure
  else if endsInNumber dom then
    match ipv4Parse dom with
    | some n => .ok (.ipv4 n)
    | none => .failure
  else .ok (.domain dom)

def hostParse (buf : Str) : HostResult :=
  match buf with
  | '[' :: r =>
    match r.reverse with
    | ']' :: innerRev =>
      match ipv6Parse innerRev.reverse with
      | some p => .ok (.ipv6 p)
      | none => .failure
    | _ => .failure
  | _ =>
    if !buf.all isAscii then .unsupported
    else if (percentDecode buf).any (fun b => decide (b ≥ 0x80)) then .unsupported
    else domainToHost (((percentDecode buf).map Char.ofNat).map asciiLower)

/-! ## path -/

def isSingleDot (b : Str) : Bool :=
  let l := b.map asciiLower
  l == ".".toList || l == "%2e".toList

def isDoubleDot (b : Str) : Bool :=
  let l := b.map asciiLower
  l == "..".toList || l == ".%2e".toList || l == "%2e.".toList || l == "%2e%2e".toList

/-- shorten a (non-`file`) path -/
def shorten (p : List Str) : List Str := p.dropLast

/-- split at `/` and `\`: the segments buffered by the path state, in order (never empty) -/
def splitSlash : Str → List Str
  | [] => [[]]
  | c :: cs =>
    if isSlash c then [] :: splitSlash cs
    else match splitSlash cs with
      | [] => [[c]]
      | h :: t => (c :: h) :: t

/-- the path state run over the buffered segments; every segment but the last was ended by a slash -/
def pathFold : List Str → List Str → List Str
  | path, [] => path
  | path, [b] =>
    if isDoubleDot b then shorten path ++ [[]]
    else if isSingleDot b then path ++ [[]]
    else path ++ [encodeWith inPathSet b]
  | path, b :: rest =>
    if isDoubleDot b then pathFold (shorten path) rest
    else if isSingleDot b then pathFold path rest
    else pathFold (path ++ [encodeWith inPathSet b]) rest

def isPathEnd (c : Char) : Bool := c == '?' || c == '#'

/-- query and fragment (raw) of what follows the path -/
def queryFragment (rest : Str) : Option Str × Option Str :=
  match rest with
  | '?' :: q =>
    (some (q.takeWhile (· != '#')),
      match q.dropWhile (· != '#') with
      | _ :: f => some f
      | [] => none)
  | '#' :: f => (none, some f)
  | _ => (none, none)

/-- path state entered with `init` as the path so far -/
def pathState (u : Url) (init : List Str) (s : Str) : Url :=
  let p := s.takeWhile (fun c => !isPathEnd c)
  let qf := queryFragment (s.dropWhile (fun c => !isPathEnd c))
  { u with path := pathFold init (splitSlash p), query := qf.1, fragment := qf.2 }

/-- path start state of a special URL -/
def pathStart (u : Url) (s : Str) : Url :=
  match s with
  | c :: r => if isSlash c then pathState u [] r else pathState u [] s
  | [] => pathState u [] []

/-! ## authority, host, port -/

/-- host state scan: the buffer up to the first `:` that is not inside `[`…`]`, and what follows that `:` -/
def splitHostPort : Str → Bool → Str × Option Str
  | [], _ => ([], none)
  | c :: r, inside =>
    if c == ':' && !inside then ([], some r)
    else
      let inside' := if c == '[' then true else if c == ']' then false else inside
      let (h, p) := splitHostPort r inside'
      (c :: h, p)

/-- port state: `none` = failure; `some none` = null -/
def portParse (scheme : Str) (p : Str) : Option (Option Nat) :=
  if !p.all isAsciiDigit then none
  else if p.isEmpty then some none
  else
    let n := decimalVal p
    if n > 65535 then none
    else if defaultPort scheme = some n then some none else some (some n)

/-- host state + port state on the two buffers, then the path start state on what follows the authority -/
def hostPort (scheme username password hostBuf portBuf tail : Str) : Result :=
  if hostBuf.isEmpty then .failure
  else
    match hostParse hostBuf with
    | .failure => .failure
    | .unsupported => .unsupported
    | .ok host =>
      match portParse scheme portBuf with
      | none => .failure
      | some port => .ok (pathStart ⟨scheme, username, password, host, port, [], none, none⟩ tail)

/-- authority state on `auth` (the input up to the first `/ ? # \`), `tail` = the rest -/
def authorityParts (scheme auth tail : Str) : Result :=
  let rp := rpartition '@' auth
  let hostport := rp.2.2
  if rp.2.1 && hostport.isEmpty then .failure
  else
    let cred := partition ':' rp.1
    let username := if rp.2.1 then encodeWith inUserinfoSet cred.1 else []
    let password := if rp.2.1 then encodeWith inUserinfoSet cred.2.2 else []
    let hp := splitHostPort hostport false
    hostPort scheme username password hp.1 (hp.2.getD []) tail

/-- everything of the authority of a special URL -/
def authorityState (scheme : Str) (s : Str) : Result :=
  authorityParts scheme (s.takeWhile (fun c => !isAuthEnd c)) (s.dropWhile (fun c => !isAuthEnd c))

/-- special authority ignore slashes state -/
def ignoreSlashes (scheme : Str) (s : Str) : Result := authorityState scheme (s.dropWhile isSlash)

/-! ## relative references -/

/-- relative slash state (`s` = what follows the first slash) -/
def relativeSlash (base : Url) (s : Str) : Result :=
  match s with
  | c :: r =>
    if isSlash c then ignoreSlashes base.scheme r
    else .ok (pathState { base with path := [], query := none, fragment := none } [] s)
  | [] => .ok (pathState { base with path := [], query := none, fragment := none } [] [])

/-- relative state -/
def relativeState (base : Url) (s : Str) : Result :=
  match s with
  | [] => .ok { base with fragment := none }
  | c :: r =>
    if isSlash c then relativeSlash base r
    else if c == '?' then
      let qf := queryFragment s
      .ok { base with query := qf.1, fragment := qf.2 }
    else if c == '#' then .ok { base with fragment := some r }
    else .ok (pathState { base with query := none, fragment := none } (shorten base.path) s)

/-! ## entry point -/

/-- remove trailing C0 control or space -/
def stripTrailing : Str → Str
  | [] => []
  | c :: r =>
    match stripTrailing r with
    | [] => if isC0OrSpace c then [] else [c]
    | r' => c :: r'

/-- strip leading and trailing C0 control or space, remove ASCII tab and newline -/
def preprocess (input : Str) : Str :=
  (stripTrailing (input.dropWhile isC0OrSpace)).filter (fun c => !isTabNl c)

/-- scheme start state + scheme state: `some (scheme, rest)` when the input starts with `alpha (alnum|+|-|.)* ':'` -/
def parseScheme (s : Str) : Option (Str × Str) :=
  match s with
  | c :: _ =>
    if isAsciiAlpha c then
      match s.dropWhile isSchemeChar with
      | ':' :: after => some ((s.takeWhile isSchemeChar).map asciiLower, after)
      | _ => none
    else none
  | [] => none

/-- the basic URL parser on `input` with base URL `base` (special, not `file`) -/
def parse (base : Url) (input : Str) : Result :=
  let s := preprocess input
  match parseScheme s with
  | some (scheme, rest) =>
    if isFile scheme then .unsupported
    else if isSpecial scheme then
      if scheme = base.scheme then
        -- special relative or authority state
        match rest with
        | '/' :: '/' :: r => ignoreSlashes scheme r
        | _ => relativeState base rest
      else
        -- special authority slashes state → special authority ignore slashes state
        ignoreSlashes scheme rest
    else .unsupported
  | none => relativeState base s        -- no scheme state (base has no opaque path and is not `file`)

/-! ## path string, origin -/

def pathString (u : Url) : Str := u.path.flatMap (fun seg => '/' :: seg)

structure Origin where
  scheme : Str
  host : Host
  port : Nat
deriving Repr, DecidableEq

def originOf (u : Url) : Origin := ⟨u.scheme, u.host, (u.port.getD ((defaultPort u.scheme).getD 0))⟩

def localhostDomain : Str := "localhost".toList

/-- an `http` origin on the loopback interface (any port) -/
def Origin.isLoopbackHttp (o : Origin) : Bool :=
  o.scheme == "http".toList &&
    (o.host == .domain localhostDomain || o.host == .ipv4 2130706433 || o.host == .ipv6 [0, 0, 0, 0, 0, 0, 0, 1])

end VgiVerif.UrlWhatwg
