/-
Byte-level helpers for separator-framed payloads (used by C39's protocol_hash pre-image):
Python `str.encode()` / `bytes.decode()` (strict UTF-8), and the shape of an encapsulated Arrow IPC message.
No Mathlib, executable.
-/
namespace VgiVerif.Framing

abbrev Bytes := List UInt8

/-- Python `s.encode()` (UTF-8) for a `str` without lone surrogates -/
def utf8 (s : List Char) : Bytes := s.flatMap String.utf8EncodeChar

/-- Python `b.decode()` (strict UTF-8); `none` models `UnicodeDecodeError` -/
def decodeUtf8 (b : Bytes) : Option (List Char) := (b.toByteArray.utf8Decode?).map Array.toList

/-- An *encapsulated IPC message* with an empty body, which is what `pa.Schema.serialize()` produces:
continuation marker `FF FF FF FF`, little-endian int32 metadata length `n`, then exactly `n` bytes. -/
def isEncapsulated : Bytes → Bool
  | 0xFF :: 0xFF :: 0xFF :: 0xFF :: a :: b :: c :: d :: body =>
    body.length == a.toNat + 256 * b.toNat + 65536 * c.toNat + 16777216 * d.toNat
  | _ => false

/-- a set of byte strings that is a prefix code: no member is a proper prefix of another, so a member
can be cut off the front of a longer string in only one way -/
def PrefixCode (S : Bytes → Prop) : Prop :=
  ∀ a b r s, S a → S b → a ++ r = b ++ s → a = b ∧ r = s

end VgiVerif.Framing
