/-
Sched kit (DESIGN §4.3): labelled transition systems for the `schedules` properties
(C23 C26 C32 C33 C41 C42) and the synchronisation components their models embed.

* `TS State Label` — `init`, `step : State → Label → Option State` (`none` = the label is not
  enabled / not a step of the model).  `run`, `accepts` (executable trace inclusion: is this label
  sequence a run of the model?), `rejectIndex` (diagnostics), `Reachable`.
* `runExpand` — trace inclusion modulo internal steps: the harness observes only some labels, the
  model inserts its internal (τ) labels in front of an observed one.
* components: `Lock` (threading.Lock), `RLock` (threading.RLock), `Sem` (threading.Semaphore /
  BoundedSemaphore).  Each is a small state with partial operations; the lemmas about them (owner,
  count, mutual exclusion, permit conservation) are in `VgiVerif/Lemmas/Sched.lean`.
* `Timer` (threading.Timer: start / cancel / fire) and `upd` — function update for per-thread maps `Tid → α`.

No imports beyond Lean core: this file is linked into the native driver.
-/
namespace VgiVerif.Sched

/-- thread identifiers are the scheduler's thread ids (spawn order) -/
abbrev Tid := Nat

/-- labelled transition system; `step s l = none` means `l` is not enabled in `s` -/
structure TS (State Label : Type) where
  init : State
  step : State → Label → Option State

namespace TS
variable {State Label : Type}

/-- run a label sequence from a given state -/
def runFrom (ts : TS State Label) : State → List Label → Option State
  | s, [] => some s
  | s, l :: ls =>
    match ts.step s l with
    | none => none
    | some s' => runFrom ts s' ls

/-- run a label sequence from the initial state -/
def run (ts : TS State Label) (ls : List Label) : Option State := ts.runFrom ts.init ls

/-- executable trace inclusion: the label sequence is a run of the model -/
def accepts (ts : TS State Label) (ls : List Label) : Bool := (ts.run ls).isSome

/-- index of the first label the model refuses (`none` = the whole sequence is a run) -/
def rejectFrom (ts : TS State Label) : State → List Label → Nat → Option Nat
  | _, [], _ => none
  | s, l :: ls, i =>
    match ts.step s l with
    | none => some i
    | some s' => rejectFrom ts s' ls (i + 1)

def rejectIndex (ts : TS State Label) (ls : List Label) : Option Nat := ts.rejectFrom ts.init ls 0

/-- states reachable from `init` by any finite number of steps -/
inductive Reachable (ts : TS State Label) : State → Prop
  | init : Reachable ts ts.init
  | step {s s' : State} {l : Label} : Reachable ts s → ts.step s l = some s' → Reachable ts s'

/-- run observed labels, letting the model insert internal labels: for the observed label `l` in state
`s` the labels `expand s l` are run (by convention `expand s l` ends with `l` itself) -/
def runExpandFrom (ts : TS State Label) (expand : State → Label → List Label) :
    State → List Label → Option State
  | s, [] => some s
  | s, l :: ls =>
    match ts.runFrom s (expand s l) with
    | none => none
    | some s' => runExpandFrom ts expand s' ls

def runExpand (ts : TS State Label) (expand : State → Label → List Label) (ls : List Label) : Option State :=
  ts.runExpandFrom expand ts.init ls

/-- the full label sequence (internal labels included) that `runExpand` executes -/
def expandFrom (ts : TS State Label) (expand : State → Label → List Label) :
    State → List Label → List Label
  | _, [] => []
  | s, l :: ls =>
    match ts.runFrom s (expand s l) with
    | none => expand s l
    | some s' => expand s l ++ expandFrom ts expand s' ls

/-- index (in the observed sequence) of the first observed label that cannot be matched -/
def rejectExpandFrom (ts : TS State Label) (expand : State → Label → List Label) :
    State → List Label → Nat → Option Nat
  | _, [], _ => none
  | s, l :: ls, i =>
    match ts.runFrom s (expand s l) with
    | none => some i
    | some s' => rejectExpandFrom ts expand s' ls (i + 1)

end TS

/-- function update for per-thread maps -/
def upd {α : Type} (f : Tid → α) (t : Tid) (v : α) : Tid → α := fun x => if x = t then v else f x

/-! ### `threading.Lock` -/

/-- a non-reentrant lock; `owner = none` = free -/
structure Lock where
  owner : Option Tid := none
deriving Repr, DecidableEq

namespace Lock
def free : Lock := {}
/-- `acquire()` completes only when the lock is free (a blocked acquire is simply not enabled) -/
def acquire (t : Tid) (l : Lock) : Option Lock := if l.owner = none then some ⟨some t⟩ else none
/-- `release()` by the owner -/
def release (t : Tid) (l : Lock) : Option Lock := if l.owner = some t then some ⟨none⟩ else none
/-- `release()` by any thread (Python permits it for `threading.Lock`) -/
def releaseAny (l : Lock) : Option Lock := if l.owner = none then none else some ⟨none⟩
def heldBy (l : Lock) (t : Tid) : Bool := l.owner == some t
def locked (l : Lock) : Bool := l.owner.isSome
end Lock

/-! ### `threading.RLock` -/

/-- reentrant lock: owner and recursion count -/
structure RLock where
  owner : Option Tid := none
  count : Nat := 0
deriving Repr, DecidableEq

namespace RLock
def free : RLock := {}
/-- well-formedness: free exactly when the count is zero -/
def WF (l : RLock) : Prop := l.owner = none ↔ l.count = 0
def acquire (t : Tid) (l : RLock) : Option RLock :=
  match l.owner with
  | none => some ⟨some t, 1⟩
  | some o => if o = t then some ⟨some t, l.count + 1⟩ else none
/-- `release()`; by a non-owner Python raises `RuntimeError` (not a step) -/
def release (t : Tid) (l : RLock) : Option RLock :=
  if l.owner = some t then
    (if l.count ≤ 1 then some ⟨none, 0⟩ else some ⟨some t, l.count - 1⟩)
  else none
def heldBy (l : RLock) (t : Tid) : Bool := l.owner == some t
end RLock

/-! ### `threading.Semaphore` / `BoundedSemaphore` -/

/-- counting semaphore; `holders` is ghost state (one entry per outstanding acquire) -/
structure Sem where
  avail : Nat
  holders : List Tid := []
deriving Repr, DecidableEq

namespace Sem
def mk' (n : Nat) : Sem := ⟨n, []⟩
/-- permit conservation for a semaphore created with `cap` permits -/
def WF (cap : Nat) (s : Sem) : Prop := s.avail + s.holders.length = cap
def acquire (t : Tid) (s : Sem) : Option Sem :=
  if s.avail = 0 then none else some ⟨s.avail - 1, t :: s.holders⟩
/-- `release()` paired with an earlier acquire of the same thread -/
def release (t : Tid) (s : Sem) : Option Sem :=
  if t ∈ s.holders then some ⟨s.avail + 1, s.holders.erase t⟩ else none
/-- unpaired `release()` of a plain `Semaphore` (adds a permit) -/
def releaseFree (s : Sem) : Sem := ⟨s.avail + 1, s.holders⟩
end Sem

/-! ### `threading.Timer` -/

/-- life cycle of one `threading.Timer` object -/
inductive Timer where
  | idle        -- created, not started
  | armed       -- started, waiting for its interval
  | cancelled   -- `cancel()` called before it fired
  | fired       -- the interval elapsed un-cancelled: the callback runs / has run
deriving Repr, DecidableEq

namespace Timer
/-- `start()` (once) -/
def start : Timer → Option Timer
  | .idle => some .armed
  | _ => none
/-- `cancel()` is always allowed; it has no effect once the timer has fired -/
def cancel : Timer → Timer
  | .fired => .fired
  | _ => .cancelled
/-- the callback runs only for an armed, un-cancelled timer -/
def fire : Timer → Option Timer
  | .armed => some .fired
  | _ => none
end Timer

end VgiVerif.Sched
