import VgiVerif.Prelude.PyStr
/-
`Url.pySplit`: CPython 3.13 `urllib.parse.urlsplit` and the `hostname` / `port` properties of its result,
as used by vgi_rpc (C37: `_validate_return_to`, `_validate_original_url`; C31 shares it).

Transliteration of Lib/urllib/parse.py:
  * `url.lstrip(_WHATWG_C0_CONTROL_OR_SPACE)`, removal of `\t \r \n`
  * scheme: `i = url.find(':')`, `i > 0`, `url[0]` ASCII letter, every char of `url[:i]` in `scheme_chars`
  * netloc: `url[:2] == '//'` → up to the first of `/ ? #`; the two bracket checks
  * fragment (`#`) then query (`?`)
  * `_checknetloc` (NFKC) and `_check_bracketed_host` (`ipaddress`) raise `ValueError`; *which* strings they reject
    is an environment predicate (`Env`) — every theorem holds for all environments, the harness evaluates the real
    functions on the model's query.
  * `_hostinfo`: `rpartition('@')`, `partition('[')` / `partition(']')` / `partition(':')`
  * `hostname`: `partition('%')`, lower-casing of the part before `%`;  `port`: ASCII digits, `0 ≤ port ≤ 65535`
No imports beyond the Prelude: linked into the native driver.
-/
namespace VgiVerif.UrlPy
open VgiVerif.PyStr

abbrev Str := List Char

def isC0OrSpace (c : Char) : Bool := decide (c.toNat ≤ 0x20)
def isTabNl (c : Char) : Bool := c == '\t' || c == '\n' || c == '\r'
def isAsciiAlpha (c : Char) : Bool :=
  (decide (65 ≤ c.toNat) && decide (c.toNat ≤ 90)) || (decide (97 ≤ c.toNat) && decide (c.toNat ≤ 122))
def isAsciiDigit (c : Char) : Bool := decide (48 ≤ c.toNat) && decide (c.toNat ≤ 57)
def isAscii (c : Char) : Bool := decide (c.toNat < 128)
/-- `c in scheme_chars` -/
def isSchemeChar (c : Char) : Bool := isAsciiAlpha c || isAsciiDigit c || c == '+' || c == '-' || c == '.'

/-- `s.partition(sep)`: `(before, found, after)`; not found → `(s, False, "")` -/
def partition (sep : Char) (s : Str) : Str × Bool × Str :=
  match s.dropWhile (· != sep) with
  | [] => (s.takeWhile (· != sep), false, [])
  | _ :: r => (s.takeWhile (· != sep), true, r)

/-- `s.rpartition(sep)`: `(before, found, after)`; not found → `("", False, s)` -/
def rpartition (sep : Char) (s : Str) : Str × Bool × Str :=
  match s.reverse.dropWhile (· != sep) with
  | [] => ([], false, s)
  | _ :: r => (r.reverse, true, (s.reverse.takeWhile (· != sep)).reverse)

/-- Python `str.lower()` restricted to what can produce an ASCII character: ASCII letters, KELVIN SIGN → `k`,
`İ` (U+0130) → `i` + U+0307.  Every other code point is left unchanged (the harness checks exhaustively over all code
points that no other code point lower-cases to a string containing an ASCII character). -/
def pyLowerChar (c : Char) : Str :=
  if c.toNat = 0x212A then ['k']
  else if c.toNat = 0x130 then ['i', Char.ofNat 0x307]
  else [asciiLower c]

def pyLower (s : Str) : Str := s.flatMap pyLowerChar

/-- value of an ASCII decimal numeral (`int(s)` for `s.isdigit() and s.isascii()`) -/
def decimalVal (s : Str) : Nat := s.foldl (fun a c => a * 10 + (c.toNat - 48)) 0

/-- what `urllib.parse` delegates to other modules: does the call return (true) or raise `ValueError` (false) -/
structure Env where
  /-- `_check_bracketed_host(h)` (`ipaddress.ip_address` / the IPvFuture regex) -/
  bracketOk : Str → Bool
  /-- `_checknetloc(netloc)` for a non-ASCII netloc (NFKC normalisation) -/
  nfkcOk : Str → Bool

structure Split where
  scheme : Str
  netloc : Str
  path : Str
  query : Str
  fragment : Str
deriving Repr, DecidableEq

/-- `url.lstrip(C0-or-space)` then removal of tab / CR / LF -/
def preprocess (url : Str) : Str := (url.dropWhile isC0OrSpace).filter (fun c => !isTabNl c)

/-- the scheme step: `(scheme, rest)` -/
def splitScheme (url : Str) : Str × Str :=
  let pre := url.takeWhile (· != ':')
  match url.dropWhile (· != ':'), pre with
  | _ :: after, c :: _ =>
    if isAscii c && isAsciiAlpha c && pre.all isSchemeChar then (pre.map asciiLower, after) else ([], url)
  | _, _ => ([], url)

def isNetlocEnd (c : Char) : Bool := c == '/' || c == '?' || c == '#'

/-- `netloc.partition('[')[2].partition(']')[0]` -/
def bracketedHost (netloc : Str) : Str := (partition ']' (partition '[' netloc).2.2).1

/-- the arguments with which the environment would be consulted for this URL (driver/harness use) -/
structure Query where
  bracket : Option Str
  nfkc : Option Str
deriving Repr, DecidableEq

def netlocOf (rest : Str) : Option (Str × Str) :=
  match rest with
  | '/' :: '/' :: r => some (r.takeWhile (fun c => !isNetlocEnd c), r.dropWhile (fun c => !isNetlocEnd c))
  | _ => none

def envQuery (url : Str) : Query :=
  let (_, rest) := splitScheme (preprocess url)
  match netlocOf rest with
  | none => ⟨none, none⟩
  | some (netloc, _) =>
    ⟨if netloc.contains '[' && netloc.contains ']' then some (bracketedHost netloc) else none,
     if !netloc.isEmpty && !netloc.all isAscii then some netloc else none⟩

/-- the two bracket checks of `urlsplit`: `false` = `ValueError` -/
def bracketsOk (env : Env) (netloc : Str) : Bool :=
  let o := netloc.contains '['
  let c := netloc.contains ']'
  if (o && !c) || (c && !o) then false
  else if o && c then env.bracketOk (bracketedHost netloc)
  else true

/-- `_checknetloc(netloc)`: `false` = `ValueError` -/
def nfkcCheck (env : Env) (netloc : Str) : Bool := netloc.isEmpty || netloc.all isAscii || env.nfkcOk netloc

/-- `url.split('#', 1)` then `url.split('?', 1)`: `(path, query, fragment)` -/
def splitPQF (url : Str) : Str × Str × Str :=
  let uf := if url.contains '#' then ((partition '#' url).1, (partition '#' url).2.2) else (url, [])
  let uq := if uf.1.contains '?' then ((partition '?' uf.1).1, (partition '?' uf.1).2.2) else (uf.1, [])
  (uq.1, uq.2, uf.2)

/-- `urlsplit(url)`; `none` = `ValueError` -/
def urlsplit (env : Env) (url0 : Str) : Option Split :=
  let ss := splitScheme (preprocess url0)
  match netlocOf ss.2 with
  | none =>
    let pqf := splitPQF ss.2
    some ⟨ss.1, [], pqf.1, pqf.2.1, pqf.2.2⟩
  | some (netloc, r) =>
    if bracketsOk env netloc && nfkcCheck env netloc then
      let pqf := splitPQF r
      some ⟨ss.1, netloc, pqf.1, pqf.2.1, pqf.2.2⟩
    else none

/-- `_hostinfo`: `(hostname, port)` with `port = none` when empty -/
def hostinfo (netloc : Str) : Str × Option Str :=
  let hi := (rpartition '@' netloc).2.2
  let (hostname, port) :=
    match partition '[' hi with
    | (_, true, bracketed) =>
      let p := partition ']' bracketed
      (p.1, (partition ':' p.2.2).2.2)
    | (_, false, _) => ((partition ':' hi).1, (partition ':' hi).2.2)
  (hostname, if port.isEmpty then none else some port)

/-- `.hostname` (`none` = Python `None`) -/
def hostname (netloc : Str) : Option Str :=
  let h := (hostinfo netloc).1
  if h.isEmpty then none
  else
    let p := partition '%' h
    some (pyLower p.1 ++ (if p.2.1 then '%' :: p.2.2 else []))

/-- `.port`: `none` = `ValueError`; `some none` = Python `None` -/
def port (netloc : Str) : Option (Option Nat) :=
  match (hostinfo netloc).2 with
  | none => some none
  | some p =>
    if p.all isAsciiDigit then
      if decimalVal p ≤ 65535 then some (some (decimalVal p)) else none
    else none

/-- `str(n)` for a natural number -/
def digitsAux : Nat → Nat → Str → Str
  | 0, _, acc => acc
  | fuel + 1, n, acc =>
    let acc' := Char.ofNat (48 + n % 10) :: acc
    if n / 10 = 0 then acc' else digitsAux fuel (n / 10) acc'

def decimal (n : Nat) : Str := digitsAux (n + 1) n []

end VgiVerif.UrlPy
