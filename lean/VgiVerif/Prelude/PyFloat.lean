/-
Python floats, abstracted for arithmetic that only scales by powers of two, multiplies by a jitter fraction and clamps:
a value is an exact rational or one of the IEEE specials.  Comparisons, `min` and `max` follow CPython:
every comparison with NaN is False; `min(a, b)` is `b if b < a else a`; `max(a, b)` is `b if b > a else a`
(so the *argument order* decides what a NaN does).
Rounding of finite results is not modelled (callers state where they rely on exactness).
-/
namespace VgiVerif.PyFloat

inductive F
  | nan
  | negInf
  | fin (q : Rat)
  | posInf
deriving DecidableEq, Repr

namespace F

/-- Python `a < b` -/
def lt : F → F → Bool
  | nan, _ => false
  | _, nan => false
  | negInf, negInf => false
  | negInf, _ => true
  | _, negInf => false
  | fin a, fin b => decide (a < b)
  | fin _, posInf => true
  | posInf, _ => false

/-- Python `a <= b` -/
def le : F → F → Bool
  | nan, _ => false
  | _, nan => false
  | negInf, _ => true
  | _, negInf => false
  | fin a, fin b => decide (a ≤ b)
  | _, posInf => true
  | posInf, _ => false

/-- builtin `min(a, b)` -/
def pyMin (a b : F) : F := if lt b a then b else a

/-- builtin `max(a, b)` (`b > a` is `a < b`) -/
def pyMax (a b : F) : F := if lt a b then b else a

/-- first power of two that is not a finite double -/
def overflowBound : Rat := (2 : Rat) ^ 1024

/-- `x * float(2**k)` for `k < 1024` (exact scaling; overflows to ±inf at 2^1024) -/
def mulPow2 (x : F) (k : Nat) : F :=
  match x with
  | nan => nan
  | negInf => negInf
  | posInf => posInf
  | fin q =>
    let p := q * (2 : Rat) ^ k
    if overflowBound ≤ p then posInf else if p ≤ -overflowBound then negInf else fin p

/-- `random.uniform(0, e)` = `0 + (e - 0) * random()` with `random() = r`, `0 ≤ r < 1` -/
def uniform0 (e : F) (r : Rat) : F :=
  match e with
  | nan => nan
  | fin q => fin (q * r)
  | posInf => if r = 0 then nan else if 0 < r then posInf else negInf
  | negInf => if r = 0 then nan else if 0 < r then negInf else posInf

end F
end VgiVerif.PyFloat
