/-
Standard-alphabet base64 as CPython implements it (`base64.b64encode`, and `base64.b64decode(s, validate=True)` =
`binascii.a2b_base64(s, strict_mode=True)`): only alphabet characters, then exactly the padding that completes the
last quantum, nothing after it.  Like CPython, `decValidate` ignores the unused low bits of the last quantum
(`QR==` and `QQ==` both decode to `A`) — which is why the token openers re-encode and compare.
Executable; used by the driver for the differential check against the interpreter.
-/
namespace VgiVerif.Base64Std

abbrev Bytes := List UInt8

def alphabet : Bytes :=
  "ABCDEFGHIJKLMNOPQRSTUVWXYZabcdefghijklmnopqrstuvwxyz0123456789+/".toList.map (fun c => UInt8.ofNat c.toNat)

def pad : UInt8 := 61

def ch (n : Nat) : UInt8 := alphabet.getD n 0

def enc : Bytes → Bytes
  | [] => []
  | [a] => [ch (a.toNat / 4), ch (a.toNat % 4 * 16), pad, pad]
  | [a, b] => [ch (a.toNat / 4), ch (a.toNat % 4 * 16 + b.toNat / 16), ch (b.toNat % 16 * 4), pad]
  | a :: b :: c :: r =>
    ch (a.toNat / 4) :: ch (a.toNat % 4 * 16 + b.toNat / 16) :: ch (b.toNat % 16 * 4 + c.toNat / 64) :: ch (c.toNat % 64) :: enc r

def val (c : UInt8) : Option Nat :=
  let i := alphabet.idxOf c
  if i < 64 then some i else none

/-- 6-bit values → bytes; `none` when one data character is left over -/
def unsextets : List Nat → Option Bytes
  | [] => some []
  | [_] => none
  | [a, b] => some [UInt8.ofNat (a * 4 + b / 16)]
  | [a, b, c] => some [UInt8.ofNat (a * 4 + b / 16), UInt8.ofNat (b % 16 * 16 + c / 4)]
  | a :: b :: c :: d :: r =>
    match unsextets r with
    | none => none
    | some t => some (UInt8.ofNat (a * 4 + b / 16) :: UInt8.ofNat (b % 16 * 16 + c / 4) :: UInt8.ofNat (c % 4 * 64 + d) :: t)

/-- `base64.b64decode(s, validate=True)`; `none` = `binascii.Error` -/
def decValidate (s : Bytes) : Option Bytes :=
  let data := s.takeWhile (· != pad)
  let tail := s.dropWhile (· != pad)
  match data.mapM val with
  | none => none
  | some vs =>
    let need := match vs.length % 4 with | 0 => 0 | 2 => 2 | 3 => 1 | _ => 5
    if need = 5 then none
    else if tail = List.replicate need pad then unsextets vs else none

end VgiVerif.Base64Std
