/-
Python `str` operations the modelled code relies on, over `List Char` (code points).
No imports: linked into the native driver.
-/
namespace VgiVerif.PyStr

/-- `s.split(sep)` for a one-character separator (never returns `[]`). -/
def splitOn (sep : Char) : List Char → List (List Char)
  | [] => [[]]
  | c :: cs =>
    if c = sep then [] :: splitOn sep cs
    else match splitOn sep cs with
      | [] => [[c]]
      | h :: t => (c :: h) :: t

/-- drop one trailing `'\n'` if present -/
def dropTrailingNewline (s : List Char) : List Char :=
  match s.reverse with
  | '\n' :: r => r.reverse
  | _ => s

def startsWith (p s : List Char) : Bool := p.isPrefixOf s

/-- `sub in s` -/
def contains (sub : List Char) : List Char → Bool
  | [] => sub.isEmpty
  | c :: cs => sub.isPrefixOf (c :: cs) || contains sub cs

/-- ASCII-only lower-casing (`A`–`Z`) -/
def asciiLower (c : Char) : Char :=
  if 65 ≤ c.toNat ∧ c.toNat ≤ 90 then Char.ofNat (c.toNat + 32) else c

/-- `"sep".join(parts)` -/
def join (sep : List Char) : List (List Char) → List Char
  | [] => []
  | [x] => x
  | x :: y :: r => x ++ sep ++ join sep (y :: r)

end VgiVerif.PyStr
