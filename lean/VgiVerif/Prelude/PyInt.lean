/-
Python `str(int)` and `int(str)` (base 10) over `List Char`, plus `str.strip()` on the ASCII whitespace set.
No imports: linked into the native driver.

`pyIntParse` follows CPython's grammar for `int(s)`: surrounding whitespace stripped, optional sign, decimal digits with
single underscores *between* digits.  Restriction (stated in the checks that use it): only ASCII digits and ASCII
whitespace are recognised — `int()` also accepts other Unicode `Nd` digits / whitespace, which `str(int)` never produces.
-/
namespace VgiVerif.PyInt

def digitChar (d : Nat) : Char := Char.ofNat (48 + d)

/-- decimal digits of a natural number, most significant first (`str(n)` for `n ≥ 0`) -/
def natDigits (n : Nat) : List Char :=
  if n < 10 then [digitChar n] else natDigits (n / 10) ++ [digitChar (n % 10)]
decreasing_by omega

/-- `str(n)` -/
def pyStrInt : Int → List Char
  | .ofNat n => natDigits n
  | .negSucc n => '-' :: natDigits (n + 1)

def isDigit (c : Char) : Bool := 48 ≤ c.toNat && c.toNat ≤ 57

/-- ASCII characters for which `str.isspace()` holds -/
def isSpace (c : Char) : Bool :=
  c.toNat = 32 || (9 ≤ c.toNat && c.toNat ≤ 13) || (28 ≤ c.toNat && c.toNat ≤ 31)

/-- whitespace `int()` skips around an ASCII numeral (C `isspace`: `\x1c`–`\x1f` are *not* skipped, unlike `str.strip()`) -/
def isSpaceC (c : Char) : Bool := c.toNat = 32 || (9 ≤ c.toNat && c.toNat ≤ 13)

def stripBy (p : Char → Bool) (s : List Char) : List Char := ((s.dropWhile p).reverse.dropWhile p).reverse

/-- `s.strip()` -/
def strip (s : List Char) : List Char := stripBy isSpace s

/-- digits, single underscores allowed between digits -/
def validGo (prevDigit : Bool) : List Char → Bool
  | [] => prevDigit
  | c :: r => if isDigit c then validGo true r else if c = '_' && prevDigit then validGo false r else false

def digitsVal (s : List Char) : Nat :=
  s.foldl (fun a c => if isDigit c then a * 10 + (c.toNat - 48) else a) 0

def parseDigits (s : List Char) : Option Nat := if validGo false s then some (digitsVal s) else none

/-- `int(s)`; `none` models `ValueError` -/
def pyIntParse (s : List Char) : Option Int :=
  match stripBy isSpaceC s with
  | '-' :: r => (parseDigits r).map (fun n => -(Int.ofNat n))
  | '+' :: r => (parseDigits r).map Int.ofNat
  | r => (parseDigits r).map Int.ofNat

end VgiVerif.PyInt
