/-
Python values as the conversion layers of vgi_rpc see them (shared by C02 and C03), and the model of
"pyarrow builds a 1-row typed array from a Python value and `as_py()` reads it back" (`arrowRT`).

`arrowRT` is ENVIRONMENT: pyarrow's typed-array conversion is modelled, not verified; it is exactly what the
correspondence runs exercise (DESIGN §3.4, §6.5).  Everything that is genuinely numeric about it (IEEE
binary64→binary32 rounding, temporal/decimal rescaling) sits behind `Env`, whose laws are hypotheses of the
theorems (never axioms); the driver instantiates it with the concrete functions of this file.
-/
namespace VgiVerif.Py

/-- Python-side values.  `float` carries the IEEE-754 binary64 bit pattern (so NaN payloads and −0.0 are values).
`ipc p` / `packed p` / `tagged t p` are `bytes` objects whose content is abstract:
the Arrow IPC stream encoding `p`, `COMPACT_MARKER + msgpack(p)`, `\x00 + uint16le(t) + p`. -/
inductive V where
  | none
  | bool (b : Bool)
  | int (i : Int)
  | float (bits : Nat)
  | str (s : List Char)
  | bytes (b : List UInt8)
  | enum (name : List Char)               -- an `Enum` member, by its canonical `.name`
  | native (kind : Nat) (a b : Int)       -- date / datetime / time / timedelta / Decimal: kind code + two integers
  | arrowObj (kind : Nat) (id : Nat)      -- `pa.Schema` (kind 0) / `pa.RecordBatch` (kind 1), opaque
  | ipc (payload : V)
  | packed (payload : V)
  | tagged (tag : Nat) (payload : V)
  | list (xs : List V)
  | tuple (xs : List V)
  | set (xs : List V)                     -- frozenset, by iteration order
  | dict (kvs : List (V × V))             -- insertion order
  | obj (cls : List Char) (fs : List (List Char × V))   -- dataclass instance: class name, all fields in order
deriving Repr, Inhabited

inductive Err where
  | typeError | valueError | keyError | overflow | ipcError | runtimeError
deriving Repr, DecidableEq, Inhabited

abbrev R := Except Err

/-! ### IEEE-754 helpers on bit patterns -/

def isNaN64 (b : Nat) : Bool := (b / 4503599627370496) % 2048 == 2047 && b % 4503599627370496 != 0
def isZero64 (b : Nat) : Bool := b % 9223372036854775808 == 0

/-- Python `==` on two floats given by bit pattern -/
def floatEq (a b : Nat) : Bool :=
  if isNaN64 a || isNaN64 b then false
  else if isZero64 a && isZero64 b then true
  else a == b

mutual
/-- Python `==` between values *of the same declared type* (the only use: duplicate detection when a
`frozenset` / `dict` is rebuilt from a list).  Cross-type numeric equality (`1 == True == 1.0`) is outside. -/
def pyEq : V → V → Bool
  | .none, .none => true
  | .bool a, .bool b => a == b
  | .int a, .int b => a == b
  | .float a, .float b => floatEq a b
  | .str a, .str b => a == b
  | .bytes a, .bytes b => a == b
  | .enum a, .enum b => a == b
  | .native k a b, .native k' a' b' => k == k' && a == a' && b == b'
  | .arrowObj k i, .arrowObj k' i' => k == k' && i == i'
  | .ipc a, .ipc b => pyEq a b
  | .packed a, .packed b => pyEq a b
  | .tagged t a, .tagged t' b => t == t' && pyEq a b
  | .list a, .list b => pyEqL a b
  | .tuple a, .tuple b => pyEqL a b
  | .set a, .set b => pyEqL a b
  | .dict a, .dict b => pyEqP a b
  | .obj c a, .obj c' b => c == c' && pyEqF a b
  | _, _ => false
def pyEqL : List V → List V → Bool
  | [], [] => true
  | x :: xs, y :: ys => pyEq x y && pyEqL xs ys
  | _, _ => false
def pyEqP : List (V × V) → List (V × V) → Bool
  | [], [] => true
  | (k, v) :: xs, (k', v') :: ys => pyEq k k' && pyEq v v' && pyEqP xs ys
  | _, _ => false
def pyEqF : List (List Char × V) → List (List Char × V) → Bool
  | [], [] => true
  | (k, v) :: xs, (k', v') :: ys => k == k' && pyEq v v' && pyEqF xs ys
  | _, _ => false
end

/-- `x in seen` by Python equality -/
def pyMem (x : V) (seen : List V) : Bool := seen.any (pyEq x)

/-- pairwise distinct under Python `==` (what a real `frozenset` / the keys of a real `dict` satisfy) -/
def pyDistinct : List V → Bool
  | [] => true
  | x :: xs => !pyMem x xs && pyDistinct xs

/-- `frozenset(xs)`: first occurrence of every element kept, in order -/
def dedup : List V → List V
  | [] => []
  | x :: xs => x :: (dedup xs).filter (fun y => !pyEq x y)

/-- `dict(pairs)` / `{k: v for k, v in pairs}`: position of the first insertion of a key, last value -/
def dictSet (d : List (V × V)) (k v : V) : List (V × V) :=
  if d.any (fun p => pyEq p.1 k) then d.map (fun p => if pyEq p.1 k then (p.1, v) else p) else d ++ [(k, v)]

def dictOfPairs (ps : List (V × V)) : List (V × V) := ps.foldl (fun d p => dictSet d p.1 p.2) []

/-- `d.get(name)` on a dict with `str` keys; `Option.none` = key absent -/
def dictGet (d : List (V × V)) (name : List Char) : Option V :=
  match d with
  | [] => Option.none
  | (.str k, v) :: r => if k = name then some v else dictGet r name
  | _ :: r => dictGet r name

def fieldGet (fs : List (List Char × V)) (name : List Char) : Option V :=
  match fs with
  | [] => Option.none
  | (k, v) :: r => if k = name then some v else fieldGet r name

/-- `isinstance(v, bytes)` -/
def isBytes : V → Bool
  | .bytes _ | .ipc _ | .packed _ | .tagged _ _ => true
  | _ => false

/-! ### Arrow types and the typed-array round trip -/

inductive IntW where
  | i8 | i16 | i32 | i64 | u8 | u16 | u32 | u64
deriving Repr, DecidableEq, Inhabited

def IntW.lo : IntW → Int
  | .i8 => -128 | .i16 => -32768 | .i32 => -2147483648 | .i64 => -9223372036854775808
  | _ => 0
def IntW.hi : IntW → Int
  | .i8 => 127 | .i16 => 32767 | .i32 => 2147483647 | .i64 => 9223372036854775807
  | .u8 => 255 | .u16 => 65535 | .u32 => 4294967295 | .u64 => 18446744073709551615

def IntW.fits (w : IntW) (i : Int) : Bool := decide (w.lo ≤ i) && decide (i ≤ w.hi)

/-- Arrow data types the framework produces.  `native k p s` = temporal / decimal kinds (see `Env.native`). -/
inductive ATy where
  | int (w : IntW)
  | f32 | f64
  | utf8 | binary | bool
  | dictStr                                 -- dictionary<int16, string> (Enum)
  | native (kind : Nat) (p s : Nat)
  | list (t : ATy)
  | map (k v : ATy)
  | struct (fs : List (List Char × ATy))
deriving Repr, Inhabited

/-- The numeric part of pyarrow's conversion, as an environment. -/
structure Env where
  /-- binary64 bit pattern ↦ bit pattern of the same value rounded to binary32 and widened again -/
  round32 : Nat → Nat
  /-- a temporal / decimal Python object of kind `k` stored into the Arrow type `native k p s` and read back:
      rescaled / truncated value, or rejection -/
  native : Nat → Nat → Nat → Int → Int → Option (Int × Int)

/-- The laws the theorems need of the environment: storing an already-stored value changes nothing. -/
structure Env.Lawful (env : Env) : Prop where
  round32_idem : ∀ b, env.round32 (env.round32 b) = env.round32 b
  native_idem : ∀ k p s a b a' b', env.native k p s a b = some (a', b') → env.native k p s a' b' = some (a', b')

/-- one `(key, value)` entry of a map array: a 2-tuple whose key is not null -/
def mapEntry (fk fv : V → R V) : V → R V
  | .tuple [a, b] =>
    match a with
    | .none => .error .valueError
    | _ => do
      let a' ← fk a
      let b' ← fv b
      pure (.tuple [a', b'])
  | _ => .error .typeError

mutual
/-- `pa.array([v], type=t)[0].as_py()` — accepts exactly the Python type the Arrow type is built from
(the lenient cross-type conversions of pyarrow, e.g. `1.5 → int64`, are outside every generator and answer `typeError`). -/
def arrowRT (env : Env) : ATy → V → R V
  | _, .none => .ok .none
  | .int w, .int i => if w.fits i then .ok (.int i) else .error .overflow
  | .f64, .float b => .ok (.float b)
  | .f32, .float b => .ok (.float (env.round32 b))
  | .utf8, .str s => .ok (.str s)
  | .dictStr, .str s => .ok (.str s)
  | .binary, .bytes b => .ok (.bytes b)
  | .binary, .ipc p => .ok (.ipc p)
  | .binary, .packed p => .ok (.packed p)
  | .binary, .tagged t p => .ok (.tagged t p)
  | .bool, .bool b => .ok (.bool b)
  | .native k p s, .native k' a b =>
    if k = k' then
      match env.native k p s a b with
      | some (a', b') => .ok (.native k a' b')
      | Option.none => .error .valueError
    else .error .typeError
  | .list t, .list xs => do let ys ← xs.mapM (arrowRT env t); pure (.list ys)
  | .list t, .tuple xs => do let ys ← xs.mapM (arrowRT env t); pure (.list ys)
  | .map k v, .list xs => do let ys ← xs.mapM (mapEntry (arrowRT env k) (arrowRT env v)); pure (.list ys)
  | .struct fs, .dict kvs => do let ys ← arrowS env fs kvs; pure (.dict ys)
  | _, _ => .error .typeError
/-- struct: every declared child looked up by name in the dict (absent → null), extra keys ignored -/
def arrowS (env : Env) : List (List Char × ATy) → List (V × V) → R (List (V × V))
  | [], _ => .ok []
  | (n, t) :: fs, kvs => do
    let y ← arrowRT env t ((dictGet kvs n).getD .none)
    let ys ← arrowS env fs kvs
    pure ((.str n, y) :: ys)
end

/-! ### The concrete environment used by the driver -/

/-- round-half-even of `n / 2^k` -/
def rshiftRne (n k : Nat) : Nat :=
  let q := n / 2 ^ k
  let r := n % 2 ^ k
  let half := 2 ^ k / 2
  if k = 0 then n
  else if r > half || (r == half && q % 2 == 1) then q + 1 else q

/-- binary64 → binary32 (round to nearest even, overflow to ±inf, NaN quieted with truncated payload) → binary64 -/
def round32 (b : Nat) : Nat :=
  let s := b / 9223372036854775808
  let e := (b / 4503599627370496) % 2048
  let m := b % 4503599627370496
  let sign := s * 9223372036854775808
  if e = 2047 then
    if m = 0 then b else sign + 2047 * 4503599627370496 + ((m / 536870912) ||| 4194304) * 536870912
  else if e ≥ 897 then
    -- binary32 normal range (before rounding): round the 52-bit mantissa to 23 bits; the carry runs into the exponent
    let c := rshiftRne ((b % 9223372036854775808)) 29
    if c ≥ 1151 * 8388608 then sign + 2047 * 4503599627370496 else sign + c * 536870912
  else
    -- below 2^-126: quantum 2^-149
    let sig := if e = 0 then m else m + 4503599627370496
    let ee := if e = 0 then 1 else e
    let shift := 926 - ee
    let n := if shift > 60 then 0 else rshiftRne sig shift
    if n = 0 then sign
    else
      let bl := Nat.log2 n + 1
      sign + (bl + 873) * 4503599627370496 + (n * 2 ^ (53 - bl)) % 4503599627370496

/-- kinds: 0 date32 (days) · 1 timestamp naive · 2 timestamp UTC · 3 time64 · 4 duration  (a = microseconds, `p` = unit:
0 s, 1 ms, 2 us) · 5 decimal128(p, s) (a = coefficient, b = exponent) -/
def unitDiv : Nat → Int
  | 0 => 1000000 | 1 => 1000 | _ => 1

def int64Ok (a : Int) : Bool := decide (-9223372036854775808 ≤ a) && decide (a ≤ 9223372036854775807)

/-- at most `p` decimal digits -/
def digitsOk (p : Nat) (a : Int) : Bool := decide (a.natAbs < 10 ^ p)

/-- number of decimal digits (0 for 0) -/
def decDigits (n : Nat) : Nat := if n = 0 then 0 else (Nat.toDigits 10 n).length

/-- magnitude reduced modulo 2^128 and read as a signed 128-bit integer, sign applied afterwards (pyarrow's overflow) -/
def wrap128 (a : Int) : Int :=
  let m : Int := ((a.natAbs % 2 ^ 128 : Nat) : Int)
  let m' := if m ≥ 2 ^ 127 then m - 2 ^ 128 else m
  if a < 0 then -m' else m'

def nativeConv (k p s : Nat) (a b : Int) : Option (Int × Int) :=
  match k with
  | 0 => if -2147483648 ≤ a ∧ a ≤ 2147483647 then some (a, 0) else Option.none
  | 5 =>
    -- Decimal(coefficient a, exponent b) into decimal128(p, s), as pyarrow does it: the digit count of the coefficient plus
    -- the scale change must not exceed p; the coefficient is then parsed into 128 bits *with silent wrap-around*; the
    -- rescale to exponent -s must be exact
    let k : Int := b + (s : Int)
    if (decDigits a.natAbs : Int) + k > (p : Int) then Option.none
    else
      let raw := wrap128 a
      if k ≥ 0 then some (raw * (10 : Int) ^ k.toNat, -(s : Int))
      else
        let d : Nat := 10 ^ (-k).toNat
        if raw.natAbs % d = 0 then
          some ((if raw < 0 then -((raw.natAbs / d : Nat) : Int) else ((raw.natAbs / d : Nat) : Int)), -(s : Int))
        else Option.none
  | _ =>
    -- microsecond count floored to the declared unit; the unit count must fit 64 bits
    let d := unitDiv p
    if int64Ok (a / d) then some ((a / d) * d, 0) else Option.none

def concreteEnv : Env := { round32 := round32, native := nativeConv }

end VgiVerif.Py
