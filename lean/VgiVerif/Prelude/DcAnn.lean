import VgiVerif.Prelude.PyVal
/-
The documented field-annotation grammar of `ArrowSerializableDataclass` (class docstring of vgi_rpc/utils.py):
scalars, explicit Arrow widths, Enum, Optional, list / frozenset / dict, nested dataclasses (as struct, or as binary
through `ArrowType(pa.binary())`), `pa.Schema`, `pa.RecordBatch`, transient fields, defaults.  Nesting depth unbounded.
Shared by Spec/C03, Model/C03 and Model/C02.
-/
namespace VgiVerif.C03
open VgiVerif.Py

inductive Scalar where
  | str | bytes | int | float | bool
deriving Repr, DecidableEq, Inhabited

def Scalar.name : Scalar → String
  | .str => "str" | .bytes => "bytes" | .int => "int" | .float => "float" | .bool => "bool"

mutual
/-- the documented field-annotation grammar -/
inductive Ann where
  | scalar (s : Scalar)
  | intW (w : IntW)                         -- `Annotated[int, ArrowType(pa.<w>())]`
  | float32                                 -- `Annotated[float, ArrowType(pa.float32())]`
  | enum (members : List (List Char × Option (List Char)))   -- (name, value when it is a `str`), definition order
  | opt (a : Ann)                           -- `a | None`   (`opt (dcBin …)` = `Annotated[Cls | None, ArrowType(pa.binary())]`)
  | list (a : Ann)
  | set (a : Ann)                           -- `frozenset[a]`
  | map (k v : Ann)                         -- `dict[k, v]`
  | dc (name : List Char) (fs : Fields)     -- nested dataclass stored as a struct
  | dcBin (name : List Char) (fs : Fields)  -- `Annotated[Cls, ArrowType(pa.binary())]` (field level only)
  | schema                                  -- `pa.Schema`
  | batch                                   -- `pa.RecordBatch`
/-- the fields of a dataclass, in definition order; `dflt` = the default / `default_factory()` value -/
inductive Fields where
  | nil
  | cons (name : List Char) (transient : Bool) (dflt : Option V) (a : Ann) (rest : Fields)
end

instance : Inhabited Ann := ⟨.schema⟩
instance : Inhabited Fields := ⟨.nil⟩


def fieldNames : Fields → List (List Char)
  | .nil => []
  | .cons n _ _ _ rest => n :: fieldNames rest

end VgiVerif.C03
