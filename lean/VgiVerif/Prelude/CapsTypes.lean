/-
Types shared by the C40 spec and model: the capability-relevant settings of one `make_wsgi_app(server, …)` call, the
client's `HttpServerCapabilities`, and a header list.  No imports.
-/
namespace VgiVerif.Caps

/-- `vgi_rpc._codec.Encoding` -/
inductive Encoding where
  | zstd | gzip | identity
deriving Repr, DecidableEq

/-- response / capability headers in insertion order -/
abbrev Headers := List (List Char × List Char)

/-- the settings that have a capability header -/
structure Cfg where
  maxRequestBytes : Option Int                -- `max_request_bytes`
  maxResponseBytes : Option Int               -- `max_response_bytes`
  maxExternalizedResponseBytes : Option Int   -- `max_externalized_response_bytes`
  maxUploadBytes : Option Int                 -- `max_upload_bytes`
  storage : Bool               -- `server.external_config is not None and server.external_config.storage is not None`
  uploadProvider : Bool        -- `upload_url_provider is not None`
  compression : Bool           -- `compression_level is not None`
  zstdAvailable : Bool         -- `zstandard` importable and `VGI_HTTP_DISABLE_ZSTD != "1"` (gzip is always available)
  proofRequired : Bool         -- `proxy_proof_required`
  introspect : Bool            -- `introspect_resolver is not None`
  sticky : Bool                -- `enable_sticky`
  stickyTtl : Int              -- `int(sticky_default_ttl)` (the header is "integer seconds")
  stickyEcho : List (List Char)  -- `sticky_echo_headers.keys()` (`[]` for `None` / empty)
  /-- NOT a capability: authentication depends on headers a proxy injects (`proxy_auth_headers`, an authenticator that
      declares them, or `proxy_proof_required`), i.e. `proxy_hint` is non-empty.  Present so that a configuration with it and
      without `proofRequired` is expressible: no capability header may depend on it. -/
  proxyHint : Bool := false
deriving Repr

/-- `HttpServerCapabilities` without `cache_expires_at` (a clock reading) -/
structure Caps where
  maxRequestBytes : Option Int
  maxResponseBytes : Option Int
  maxExternalizedResponseBytes : Option Int
  externalizationEnabled : Bool
  uploadUrlSupport : Bool
  maxUploadBytes : Option Int
  supportedEncodings : List Encoding
  stickyEnabled : Bool
  stickyDefaultTtl : Option Int
  stickyEchoHeaders : List (List Char)
deriving Repr, DecidableEq

end VgiVerif.Caps
