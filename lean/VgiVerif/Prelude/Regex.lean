/-
Regex kit: the fragment of Python `re` used by vgi-rpc (literals, classes, groups, alternation,
`*`, `+`, `?`, `{m,n}` on classes, anchors handled by `Pat`).  Brzozowski-derivative matcher
(total, executable) + a denotational semantics `Lang`; `Lemmas/Regex.lean` proves they agree.
No imports: this file is linked into the native driver.
-/
namespace VgiVerif.Regex

/-- Character class: union of inclusive code-point ranges, possibly negated. -/
structure Cls where
  neg : Bool
  ranges : List (Nat × Nat)
deriving Repr, BEq, DecidableEq

def Cls.mem (c : Cls) (ch : Char) : Bool :=
  (c.ranges.any fun r => r.1 ≤ ch.toNat && ch.toNat ≤ r.2) != c.neg

inductive Re where
  | none
  | eps
  | cls (c : Cls)
  | seq (a b : Re)
  | alt (a b : Re)
  | star (a : Re)
  /-- `[c]{lo,hi}` — counted repetition of a single class. -/
  | rep (c : Cls) (lo hi : Nat)
deriving Repr

namespace Re

def chr (c : Char) : Re := .cls ⟨false, [(c.toNat, c.toNat)]⟩

/-- literal string -/
def lit : List Char → Re
  | [] => .eps
  | c :: cs => .seq (chr c) (lit cs)

def plus (a : Re) : Re := .seq a (.star a)
def opt (a : Re) : Re := .alt a .eps

def nullable : Re → Bool
  | .none => false
  | .eps => true
  | .cls _ => false
  | .seq a b => nullable a && nullable b
  | .alt a b => nullable a || nullable b
  | .star _ => true
  | .rep _ lo _ => lo == 0

def isNone : Re → Bool
  | .none => true
  | _ => false

/-- smart constructors keep derivative terms small (`none` is absorbing / neutral). -/
def mkSeq (a b : Re) : Re := if a.isNone then .none else .seq a b
def mkAlt (a b : Re) : Re := if a.isNone then b else if b.isNone then a else .alt a b

def deriv (ch : Char) : Re → Re
  | .none => .none
  | .eps => .none
  | .cls c => if c.mem ch then .eps else .none
  | .seq a b =>
      if nullable a then mkAlt (mkSeq (deriv ch a) b) (deriv ch b) else mkSeq (deriv ch a) b
  | .alt a b => mkAlt (deriv ch a) (deriv ch b)
  | .star a => mkSeq (deriv ch a) (.star a)
  | .rep c lo hi => if hi = 0 || !c.mem ch then .none else .rep c (lo - 1) (hi - 1)

/-- whole-string match (`re.fullmatch` on an anchor-free body). -/
def «matches» (r : Re) : List Char → Bool
  | [] => nullable r
  | ch :: s => «matches» (deriv ch r) s

end Re

/-- Kleene closure of a language (non-empty pieces, so it is well behaved for induction). -/
inductive Star (L : List Char → Prop) : List Char → Prop
  | nil : Star L []
  | cons {s1 s2 : List Char} : L s1 → s1 ≠ [] → Star L s2 → Star L (s1 ++ s2)

/-- denotational semantics -/
def Lang : Re → List Char → Prop
  | .none, _ => False
  | .eps, s => s = []
  | .cls c, s => ∃ ch, s = [ch] ∧ c.mem ch = true
  | .seq a b, s => ∃ s1 s2, s = s1 ++ s2 ∧ Lang a s1 ∧ Lang b s2
  | .alt a b, s => Lang a s ∨ Lang b s
  | .star a, s => Star (Lang a) s
  | .rep c lo hi, s => lo ≤ s.length ∧ s.length ≤ hi ∧ ∀ x ∈ s, c.mem x = true

/-- How Python anchors a compiled pattern (the only forms the extractor accepts). -/
inductive EndAnchor where
  | open      -- no end anchor
  | dollar    -- `$`  : end of string, or just before one trailing "\n"
  | bigZ      -- `\Z` : end of string only
deriving Repr, BEq, DecidableEq

structure Pat where
  startAnchored : Bool      -- leading `^` or `\A`
  body : Re
  endAnchor : EndAnchor
deriving Repr

def anyChar : Re := .cls ⟨true, []⟩
def anyStar : Re := .star anyChar
def newline : Re := Re.chr '\n'

/-- `re.match(p, s) is not None` -/
def Pat.pyMatch (p : Pat) (s : List Char) : Bool :=
  match p.endAnchor with
  | .open => (Re.seq p.body anyStar).matches s
  | .dollar => (Re.seq p.body (.alt .eps newline)).matches s
  | .bigZ => p.body.matches s

/-- `re.fullmatch(p, s) is not None` (a trailing `$` cannot skip a newline under fullmatch). -/
def Pat.pyFullmatch (p : Pat) (s : List Char) : Bool := p.body.matches s

/-- `re.search(p, s) is not None` -/
def Pat.pySearch (p : Pat) (s : List Char) : Bool :=
  if p.startAnchored then p.pyMatch s
  else match p.endAnchor with
    | .open => (Re.seq anyStar (.seq p.body anyStar)).matches s
    | .dollar => (Re.seq anyStar (.seq p.body (.alt .eps newline))).matches s
    | .bigZ => (Re.seq anyStar p.body).matches s

end VgiVerif.Regex
