/-
<<<<<<< HEAD
URL-safe base64 without padding (RFC 4648 §5), the way `vgi_rpc/http/_proof.py` uses it:
`_b64 raw  = urlsafe_b64encode(raw).rstrip(b"=")`,
`_unb64 t  = urlsafe_b64decode(t + "=" * (-len(t) % 4))`.
For text made of alphabet characters only, CPython's (non-strict) decoder turns every full group of four
sextets into three bytes, a final group of three into two bytes and a final group of two into one byte
(excess low bits are dropped, *not* checked), and raises `binascii.Error` when one character is left over.
Text with characters outside the alphabet is not modelled (`none`); the verifier never decodes such text.
No imports: linked into the native driver.
-/
namespace VgiVerif.Base64

/-- sextet value of an alphabet character -/
def val (c : Char) : Option Nat :=
  let n := c.toNat
  if 65 ≤ n ∧ n ≤ 90 then some (n - 65)
  else if 97 ≤ n ∧ n ≤ 122 then some (n - 71)
  else if 48 ≤ n ∧ n ≤ 57 then some (n + 4)
  else if n = 45 then some 62
  else if n = 95 then some 63
  else none

/-- alphabet character of a sextet -/
def chr (k : Nat) : Char :=
  if k < 26 then Char.ofNat (65 + k)
  else if k < 52 then Char.ofNat (71 + k)
  else if k < 62 then Char.ofNat (k - 4)
  else if k = 62 then '-' else '_'

def vals : List Char → Option (List Nat)
  | [] => some []
  | c :: cs =>
    match val c, vals cs with
    | some v, some vs => some (v :: vs)
    | _, _ => none

def decSextets : List Nat → List UInt8
  | a :: b :: c :: d :: r =>
    let n := a * 262144 + b * 4096 + c * 64 + d
    UInt8.ofNat (n / 65536) :: UInt8.ofNat (n / 256 % 256) :: UInt8.ofNat (n % 256) :: decSextets r
  | [a, b, c] =>
    let n := a * 4096 + b * 64 + c
    [UInt8.ofNat (n / 1024), UInt8.ofNat (n / 4 % 256)]
  | [a, b] => [UInt8.ofNat ((a * 64 + b) / 16)]
  | _ => []

/-- `_unb64` on alphabet-only text; `none` = `binascii.Error` (length ≡ 1 mod 4) or text outside the alphabet -/
def decode (s : List Char) : Option (List UInt8) :=
  if s.length % 4 = 1 then none
  else match vals s with
    | some vs => some (decSextets vs)
    | none => none

def encSextets : List UInt8 → List Nat
  | a :: b :: c :: r =>
    let n := a.toNat * 65536 + b.toNat * 256 + c.toNat
    n / 262144 :: n / 4096 % 64 :: n / 64 % 64 :: n % 64 :: encSextets r
  | [a, b] =>
    let n := (a.toNat * 256 + b.toNat) * 4
    [n / 4096, n / 64 % 64, n % 64]
  | [a] => [a.toNat * 16 / 64, a.toNat * 16 % 64]
  | [] => []

/-- `_b64` -/
def encode (b : List UInt8) : List Char := (encSextets b).map chr
=======
Standard-alphabet base64 as CPython implements it (`base64.b64encode`, and `base64.b64decode(s, validate=True)` =
`binascii.a2b_base64(s, strict_mode=True)`): only alphabet characters, then exactly the padding that completes the
last quantum, nothing after it.  Like CPython, `decValidate` ignores the unused low bits of the last quantum
(`QR==` and `QQ==` both decode to `A`) — which is why the token openers re-encode and compare.
Executable; used by the driver for the differential check against the interpreter.
-/
namespace VgiVerif.Base64

abbrev Bytes := List UInt8

def alphabet : Bytes :=
  "ABCDEFGHIJKLMNOPQRSTUVWXYZabcdefghijklmnopqrstuvwxyz0123456789+/".toList.map (fun c => UInt8.ofNat c.toNat)

def pad : UInt8 := 61

def ch (n : Nat) : UInt8 := alphabet.getD n 0

def enc : Bytes → Bytes
  | [] => []
  | [a] => [ch (a.toNat / 4), ch (a.toNat % 4 * 16), pad, pad]
  | [a, b] => [ch (a.toNat / 4), ch (a.toNat % 4 * 16 + b.toNat / 16), ch (b.toNat % 16 * 4), pad]
  | a :: b :: c :: r =>
    ch (a.toNat / 4) :: ch (a.toNat % 4 * 16 + b.toNat / 16) :: ch (b.toNat % 16 * 4 + c.toNat / 64) :: ch (c.toNat % 64) :: enc r

def val (c : UInt8) : Option Nat :=
  let i := alphabet.idxOf c
  if i < 64 then some i else none

/-- 6-bit values → bytes; `none` when one data character is left over -/
def unsextets : List Nat → Option Bytes
  | [] => some []
  | [_] => none
  | [a, b] => some [UInt8.ofNat (a * 4 + b / 16)]
  | [a, b, c] => some [UInt8.ofNat (a * 4 + b / 16), UInt8.ofNat (b % 16 * 16 + c / 4)]
  | a :: b :: c :: d :: r =>
    match unsextets r with
    | none => none
    | some t => some (UInt8.ofNat (a * 4 + b / 16) :: UInt8.ofNat (b % 16 * 16 + c / 4) :: UInt8.ofNat (c % 4 * 64 + d) :: t)

/-- `base64.b64decode(s, validate=True)`; `none` = `binascii.Error` -/
def decValidate (s : Bytes) : Option Bytes :=
  let data := s.takeWhile (· != pad)
  let tail := s.dropWhile (· != pad)
  match data.mapM val with
  | none => none
  | some vs =>
    let need := match vs.length % 4 with | 0 => 0 | 2 => 2 | 3 => 1 | _ => 5
    if need = 5 then none
    else if tail = List.replicate need pad then unsextets vs else none
>>>>>>> ws-g10

end VgiVerif.Base64
