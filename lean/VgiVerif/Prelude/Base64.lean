/-
URL-safe base64 without padding (RFC 4648 §5), the way `vgi_rpc/http/_proof.py` uses it:
`_b64 raw  = urlsafe_b64encode(raw).rstrip(b"=")`,
`_unb64 t  = urlsafe_b64decode(t + "=" * (-len(t) % 4))`.
For text made of alphabet characters only, CPython's (non-strict) decoder turns every full group of four
sextets into three bytes, a final group of three into two bytes and a final group of two into one byte
(excess low bits are dropped, *not* checked), and raises `binascii.Error` when one character is left over.
Text with characters outside the alphabet is not modelled (`none`); the verifier never decodes such text.
No imports: linked into the native driver.
-/
namespace VgiVerif.Base64

/-- sextet value of an alphabet character -/
def val (c : Char) : Option Nat :=
  let n := c.toNat
  if 65 ≤ n ∧ n ≤ 90 then some (n - 65)
  else if 97 ≤ n ∧ n ≤ 122 then some (n - 71)
  else if 48 ≤ n ∧ n ≤ 57 then some (n + 4)
  else if n = 45 then some 62
  else if n = 95 then some 63
  else none

/-- alphabet character of a sextet -/
def chr (k : Nat) : Char :=
  if k < 26 then Char.ofNat (65 + k)
  else if k < 52 then Char.ofNat (71 + k)
  else if k < 62 then Char.ofNat (k - 4)
  else if k = 62 then '-' else '_'

def vals : List Char → Option (List Nat)
  | [] => some []
  | c :: cs =>
    match val c, vals cs with
    | some v, some vs => some (v :: vs)
    | _, _ => none

def decSextets : List Nat → List UInt8
  | a :: b :: c :: d :: r =>
    let n := a * 262144 + b * 4096 + c * 64 + d
    UInt8.ofNat (n / 65536) :: UInt8.ofNat (n / 256 % 256) :: UInt8.ofNat (n % 256) :: decSextets r
  | [a, b, c] =>
    let n := a * 4096 + b * 64 + c
    [UInt8.ofNat (n / 1024), UInt8.ofNat (n / 4 % 256)]
  | [a, b] => [UInt8.ofNat ((a * 64 + b) / 16)]
  | _ => []

/-- `_unb64` on alphabet-only text; `none` = `binascii.Error` (length ≡ 1 mod 4) or text outside the alphabet -/
def decode (s : List Char) : Option (List UInt8) :=
  if s.length % 4 = 1 then none
  else match vals s with
    | some vs => some (decSextets vs)
    | none => none

def encSextets : List UInt8 → List Nat
  | a :: b :: c :: r =>
    let n := a.toNat * 65536 + b.toNat * 256 + c.toNat
    n / 262144 :: n / 4096 % 64 :: n / 64 % 64 :: n % 64 :: encSextets r
  | [a, b] =>
    let n := (a.toNat * 256 + b.toNat) * 4
    [n / 4096, n / 64 % 64, n % 64]
  | [a] => [a.toNat * 16 / 64, a.toNat * 16 % 64]
  | [] => []

/-- `_b64` -/
def encode (b : List UInt8) : List Char := (encSextets b).map chr

end VgiVerif.Base64
