import VgiVerif.Gen.Codec
/-
Shared vocabulary of C17 / C18 / C19 (`vgi_rpc/_codec.py`): the `Encoding` enum over the *extracted* member
table, comparison operators as extracted, and the environment abstraction of the two compression libraries.

zstd / zlib themselves are environment (DESIGN §3.4): a compressed byte string is seen only through what the
library reports and does for it —
  * `ZFrame`: `get_frame_parameters(data).content_size`, the one-shot `decompress(data)`, `stream_reader(data)`;
  * `GFrame`: a `zlib.decompressobj(31)` that is about to be fed `data`.
The bounded loops that drive these objects are this repository's code and are modelled in `Model/C18.lean`.
No imports beyond `Gen`: linked into the native driver.
-/
namespace VgiVerif.Codec

abbrev Bytes := List UInt8

/-- `class Encoding(enum.Enum)` -/
inductive Enc where
  | zstd | gzip | identity
deriving DecidableEq, Repr

def Enc.name : Enc → String
  | .zstd => "ZSTD" | .gzip => "GZIP" | .identity => "IDENTITY"

def Enc.ofName (n : String) : Option Enc :=
  if n = "ZSTD" then some .zstd else if n = "GZIP" then some .gzip else if n = "IDENTITY" then some .identity else none

/-- `list(Encoding)` — iteration order is definition order (extracted) -/
def Enc.all : List Enc := Gen.Codec.encodingMembers.filterMap (fun m => Enc.ofName m.1)

/-- `enc.value` (extracted) -/
def Enc.value (e : Enc) : List Char :=
  match Gen.Codec.encodingMembers.find? (fun m => m.1 = e.name) with
  | some m => m.2
  | none => []

/-- `next((e for e in Encoding if e.value == t), None)` -/
def Enc.ofValue (t : List Char) : Option Enc := Enc.all.find? (fun e => e.value = t)

/-- a Python comparison `a <op> b` on non-negative ints, operator as extracted (`ast` class name) -/
def cmp (op : String) (a b : Nat) : Bool :=
  if op = "Gt" then decide (b < a)
  else if op = "GtE" then decide (b ≤ a)
  else if op = "Lt" then decide (a < b)
  else if op = "LtE" then decide (a ≤ b)
  else if op = "Eq" then decide (a = b)
  else if op = "NotEq" then decide (a ≠ b)
  else false

/-- outcome of a decode: bytes, `DecompressionLimitExceeded`, any other exception of the library / of
`_codec.py` (`corrupt`), `ValueError("Unsupported encoding")`, or the model's fuel ran out (proved impossible) -/
inductive Res where
  | ok (b : Bytes)
  | limit
  | corrupt
  | unsupported
  | fuel
deriving DecidableEq, Repr

/-- what one call of a decode function did -/
structure Run where
  out : Res
  /-- decoded bytes held by the function when it returned / raised (the "materialised" quantity of C17) -/
  peak : Nat
  /-- output sizes requested from the library, in call order (`read(n)` / `decompress(inbuf, n)`) -/
  reads : List Nat
deriving DecidableEq, Repr

/-- `ZstdDecompressor().stream_reader(data)`: `read s n = none` models the library raising -/
structure Reader where
  σ : Type
  read : σ → Nat → Option (Bytes × σ)

/-- a zstd-compressed byte string as the library shows it -/
structure ZFrame where
  /-- `zstandard.get_frame_parameters(data).content_size` (`none`: raises — not a frame) -/
  rawSize : Option Int
  /-- `ZstdDecompressor().decompress(data)` (`none`: raises) -/
  oneShot : Option Bytes
  /-- `stream_reader(data).read()` — read to the end (`none`: raises) -/
  readAll : Option Bytes
  R : Reader
  s0 : R.σ

/-- a `zlib.decompressobj(31)` -/
structure ZObj where
  σ : Type
  /-- `do.decompress(inbuf, max_length)`; the flag says `inbuf` is the fresh `remaining` (else `do.unconsumed_tail`) -/
  dec : σ → Bool → Nat → Option (Bytes × σ)
  /-- `do.decompress(data)` without `max_length` -/
  decAll : σ → Option (Bytes × σ)
  /-- `bool(do.unconsumed_tail)` -/
  hasTail : σ → Bool
  /-- `do.flush()` -/
  flush : σ → Option (Bytes × σ)
  /-- `do.eof` -/
  eof : σ → Bool

/-- a gzip-compressed byte string: a fresh decompress object, and `bool(data)` -/
structure GFrame where
  Z : ZObj
  s0 : Z.σ
  nonempty : Bool

/-- the two libraries -/
structure Libs where
  zstdView : Bytes → ZFrame
  gzipView : Bytes → GFrame
  /-- `ZstdCompressor(level=l).compress(data)` -/
  zstdCompress : Int → Bytes → Bytes
  /-- `compressobj(l, DEFLATED, 31)`: `co.compress(data) + co.flush(Z_FINISH)` -/
  gzipCompress : Int → Bytes → Bytes

end VgiVerif.Codec
