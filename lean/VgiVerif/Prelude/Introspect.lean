/-
Data types shared by the C36 spec and model (token introspection endpoint): pure data, no logic.
No imports: linked into the native driver.
-/
namespace VgiVerif.Introspect

/-- a Python `float` as far as the endpoint can tell values apart -/
inductive FloatClass where
  | nan | posInf | negInf | neg | zero | pos
deriving Repr, DecidableEq

/-- `TokenIdentity.ttl_seconds` as returned by a resolver (any Python object) -/
inductive Ttl where
  | int (n : Int)
  | float (c : FloatClass) (text : List Char)   -- `text` = `repr`, carried through to the body
  | bool (b : Bool)
  | other (text : List Char)                    -- `None`, a `str`, …: whatever `json.dumps` would print
deriving Repr, DecidableEq

structure Identity where
  principal : List Char
  tokenName : List Char
  ttl : Ttl
deriving Repr, DecidableEq

/-- what a resolver does with a credential -/
inductive Outcome where
  | identity (i : Identity)
  | none                                                    -- did not resolve
  | unavailable (detail : List Char) (retryAfter : Int)     -- raises `AuthUnavailableError(detail, retry_after=…)`
  | raises                                                  -- any other exception
deriving Repr, DecidableEq

abbrev Resolver := List Char → Outcome

/-- the `AuthContext` the endpoint sees -/
structure Caller where
  authenticated : Bool
  principal : List Char        -- `auth.principal or ""`
deriving Repr, DecidableEq

/-- the `"token"` member of a JSON object body -/
inductive TokenField where
  | missing
  | notStr
  | unencodable (len : Nat)    -- a `str` holding a lone surrogate (JSON `"\ud800"`): no UTF-8 form
  | str (s : List Char)
deriving Repr, DecidableEq

/-- `json.loads(raw)` -/
inductive Parsed where
  | invalid                    -- `ValueError` / `UnicodeDecodeError`
  | notObject
  | object (t : TokenField)
deriving Repr, DecidableEq

structure Req where
  contentLength : Option Nat   -- `req.content_length`
  rawLen : Nat                 -- bytes `bounded_stream.read(MAX + 1)` returns
  parsed : Parsed
deriving Repr, DecidableEq

structure Cfg where
  allow : List (List Char)     -- the introspector allow-list (non-empty strings)
  limiterAllows : Bool         -- `_RateLimiter.allow(caller)` for this request
deriving Repr, DecidableEq

inductive RetryAfter where
  | lit (s : String)
  | secs (n : Int)
deriving Repr, DecidableEq

inductive Body where
  | error (code : String)                       -- `{"error":"<code>"}`, compact
  | identity (i : Identity)                     -- `{"principal":…,"token_name":…,"ttl_seconds":…}`, compact, exactly these keys
  | falcon (description : Option (List Char))   -- Falcon's own error document (title, optional description)
deriving Repr, DecidableEq

structure Response where
  status : Nat
  body : Body
  noStore : Bool                                -- `Cache-Control: no-store`
  retryAfter : Option RetryAfter
deriving Repr, DecidableEq

/-- what else is observable of one request -/
structure Trace where
  bodyRead : Bool
  resolverCalls : Nat
deriving Repr, DecidableEq

end VgiVerif.Introspect
