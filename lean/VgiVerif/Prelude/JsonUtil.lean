import Lean.Data.Json
/-
JSON helpers for the driver's line protocol (DESIGN Appendix E).
`str` values travel as arrays of code points (or plain JSON strings), `bytes` as lowercase hex.
-/
namespace VgiVerif.J
open Lean

abbrev R := Except String

def field (j : Json) (k : String) : R Json :=
  match j.getObjVal? k with
  | .ok v => .ok v
  | .error _ => .error s!"missing field {k}"

def fieldOpt (j : Json) (k : String) : Option Json :=
  match j.getObjVal? k with
  | .ok .null => none
  | .ok v => some v
  | .error _ => none

def nat (j : Json) : R Nat :=
  match j.getNat? with
  | .ok n => .ok n
  | .error _ => .error s!"expected nat, got {j.compress}"

def int (j : Json) : R Int :=
  match j.getInt? with
  | .ok n => .ok n
  | .error _ => .error s!"expected int, got {j.compress}"

def bool (j : Json) : R Bool :=
  match j.getBool? with
  | .ok n => .ok n
  | .error _ => .error s!"expected bool, got {j.compress}"

def arr (j : Json) : R (List Json) :=
  match j.getArr? with
  | .ok a => .ok a.toList
  | .error _ => .error s!"expected array, got {j.compress}"

/-- a Python `str`: array of code points, or a JSON string -/
def str (j : Json) : R (List Char) :=
  match j with
  | .str s => .ok s.toList
  | .arr a => a.toList.mapM (fun x => do let n ← nat x; pure (Char.ofNat n))
  | _ => .error s!"expected str, got {j.compress}"

def rawStr (j : Json) : R String :=
  match j.getStr? with
  | .ok s => .ok s
  | .error _ => .error s!"expected string, got {j.compress}"

def hexVal (c : Char) : Option Nat :=
  if '0' ≤ c ∧ c ≤ '9' then some (c.toNat - 48)
  else if 'a' ≤ c ∧ c ≤ 'f' then some (c.toNat - 87)
  else none

def hexBytes : List Char → R (List UInt8)
  | [] => .ok []
  | a :: b :: r =>
    match hexVal a, hexVal b with
    | some x, some y => do let t ← hexBytes r; pure (UInt8.ofNat (x * 16 + y) :: t)
    | _, _ => .error "bad hex"
  | _ => .error "odd hex"

/-- Python `bytes` as lowercase hex -/
def bytes (j : Json) : R (List UInt8) := do
  let s ← rawStr j
  hexBytes s.toList

def strF (j : Json) (k : String) : R (List Char) := do str (← field j k)
def natF (j : Json) (k : String) : R Nat := do nat (← field j k)
def intF (j : Json) (k : String) : R Int := do int (← field j k)
def boolF (j : Json) (k : String) : R Bool := do bool (← field j k)
def arrF (j : Json) (k : String) : R (List Json) := do arr (← field j k)
def bytesF (j : Json) (k : String) : R (List UInt8) := do bytes (← field j k)

def ofStr (s : List Char) : Json := Json.arr (s.map (fun c => Json.num c.toNat)).toArray
def ofNat (n : Nat) : Json := Json.num n
def ofInt (n : Int) : Json := Json.num n
def ofBool (b : Bool) : Json := Json.bool b
def ofList (l : List Json) : Json := Json.arr l.toArray
def ofOpt {α} (f : α → Json) : Option α → Json
  | none => Json.null
  | some a => f a

def hexDigit (n : Nat) : Char := if n < 10 then Char.ofNat (48 + n) else Char.ofNat (87 + n)
def ofBytes (b : List UInt8) : Json :=
  Json.str (String.ofList (b.flatMap fun x => [hexDigit (x.toNat / 16), hexDigit (x.toNat % 16)]))

def obj (kvs : List (String × Json)) : Json := Json.mkObj kvs

end VgiVerif.J
