/-
SHA-256 (FIPS 180-4) and HMAC (RFC 2104) over `List UInt8`, for the native driver only: the *theorems* treat the MAC
as a function of the environment (symbolic); this executable instance lets the driver produce and check the very
cookies the implementation produces, so the correspondence (K) compares cookie strings byte for byte.
Validated differentially against `hashlib` / `hmac` by the harness on every run.
-/
namespace VgiVerif.Sha256

def K : Array UInt32 := #[
  0x428a2f98, 0x71374491, 0xb5c0fbcf, 0xe9b5dba5, 0x3956c25b, 0x59f111f1, 0x923f82a4, 0xab1c5ed5,
  0xd807aa98, 0x12835b01, 0x243185be, 0x550c7dc3, 0x72be5d74, 0x80deb1fe, 0x9bdc06a7, 0xc19bf174,
  0xe49b69c1, 0xefbe4786, 0x0fc19dc6, 0x240ca1cc, 0x2de92c6f, 0x4a7484aa, 0x5cb0a9dc, 0x76f988da,
  0x983e5152, 0xa831c66d, 0xb00327c8, 0xbf597fc7, 0xc6e00bf3, 0xd5a79147, 0x06ca6351, 0x14292967,
  0x27b70a85, 0x2e1b2138, 0x4d2c6dfc, 0x53380d13, 0x650a7354, 0x766a0abb, 0x81c2c92e, 0x92722c85,
  0xa2bfe8a1, 0xa81a664b, 0xc24b8b70, 0xc76c51a3, 0xd192e819, 0xd6990624, 0xf40e3585, 0x106aa070,
  0x19a4c116, 0x1e376c08, 0x2748774c, 0x34b0bcb5, 0x391c0cb3, 0x4ed8aa4a, 0x5b9cca4f, 0x682e6ff3,
  0x748f82ee, 0x78a5636f, 0x84c87814, 0x8cc70208, 0x90befffa, 0xa4506ceb, 0xbef9a3f7, 0xc67178f2]

def H0 : Array UInt32 := #[
  0x6a09e667, 0xbb67ae85, 0x3c6ef372, 0xa54ff53a, 0x510e527f, 0x9b05688c, 0x1f83d9ab, 0x5be0cd19]

def rotr (x : UInt32) (n : UInt32) : UInt32 := (x >>> n) ||| (x <<< (32 - n))

def be32 (a b c d : UInt8) : UInt32 :=
  (a.toUInt32 <<< 24) ||| (b.toUInt32 <<< 16) ||| (c.toUInt32 <<< 8) ||| d.toUInt32

def words : List UInt8 → List UInt32
  | a :: b :: c :: d :: r => be32 a b c d :: words r
  | _ => []

/-- message schedule: extend 16 words to 64 -/
def schedule (w : Array UInt32) : Array UInt32 := Id.run do
  let mut w := w
  for i in [16:64] do
    let w15 := w[i - 15]!
    let w2 := w[i - 2]!
    let s0 := rotr w15 7 ^^^ rotr w15 18 ^^^ (w15 >>> 3)
    let s1 := rotr w2 17 ^^^ rotr w2 19 ^^^ (w2 >>> 10)
    w := w.push (w[i - 16]! + s0 + w[i - 7]! + s1)
  return w

def compress (h : Array UInt32) (block : List UInt8) : Array UInt32 := Id.run do
  let w := schedule (words block).toArray
  let mut a := h[0]!
  let mut b := h[1]!
  let mut c := h[2]!
  let mut d := h[3]!
  let mut e := h[4]!
  let mut f := h[5]!
  let mut g := h[6]!
  let mut hh := h[7]!
  for i in [0:64] do
    let s1 := rotr e 6 ^^^ rotr e 11 ^^^ rotr e 25
    let ch := (e &&& f) ^^^ ((~~~ e) &&& g)
    let t1 := hh + s1 + ch + K[i]! + w[i]!
    let s0 := rotr a 2 ^^^ rotr a 13 ^^^ rotr a 22
    let maj := (a &&& b) ^^^ (a &&& c) ^^^ (b &&& c)
    let t2 := s0 + maj
    hh := g; g := f; f := e; e := d + t1; d := c; c := b; b := a; a := t1 + t2
  return #[h[0]! + a, h[1]! + b, h[2]! + c, h[3]! + d, h[4]! + e, h[5]! + f, h[6]! + g, h[7]! + hh]

def be64 (n : Nat) : List UInt8 :=
  (List.range 8).map (fun i => UInt8.ofNat (n / 256 ^ (7 - i) % 256))

def pad (msg : List UInt8) : List UInt8 :=
  let l := msg.length
  let zeros := (119 - l % 64) % 64   -- so that l + 1 + zeros + 8 ≡ 0 (mod 64)
  msg ++ [0x80] ++ List.replicate zeros 0 ++ be64 (l * 8)

def blocks : Nat → List UInt8 → List (List UInt8)
  | 0, _ => []
  | fuel + 1, m => if m.isEmpty then [] else m.take 64 :: blocks fuel (m.drop 64)

def unword (x : UInt32) : List UInt8 :=
  [(x >>> 24).toUInt8, (x >>> 16).toUInt8, (x >>> 8).toUInt8, x.toUInt8]

def sha256 (msg : List UInt8) : List UInt8 :=
  let p := pad msg
  let h := (blocks (p.length / 64 + 1) p).foldl compress H0
  h.toList.flatMap unword

def hmac (key msg : List UInt8) : List UInt8 :=
  let k := if key.length > 64 then sha256 key else key
  let k := k ++ List.replicate (64 - k.length) 0
  sha256 (k.map (· ^^^ 0x5c) ++ sha256 (k.map (· ^^^ 0x36) ++ msg))

end VgiVerif.Sha256
