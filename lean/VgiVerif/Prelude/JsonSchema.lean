/-
A small JSON-Schema (2020-12) evaluator for *flat* record schemas: the subset `vgi_rpc/access_log.schema.json` uses.

  * an instance is a finite map `κ → Option JV` over an (extracted) key type `κ`; values are scalars or an opaque object;
  * a property schema is a conjunction of atomic keywords (`type`, `const`, `enum`, `minLength`, `minimum`, `maximum`,
    `exclusiveMinimum`, `pattern`);
  * the `allOf` entries are formulas over `required` / `properties:{k: atom}` built with `allOf`, `anyOf`, `not`, `if/then`.

Keyword semantics follow the JSON-Schema specification as implemented by python-jsonschema (the validator the repository's
`access_log_conformance.py` uses): a keyword that does not apply to the instance's type is satisfied; `properties` constrains a
key only when it is present; `pattern` is an unanchored `re.search` (so `$` also matches before one trailing newline).
The transcription produced by `extract/gen_c34.py` and this evaluator are compared with python-jsonschema on generated records
by every run of `./check C34`.  No imports (linked into the native driver).
-/
namespace VgiVerif.JsonSchema

abbrev Str := List Char

/-- a JSON value as far as the access-log schema can tell values apart; `num` is a non-integer number in thousandths -/
inductive JV where
  | str (s : Str)
  | int (n : Int)
  | num (milli : Int)
  | bool (b : Bool)
  | obj
  | null
deriving Repr, DecidableEq

inductive Ty where
  | string | boolean | number | integer | object
deriving Repr, DecidableEq

/-- the regular expressions the schema uses, recognised by the extractor (anything else fails the extraction) -/
inductive Pat where
  | hexLen (n : Nat)       -- ^[0-9a-f]{n}$
  | base64                 -- ^[A-Za-z0-9+/]+={0,2}$
  | timestamp              -- ^[0-9]{4}-[0-9]{2}-[0-9]{2}T[0-9]{2}:[0-9]{2}:[0-9]{2}\.[0-9]{3}Z$
deriving Repr, DecidableEq

inductive Atom where
  | type (t : Ty)
  | const (v : JV)
  | enum (vs : List JV)
  | minLength (n : Nat)
  | minimum (n : Int)
  | maximum (n : Int)
  | exclusiveMinimum (n : Int)
  | pattern (p : Pat)
deriving Repr, DecidableEq

def isDigit (c : Char) : Bool := '0' ≤ c && c ≤ '9'
def isLowerHex (c : Char) : Bool := isDigit c || ('a' ≤ c && c ≤ 'f')
def isB64 (c : Char) : Bool := isDigit c || ('a' ≤ c && c ≤ 'z') || ('A' ≤ c && c ≤ 'Z') || c == '+' || c == '/'

/-- Python's `$`: end of string, or just before a final newline -/
def dropFinalNewline (s : Str) : Str :=
  match s.reverse with
  | '\n' :: r => r.reverse
  | _ => s

/-- shape of the timestamp pattern: `d` = one digit, any other character = itself -/
def tsShape : Str := "dddd-dd-ddTdd:dd:dd.dddZ".toList

def matchShape : Str → Str → Bool
  | [], [] => true
  | p :: ps, c :: cs => (if p == 'd' then isDigit c else c == p) && matchShape ps cs
  | _, _ => false

/-- `[A-Za-z0-9+/]+={0,2}` anchored at both ends -/
def isBase64 (s : Str) : Bool :=
  let body := s.takeWhile isB64
  let pad := s.dropWhile isB64
  !body.isEmpty && pad.all (· == '=') && decide (pad.length ≤ 2)

def fullMatch : Pat → Str → Bool
  | .hexLen n, s => s.length == n && s.all isLowerHex
  | .base64, s => isBase64 s
  | .timestamp, s => matchShape tsShape s

/-- `re.search(pattern, s)` for the (fully anchored) patterns above -/
def patOk (p : Pat) (s : Str) : Bool := fullMatch p s || fullMatch p (dropFinalNewline s)

def tyOk : Ty → JV → Bool
  | .string, .str _ => true
  | .boolean, .bool _ => true
  | .number, .int _ => true
  | .number, .num _ => true
  | .integer, .int _ => true
  | .object, .obj => true
  | _, _ => false

def Atom.ok : Atom → JV → Bool
  | .type t, v => tyOk t v
  | .const c, v => v == c
  | .enum cs, v => cs.contains v
  | .minLength n, .str s => decide (n ≤ s.length)
  | .minLength _, _ => true
  | .minimum n, .int k => decide (n ≤ k)
  | .minimum n, .num m => decide (n * 1000 ≤ m)
  | .minimum _, _ => true
  | .maximum n, .int k => decide (k ≤ n)
  | .maximum n, .num m => decide (m ≤ n * 1000)
  | .maximum _, _ => true
  | .exclusiveMinimum n, .int k => decide (n < k)
  | .exclusiveMinimum n, .num m => decide (n * 1000 < m)
  | .exclusiveMinimum _, _ => true
  | .pattern p, .str s => patOk p s
  | .pattern _, _ => true

/-- formulas of the `allOf` section -/
inductive F (κ : Type) where
  | tt
  | req (k : κ)                        -- {"required": [k]}
  | holds (k : κ) (a : Atom)           -- {"properties": {k: {a}}}: satisfied when k is absent
  | and (a b : F κ)
  | or (a b : F κ)
  | not (a : F κ)
  | imp (c t : F κ)                    -- {"if": c, "then": t}
deriving Repr

def F.eval {κ : Type} (g : κ → Option JV) : F κ → Bool
  | .tt => true
  | .req k => (g k).isSome
  | .holds k a => match g k with | none => true | some v => a.ok v
  | .and a b => a.eval g && b.eval g
  | .or a b => a.eval g || b.eval g
  | .not a => !a.eval g
  | .imp c t => !c.eval g || t.eval g

structure Schema (κ : Type) where
  required : List κ
  props : List (κ × List Atom)
  conds : List (F κ)

def propOk {κ : Type} (g : κ → Option JV) (p : κ × List Atom) : Bool :=
  match g p.1 with
  | none => true
  | some v => p.2.all (·.ok v)

/-- the instance `g` validates against the schema -/
def Schema.ok {κ : Type} (s : Schema κ) (g : κ → Option JV) : Bool :=
  s.required.all (fun k => (g k).isSome) && s.props.all (propOk g) && s.conds.all (F.eval g)

end VgiVerif.JsonSchema
