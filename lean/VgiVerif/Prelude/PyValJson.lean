import VgiVerif.Prelude.JsonUtil
import VgiVerif.Prelude.PyVal
/-
JSON codec of `Py.V` / `Py.ATy` for the driver's line protocol (shared by the C02 and C03 drivers).

  null → None · {"b":bool} · {"i":int} · {"f":bits} · {"s":[code points]} · {"y":"hex"} · {"e":[code points]} (Enum member name)
  {"n":[kind,a,b]} · {"ao":[kind,id]} · {"ipc":V} · {"pk":V} · {"tg":[tag,V]} · {"l":[V…]} · {"t":[V…]} · {"fs":[V…]}
  {"d":[[k,v]…]} · {"o":[[class name code points],[[field name code points],V]…]}
-/
namespace VgiVerif.Py.Json
open Lean VgiVerif.J VgiVerif.Py

def fld (j : Json) (k : String) : Option Json :=
  match j.getObjVal? k with
  | .ok v => some v
  | .error _ => Option.none

partial def toV (j : Json) : J.R V := do
  match j with
  | .null => pure .none
  | _ =>
    if let some x := fieldOpt j "b" then return .bool (← bool x)
    if let some x := fieldOpt j "i" then return .int (← int x)
    if let some x := fieldOpt j "f" then return .float (← nat x)
    if let some x := fieldOpt j "s" then return .str (← str x)
    if let some x := fieldOpt j "y" then return .bytes (← bytes x)
    if let some x := fieldOpt j "e" then return .enum (← str x)
    if let some x := fieldOpt j "n" then
      match (← arr x) with
      | [k, a, b] => return .native (← nat k) (← int a) (← int b)
      | _ => throw "bad native"
    if let some x := fieldOpt j "ao" then
      match (← arr x) with
      | [k, i] => return .arrowObj (← nat k) (← nat i)
      | _ => throw "bad arrowObj"
    if let some x := fld j "ipc" then return .ipc (← toV x)
    if let some x := fld j "pk" then return .packed (← toV x)
    if let some x := fieldOpt j "tg" then
      match (← arr x) with
      | [t, p] => return .tagged (← nat t) (← toV p)
      | _ => throw "bad tagged"
    if let some x := fieldOpt j "l" then return .list (← (← arr x).mapM toV)
    if let some x := fieldOpt j "t" then return .tuple (← (← arr x).mapM toV)
    if let some x := fieldOpt j "fs" then return .set (← (← arr x).mapM toV)
    if let some x := fieldOpt j "d" then
      let ps ← (← arr x).mapM (fun p => do
        match (← arr p) with
        | [k, v] => pure ((← toV k), (← toV v))
        | _ => throw "bad dict item")
      return .dict ps
    if let some x := fieldOpt j "o" then
      match (← arr x) with
      | [n, fs] =>
        let fl ← (← arr fs).mapM (fun p => do
          match (← arr p) with
          | [k, v] => pure ((← str k), (← toV v))
          | _ => throw "bad obj field")
        return .obj (← str n) fl
      | _ => throw "bad obj"
    throw s!"bad value {j.compress}"

partial def ofV : V → Json
  | .none => Json.null
  | .bool b => obj [("b", ofBool b)]
  | .int i => obj [("i", ofInt i)]
  | .float b => obj [("f", ofNat b)]
  | .str s => obj [("s", ofStr s)]
  | .bytes b => obj [("y", ofBytes b)]
  | .enum n => obj [("e", ofStr n)]
  | .native k a b => obj [("n", ofList [ofNat k, ofInt a, ofInt b])]
  | .arrowObj k i => obj [("ao", ofList [ofNat k, ofNat i])]
  | .ipc p => obj [("ipc", ofV p)]
  | .packed p => obj [("pk", ofV p)]
  | .tagged t p => obj [("tg", ofList [ofNat t, ofV p])]
  | .list xs => obj [("l", ofList (xs.map ofV))]
  | .tuple xs => obj [("t", ofList (xs.map ofV))]
  | .set xs => obj [("fs", ofList (xs.map ofV))]
  | .dict kvs => obj [("d", ofList (kvs.map (fun p => ofList [ofV p.1, ofV p.2])))]
  | .obj n fs => obj [("o", ofList [ofStr n, ofList (fs.map (fun p => ofList [ofStr p.1, ofV p.2]))])]

def errName : Err → String
  | .typeError => "type" | .valueError => "value" | .keyError => "key" | .overflow => "overflow"
  | .ipcError => "ipc" | .runtimeError => "runtime"

def ofR (r : Py.R V) : Json :=
  match r with
  | .ok v => obj [("ok", ofV v)]
  | .error e => obj [("err", Json.str (errName e))]

def intWName : IntW → String
  | .i8 => "int8" | .i16 => "int16" | .i32 => "int32" | .i64 => "int64"
  | .u8 => "uint8" | .u16 => "uint16" | .u32 => "uint32" | .u64 => "uint64"

def intWOf (s : String) : J.R IntW :=
  match s with
  | "int8" => pure .i8 | "int16" => pure .i16 | "int32" => pure .i32 | "int64" => pure .i64
  | "uint8" => pure .u8 | "uint16" => pure .u16 | "uint32" => pure .u32 | "uint64" => pure .u64
  | _ => throw s!"bad int width {s}"

/-- canonical text of an Arrow type (the harness renders pyarrow types the same way) -/
partial def atyText : ATy → String
  | .int w => intWName w
  | .f32 => "float" | .f64 => "double" | .utf8 => "string" | .binary => "binary" | .bool => "bool"
  | .dictStr => "dictionary<int16,string>"
  | .native k p s => s!"native<{k},{p},{s}>"
  | .list t => s!"list<{atyText t}>"
  | .map k v => s!"map<{atyText k},{atyText v}>"
  | .struct fs => "struct<" ++ ",".intercalate (fs.map (fun f => String.ofList f.1 ++ ":" ++ atyText f.2)) ++ ">"

end VgiVerif.Py.Json
