import VgiVerif.Prelude.Sched
/-
Sched kit, products: a family of independent components (one per thread / connection id) next to a shared
part (a semaphore, a counter).  A label `(i, l)` is a step `l` of component `i`:

  * the component's own step `cstep (comp i) l` sees ONLY that component's state (so component states are
    disjoint parts of the global state by construction),
  * the shared part moves by `sstep shared i l (comp i)`; it may refuse the label (a blocked semaphore acquire).

`Lemmas/SchedProd.lean` proves the projection lemma (the labels of component `i` in ANY run of the product are a
run of component `i` alone, ending in the same component state) and commutation of steps of different components.
No imports beyond the Sched prelude: linked into the native driver.
-/
namespace VgiVerif.Sched

/-- component step + shared step -/
structure Prod (Sh C L : Type) where
  cstep : C → L → Option C
  sstep : Sh → Tid → L → C → Option Sh

/-- global state of a product -/
structure PSt (Sh C : Type) where
  shared : Sh
  comp : Tid → C

namespace Prod
variable {Sh C L : Type}

/-- one step of the product: label `(i, l)` moves component `i` and the shared part, nothing else -/
def step (P : Prod Sh C L) (s : PSt Sh C) (il : Tid × L) : Option (PSt Sh C) :=
  match P.sstep s.shared il.1 il.2 (s.comp il.1), P.cstep (s.comp il.1) il.2 with
  | some sh', some c' => some ⟨sh', upd s.comp il.1 c'⟩
  | _, _ => none

/-- the product as a transition system -/
def ts (P : Prod Sh C L) (init : PSt Sh C) : TS (PSt Sh C) (Tid × L) := { init := init, step := P.step }

/-- one component alone -/
def compTS (P : Prod Sh C L) (c0 : C) : TS C L := { init := c0, step := P.cstep }

end Prod

/-- the labels of component `i` in a label sequence of the product -/
def projLabels {L : Type} (i : Tid) : List (Tid × L) → List L
  | [] => []
  | (j, l) :: r => if j = i then l :: projLabels i r else projLabels i r

end VgiVerif.Sched
