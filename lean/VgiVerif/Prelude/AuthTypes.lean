import VgiVerif.Prelude.ProxyProofTypes
/-
Vocabulary of authenticate-callback composition (C24): `AuthContext`, what a callback does on one
request, and what a precondition gate does on it.  No other imports: linked into the native driver.
-/
namespace VgiVerif.Auth
open VgiVerif.PP

/-- a claim value: a plain string or a nested flat map (the gate's claims) -/
inductive ClaimVal where
  | str (s : Str)
  | map (c : Claims)
deriving Repr, DecidableEq

/-- `vgi_rpc.rpc.AuthContext` -/
structure AuthCtx where
  domain : Option Str
  authenticated : Bool
  principal : Option Str
  claims : List (Str × ClaimVal)
deriving Repr, DecidableEq

/-- `AuthContext.anonymous()` -/
def anonymous : AuthCtx := { domain := none, authenticated := false, principal := none, claims := [] }

/-- how a callback fails: the exception class decides what composition and the middleware do with it -/
inductive AuthErr where
  | value (what : Str)        -- `ValueError` (incl. `AuthFailure`): "try the next credential"
  | permission (what : Str)   -- `PermissionError` (incl. `ProofError`): refused, never swallowed
  | other (what : Str)        -- any other exception: a bug or an outage, not a rejection
deriving Repr, DecidableEq

/-- what an authenticate callback does on the current request -/
inductive AuthOut where
  | ok (ctx : AuthCtx)
  | err (e : AuthErr)
deriving Repr, DecidableEq

/-- what a precondition gate's callable does on the current request -/
inductive GateRes where
  | claims (c : Claims)
  | raises (e : AuthErr)
deriving Repr, DecidableEq

/-- `PreconditionGate(fn, name=…, claims_key=…)` on the current request -/
structure Gate where
  name : Str
  claimsKey : Str
  res : GateRes
deriving Repr, DecidableEq

/-- `d[k] = v` on an insertion-ordered dict -/
def setKey (d : List (Str × ClaimVal)) (k : Str) (v : ClaimVal) : List (Str × ClaimVal) :=
  if d.any (fun e => e.1 == k) then d.map (fun e => if e.1 == k then (k, v) else e) else d ++ [(k, v)]

/-- `{k': v' for k', v' in d.items() if k' != k}` -/
def dropKey (d : List (Str × ClaimVal)) (k : Str) : List (Str × ClaimVal) := d.filter (fun e => !(e.1 == k))

end VgiVerif.Auth
