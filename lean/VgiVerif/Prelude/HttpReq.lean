/-
Vocabulary for HTTP request *classes* on the RPC routes (C15): the dimensions of the property's quantifier
("routes × methods × bodies × content types × content encodings × tokens"), plus the two dimensions the
statement itself talks about (authentication outcome, what the dispatched code does).  Pure data: shared by
`Spec/C15` (what each class must be answered with), `Gen/HttpStatus` (extracted tables are functions over these
enums) and `Model/C15` (what the code answers).
-/
namespace VgiVerif.HttpReq

/-- `POST {prefix}/{method}` | `…/init` | `…/exchange` -/
inductive Route where
  | unary | init | exchange
  | uploadUrl      -- `POST {prefix}/__upload_url__/init`: the framework's own upload-URL method (a literal route)
deriving Repr, DecidableEq

/-- what the method name in the URL resolves to on the server -/
inductive MethodKind where
  | unary        -- a known unary method
  | producer     -- a known stream method whose input schema is empty
  | exchanger    -- a known stream method with an input schema
  | unknown      -- not a method of the service
  | describe     -- the built-in `__describe__` (unary; answered from a batch built when the server was constructed)
deriving Repr, DecidableEq

/-- exception classes Arrow / `ValidatedReader` raise while *reading* request bytes -/
inductive ParseExc where
  | arrowInvalid | osError | arrowNotImplemented | arrowKeyError | arrowTypeError | arrowOther
  | ipcError          -- the request's (first) batch fails `validate()`
  | ipcErrorLate      -- a batch *after* the first fails `validate()` while the stream is drained
  | unicodeDecode | stopIteration
deriving Repr, DecidableEq

/-- exception classes the framework raises while *validating* a well-formed request -/
inductive ValExc where
  | typeError | rpcError | versionError | protocolVersionError
deriving Repr, DecidableEq

/-- request-metadata defects of a well-formed IPC request (unary and init requests carry this metadata) -/
inductive MetaDefect where
  | noMethodKey           -- `vgi_rpc.method` absent
  | badMethodUtf8         -- `vgi_rpc.method` is not UTF-8
  | noVersionKey          -- `vgi_rpc.request_version` absent
  | badVersion            -- `vgi_rpc.request_version` ≠ "1"
  | methodMismatch        -- `vgi_rpc.method` ≠ the method in the URL
  | protocolVersion       -- `vgi_rpc.protocol_version` absent / incompatible with a service that declares one
deriving Repr, DecidableEq

/-- why the columns of a well-formed request do not fit -/
inductive ParamDefect where
  | mismatch     -- wrong / missing / extra columns, wrong row count, wrong types (`TypeError`, `RpcError`)
  | badNames     -- a field name that is not UTF-8: Arrow raises `UnicodeDecodeError` when the names are materialised
deriving Repr, DecidableEq

/-- what `_deserialize_params` raises for a well-formed request whose *value* cannot be converted back (an enum member
    name that does not exist, a nested-dataclass blob that does not decode, …) -/
inductive DeserExc where
  | keyError | valueError | overflowError | typeError | arrowInvalid | ipcError | osError | stopIteration | other
deriving Repr, DecidableEq

inductive Body where
  | valid                      -- well-formed IPC, well-formed metadata, conforming parameters / input batch
  | parseFail (e : ParseExc)   -- corrupted / truncated / empty / zero-batch: reading the bytes raises `e`
  | badMeta (m : MetaDefect)   -- well-formed IPC, wrong request metadata
  | badParams (d : ParamDefect) -- well-formed IPC and metadata; columns do not fit the parameters / the input schema
  | cancel                     -- valid body carrying `vgi_rpc.cancel` (meaningful on /exchange only)
  | badValue (e : DeserExc)    -- well-formed request, conforming columns; a parameter value fails conversion with `e`
deriving Repr, DecidableEq

inductive CType where
  | correct
  | wrong          -- a different media type that does not begin with the Arrow stream type
  | missing
  | wrongExtends   -- a different media type that has the Arrow stream type as a proper prefix (`…stream2`, `…stream+json`)
deriving Repr, DecidableEq

/-- how a compressed body reaches the size check of the decoder -/
inductive Coding where
  | gzip          -- bounded streaming loop over the deflate stream
  | zstdSized     -- one-shot zstd frame whose header declares the content size (what the reference clients send)
  | zstdStream    -- zstd frame without a declared content size (streaming compressors)
deriving Repr, DecidableEq

/-- the comparison a size guard uses to *refuse*: `size > cap`, `size >= cap` -/
inductive SizeOp where
  | gt | ge | unknown
deriving Repr, DecidableEq

/-- `Content-Encoding` of the request -/
inductive CEnc where
  | none
  | supported      -- a codec the server decodes, body decodes within the request cap
  | unsupported    -- a codec the server does not decode
  | corrupt        -- a supported codec named, body does not decode
  | bomb           -- a supported codec, body decodes to more than the request cap
  | atCap (c : Coding)   -- a supported codec, body decodes to *exactly* `max_request_bytes` bytes (within the cap)
deriving Repr, DecidableEq

/-- wire size of the body against `max_request_bytes` -/
inductive Size where
  | within | oversize
  | atCap          -- exactly `max_request_bytes` bytes on the wire (within the cap)
deriving Repr, DecidableEq

/-- outcome of the `authenticate` callback -/
inductive Auth where
  | ok | rejected
deriving Repr, DecidableEq

/-- stream state tokens on the request (looked at on /exchange only) -/
inductive Token where
  | valid | tampered | missing
deriving Repr, DecidableEq

/-- what the code behind the route does once the request is accepted -/
inductive Behaviour where
  | ok            -- returns normally, result within every hard cap
  | raises        -- the unary method / the init method / `process()` raises
  | turnRaises    -- a producer's `process()` raises during the turn folded into /init (elsewhere: same as `raises`)
  | overshoot     -- returns normally, result larger than `max_response_bytes`
deriving Repr, DecidableEq

structure Req where
  route : Route
  kind : MethodKind
  body : Body
  ctype : CType
  cenc : CEnc
  size : Size
  auth : Auth
  token : Token
  beh : Behaviour
deriving Repr, DecidableEq

/-- middleware classes whose `process_request` can refuse a request (everything else is `other`) -/
inductive Mw where
  | sizeCap | compression | auth | other
deriving Repr, DecidableEq

/-- a comparison operator found in a guard -/
inductive CmpOp where
  | eq | ne | unknown
  | notPrefix      -- `not value.startswith(expected)`
deriving Repr, DecidableEq

/-- checks made by `_resolve_method` -/
inductive ResolveStep where
  | contentType | methodLookup
deriving Repr, DecidableEq

/-- how a refusal writes its body: `arrow` = `_set_error_response` (Arrow IPC error stream), `falcon` =
    `raise falcon.HTTPError` (body written by the app's error serializer: JSON, or the 401 document) -/
inductive Writer where
  | arrow | falcon
deriving Repr, DecidableEq

structure Refusal where
  status : Nat
  writer : Writer
deriving Repr, DecidableEq

/-- everything the model reads from the source (filled in by `Gen/HttpStatus.lean`) -/
structure Tables where
  /-- `except` tables: status of the `_RpcHttpError` raised by the first handler catching the class; `none` = not caught -/
  unaryParse : ParseExc → Option Nat
  unaryVal : ValExc → Option Nat
  initParse : ParseExc → Option Nat
  initVal : ValExc → Option Nat
  exchangeParse : ParseExc → Option Nat
  /-- effective status for an exception raised by `_deserialize_params`: through the handler around that call if it
      catches the class (re-raised as `TypeError`), else through the request-reading `try` itself -/
  unaryDeser : DeserExc → Option Nat
  initDeser : DeserExc → Option Nat
  /-- `_read_request` itself turns a validation failure of the request batch into `RpcError("ProtocolError")` -/
  readWrapsBatchValidation : Bool
  /-- `_read_request` turns any failure while materialising names / values into `RpcError("ProtocolError")` -/
  readWrapsKwargs : Bool
  /-- `_read_request` turns a request stream without any batch (`StopIteration`) into `RpcError("ProtocolError")` -/
  readWrapsEmptyStream : Bool
  /-- `_set_http_status` -/
  translatedStatus : Nat
  translatedTo : Nat
  translationSetsMarker : Bool
  /-- `_resolve_method` -/
  resolveOrder : List ResolveStep
  contentTypeStatus : Nat
  contentTypeOp : CmpOp
  unknownMethodStatus : Nat
  /-- `on_post` guards `info.method_type <op> MethodType.STREAM` -/
  unaryGuardOp : CmpOp
  unaryGuardStatus : Nat
  initGuardOp : CmpOp
  initGuardStatus : Nat
  exchangeGuardOp : CmpOp
  exchangeGuardStatus : Nat
  /-- refusal comparisons of the size guards: `_MaxRequestBytesMiddleware` (`Content-Length <op> max`, and the
      chunked path `len(body) <op> max`), and per coding the output-cap check of `vgi_rpc/_codec.py` -/
  wireSizeOp : SizeOp
  chunkedSizeOp : SizeOp
  decodeSizeOp : Coding → SizeOp
  /-- `make_wsgi_app` -/
  middlewareOrder : List Mw
  sizeCap : Refusal
  encUnsupported : Refusal
  encBomb : Refusal
  encCorrupt : Refusal
  authReject : Refusal
  /-- /exchange -/
  missingTokenStatus : Nat
  tokenStatuses : List Nat
  /-- handler guarding `_coerce_input_batch`: status per exception class (`none` = not caught) -/
  coerce : ParamDefect → Option Nat
  /-- `_run_unary_sync`: the pre-built `__describe__` answer is returned before the request is read and validated;
      the protocol-version gate exempts `__describe__` -/
  describeBeforeRead : Bool
  describeExemptFromVersionGate : Bool
  /-- `_UploadUrlResource.on_post`: content type checked first; tables of the try around `_read_request`;
      status of a failing provider -/
  uploadChecksContentType : Bool
  uploadParse : ParseExc → Option Nat
  uploadVal : ValExc → Option Nat
  uploadFail : Nat
  /-- in-band failure statuses (before `_set_http_status`) -/
  unaryFail : Nat
  initFail : Nat
  exchangeFail : Nat
  producerFail : Nat
  unaryOvershoot : Nat
  exchangeOvershoot : Nat

/-- does a guard written `size <op> cap` refuse a size that is exactly the cap? -/
def SizeOp.refusesAtCap : SizeOp → Bool
  | .ge => true
  | _ => false

def MethodKind.isStream : MethodKind → Bool
  | .producer | .exchanger => true
  | _ => false

end VgiVerif.HttpReq
