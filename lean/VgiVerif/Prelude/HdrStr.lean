import VgiVerif.Gen.PyChars
/-
Python `str.strip()` / `str.lower()` as the header-parsing code of C17 / C19 uses them, over `List Char`, on the
character tables generated from the running interpreter (`Gen/PyChars.lean`).

`lower` is exact on ASCII and on every non-ASCII code point whose Python lower-casing contains an ASCII character
(`lowerSpecial`); every other non-ASCII code point is left unchanged, where Python may map it to *other non-ASCII,
non-space* code points.  The parsers only ever compare the result with ASCII codec names and look for ASCII
separators / whitespace in it, so the two agree on every outcome; the harness checks that premise exhaustively over
all 0x110000 code points on every run (C19 `chars` section).
-/
namespace VgiVerif.HdrStr

/-- `ch.isspace()` -/
def isSpace (c : Char) : Bool := Gen.PyChars.spaceRanges.any (fun r => decide (r.1 ≤ c.toNat) && decide (c.toNat ≤ r.2))

/-- `s.lstrip()` -/
def lstrip (s : List Char) : List Char := s.dropWhile isSpace

/-- `s.rstrip()` -/
def rstrip : List Char → List Char
  | [] => []
  | c :: cs =>
    match rstrip cs with
    | [] => if isSpace c then [] else [c]
    | r => c :: r

/-- `s.strip()` -/
def strip (s : List Char) : List Char := rstrip (lstrip s)

/-- `ch.lower()` (a string: U+0130 lower-cases to two code points) -/
def lowerChar (c : Char) : List Char :=
  if 65 ≤ c.toNat ∧ c.toNat ≤ 90 then [Char.ofNat (c.toNat + 32)]
  else match Gen.PyChars.lowerSpecial.find? (fun e => e.1 = c.toNat) with
    | some e => e.2.map Char.ofNat
    | none => [c]

/-- `s.lower()` -/
def lower (s : List Char) : List Char := s.flatMap lowerChar

end VgiVerif.HdrStr
