/-
`base64.urlsafe_b64encode` / `base64.urlsafe_b64decode` of CPython 3.13 (`binascii.a2b_base64`, non-strict mode), for the
native driver: the theorems only use `dec (enc x) = some x` as a law of the environment.

Decoding (Lib/base64.py + Modules/binascii.c):
  * a `str` argument must be ASCII (`ValueError` otherwise);
  * `-` → `+`, `_` → `/`; then the non-strict decoder: characters outside the alphabet are skipped; `=` counts as
    padding only when at least two characters of the current quad have been seen, and a complete pad ends the input;
  * leftover characters: `quad_pos ≠ 0` → `binascii.Error`.
Validated differentially against `base64` by the harness on every run.
-/
namespace VgiVerif.PyBase64

def alphabet : Array Char :=
  "ABCDEFGHIJKLMNOPQRSTUVWXYZabcdefghijklmnopqrstuvwxyz0123456789-_".toList.toArray

def encChar (n : Nat) : Char := alphabet[n]!

/-- `base64.urlsafe_b64encode(b).decode("ascii")` -/
def encode : List UInt8 → List Char
  | a :: b :: c :: r =>
    let n := a.toNat * 65536 + b.toNat * 256 + c.toNat
    encChar (n / 262144) :: encChar (n / 4096 % 64) :: encChar (n / 64 % 64) :: encChar (n % 64) :: encode r
  | [a, b] =>
    let n := a.toNat * 65536 + b.toNat * 256
    [encChar (n / 262144), encChar (n / 4096 % 64), encChar (n / 64 % 64), '=']
  | [a] =>
    let n := a.toNat * 65536
    [encChar (n / 262144), encChar (n / 4096 % 64), '=', '=']
  | [] => []

/-- value of a character of either alphabet (after the url-safe translation `-`→`+`, `_`→`/` both spellings decode) -/
def decVal (c : Char) : Option Nat :=
  let n := c.toNat
  if 65 ≤ n ∧ n ≤ 90 then some (n - 65)
  else if 97 ≤ n ∧ n ≤ 122 then some (n - 71)
  else if 48 ≤ n ∧ n ≤ 57 then some (n + 4)
  else if c = '+' ∨ c = '-' then some 62
  else if c = '/' ∨ c = '_' then some 63
  else none

/-- the non-strict loop: `quadPos`, `leftchar`, `pads`, output (reversed) -/
def loop : List Char → Nat → Nat → Nat → List UInt8 → Option (List UInt8)
  | [], quadPos, _, _, out => if quadPos = 0 then some out.reverse else none
  | c :: r, quadPos, left, pads, out =>
    if c = '=' then
      if quadPos ≥ 2 ∧ quadPos + (pads + 1) ≥ 4 then some out.reverse   -- a complete pad: stop, leftover bits dropped
      else loop r quadPos left (pads + 1) out
    else
      match decVal c with
      | none => loop r quadPos left pads out
      | some v =>
        match quadPos with
        | 0 => loop r 1 v 0 out
        | 1 => loop r 2 (v % 16) 0 (UInt8.ofNat (left * 4 + v / 16) :: out)
        | 2 => loop r 3 (v % 4) 0 (UInt8.ofNat (left * 16 + v / 4) :: out)
        | _ => loop r 0 0 0 (UInt8.ofNat (left * 64 + v) :: out)

/-- `base64.urlsafe_b64decode(s)` for a `str`; `none` = an exception -/
def decode (s : List Char) : Option (List UInt8) :=
  if s.all (fun c => decide (c.toNat < 128)) then loop s 0 0 0 [] else none

end VgiVerif.PyBase64
