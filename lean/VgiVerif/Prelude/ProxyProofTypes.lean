/-
Vocabulary shared by the spec, the model and the generated constants of the proxy-proof properties
(C22, C24): reason codes, results, comparison shapes.  No imports: linked into the native driver.
-/
namespace VgiVerif.PP

abbrev Str := List Char
abbrev Bytes := List UInt8

/-- the closed set of verifier reason codes of docs/proxy-proof-spec.md §6 -/
inductive Reason where
  | noProof | malformed | unknownKid | expired | notYetValid | badMac | replayed
deriving Repr, DecidableEq

def Reason.code : Reason → String
  | .noProof => "no_proof" | .malformed => "malformed" | .unknownKid => "unknown_kid"
  | .expired => "expired" | .notYetValid => "not_yet_valid" | .badMac => "bad_mac" | .replayed => "replayed"

/-- a flat string-valued claims map (insertion-ordered, like the Python dict literal) -/
abbrev Claims := List (Str × Str)

/-- `claims.get(k)` -/
def Claims.get (c : Claims) (k : Str) : Option Str := List.lookup k c

/-- what a verifier reports: claims to record, or the reason code of the failing step -/
inductive Result where
  | ok (claims : Claims)
  | err (r : Reason)
deriving Repr, DecidableEq

/-- a comparison operator as it appears in the source -/
inductive Cmp where
  | lt | le | gt | ge | eq | ne
deriving Repr, DecidableEq

def Cmp.eval : Cmp → Int → Int → Bool
  | .lt, a, b => decide (a < b) | .le, a, b => decide (a ≤ b)
  | .gt, a, b => decide (a > b) | .ge, a, b => decide (a ≥ b)
  | .eq, a, b => decide (a = b) | .ne, a, b => decide (a ≠ b)

/-- how the gate decides that the header is absent: `if not raw` (falsy) or `if raw is None` -/
inductive AbsentTest where
  | falsy | isNone
deriving Repr, DecidableEq

/-- HMAC-SHA256 is a parameter of spec and model (key → message → 32-byte digest) -/
abbrev Hmac := Bytes → Bytes → Bytes

/-- `str.encode()` — UTF-8 -/
def utf8 (s : Str) : Bytes := s.flatMap String.utf8EncodeChar

/-- value of an ASCII decimal numeral (`int(s)` for `s` matching `[0-9]+`) -/
def decVal (s : Str) : Nat := s.foldl (fun a c => a * 10 + (c.toNat - 48)) 0

/-- worker-side configuration the verifier reads -/
structure Config where
  keys : List (Str × (Bytes × Str))     -- kid ↦ (secret, label)
  origin : Str
  skew : Int
deriving Repr

/-- replay-cache contents: remembered nonces with the instant they stop being remembered, oldest first -/
structure NonceState where
  ttl : Int                      -- = skew ("Entries expire after `skew` seconds")
  capacity : Nat                 -- hard cap
  entries : List (Str × Int)
deriving Repr, DecidableEq

/-- one request of a history: the header instances it carries, the wall clock and the cache clock when it is handled -/
structure Req where
  vals : List Str
  now : Int
  mono : Int
deriving Repr

end VgiVerif.PP
