import VgiVerif.Prelude.PyVal
import VgiVerif.Prelude.DcAnn
/-
The parameter / result annotation grammar of an RPC method (C02): scalars at declared Arrow widths, Enum, temporal /
decimal types with an explicit ArrowType, Optional, list / frozenset / dict, ArrowSerializableDataclass.
-/
namespace VgiVerif.C02
open VgiVerif.Py

/-- parameter / result annotations -/
inductive Ty where
  | int (w : IntW)                    -- `int` (int64) or `Annotated[int, ArrowType(pa.<w>())]`
  | f64 | f32                         -- `float`, `Annotated[float, ArrowType(pa.float32())]`
  | str | bytes | bool
  | enum (names : List (List Char))   -- an `Enum` class, member names in definition order
  | native (kind p s : Nat)           -- temporal / decimal Python type with its explicit ArrowType (kinds: `Py.nativeConv`)
  | opt (t : Ty)
  | list (t : Ty)
  | set (t : Ty)
  | map (k v : Ty)
  | dc (name : List Char) (fs : C03.Fields)   -- ArrowSerializableDataclass
deriving Inhabited

def isOpt : Ty → Bool
  | .opt _ => true
  | _ => false

/-- the Optional-unwrapped annotation (`_is_optional_type`, one level) -/
def unopt : Ty → Ty
  | .opt t => t
  | t => t

end VgiVerif.C02
