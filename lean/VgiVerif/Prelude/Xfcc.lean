/-
Data vocabulary shared by the C43 spec and model: one parsed `x-forwarded-client-cert` element
(`vgi_rpc.http._mtls.XfccElement`, a frozen dataclass) over `List Char` strings.
No imports: linked into the native driver.
-/
namespace VgiVerif.Xfcc

abbrev Str := List Char

/-- `XfccElement(hash, cert, subject, uri, dns, by)`; `none` is Python `None`, `dns` the tuple. -/
structure Elem where
  hash : Option Str := none
  cert : Option Str := none
  subject : Option Str := none
  uri : Option Str := none
  dns : List Str := []
  by_ : Option Str := none
deriving Repr, DecidableEq

def Elem.empty : Elem := {}

/-- a claim value: `str` or `list[str]` -/
inductive ClaimVal where
  | str (v : Str)
  | list (v : List Str)
deriving Repr, DecidableEq

/-- what the `authenticate` closure does with a request -/
inductive Outcome where
  /-- `raise AuthFailure(AuthReason(reason), …)` -/
  | failure (reason : String)
  /-- `return validate(element)` — the caller-supplied callback decides, given exactly this element -/
  | validated (e : Elem)
  /-- `return AuthContext(domain, authenticated=True, principal, claims)`; claims in insertion order -/
  | ok (principal : Str) (claims : List (String × ClaimVal))
deriving Repr, DecidableEq

end VgiVerif.Xfcc
