/-
JSON-like claim trees (C35): objects keep key order (association list, like a Python dict), arrays,
scalars.  Mutual inductive (no nested `List`) so every function is plain structural recursion and every
proof is a mutual structural recursion.  Unbounded depth and width.
No imports: linked into the native driver.
-/
namespace VgiVerif.ClaimTree

/-- scalar leaves; the redactor never inspects them (`num` carries the literal text of an int/float) -/
inductive Atom where
  | null
  | bool (b : Bool)
  | num (text : List Char)
  | str (s : List Char)
deriving Repr, DecidableEq

abbrev Key := List Char

mutual
inductive Json where
  | atom (a : Atom)
  | arr (xs : JList)
  | obj (kvs : JObj)
inductive JList where
  | nil
  | cons (h : Json) (t : JList)
inductive JObj where
  | nil
  | cons (k : Key) (v : Json) (t : JObj)
end

/-- one step into a tree: the value under a key of an object, or an element of an array -/
inductive Step where
  | key (k : Key)
  | idx (i : Nat)
deriving Repr, DecidableEq

abbrev Path := List Step

mutual
/-- the sub-tree at a path (`none` when the path does not exist) -/
def Json.get : Json → Path → Option Json
  | .atom a, [] => some (.atom a)
  | .arr xs, [] => some (.arr xs)
  | .obj kvs, [] => some (.obj kvs)
  | .arr xs, .idx i :: p => xs.get i p
  | .obj kvs, .key k :: p => kvs.get k p
  | .atom _, _ :: _ => none
  | .arr _, .key _ :: _ => none
  | .obj _, .idx _ :: _ => none
def JList.get : JList → Nat → Path → Option Json
  | .nil, _, _ => none
  | .cons h _, 0, p => h.get p
  | .cons _ t, i + 1, p => t.get i p
/-- first entry with that key (a Python dict has at most one) -/
def JObj.get : JObj → Key → Path → Option Json
  | .nil, _, _ => none
  | .cons k' v t, k, p => if k' = k then v.get p else t.get k p
end

def JList.length : JList → Nat
  | .nil => 0
  | .cons _ t => t.length + 1

def JObj.keys : JObj → List Key
  | .nil => []
  | .cons k _ t => k :: t.keys

def JObj.isEmpty : JObj → Bool
  | .nil => true
  | .cons _ _ _ => false

/-- what is visible of a node without looking at its children: a scalar, an array of n elements, an object with these keys in order -/
inductive Kind where
  | atom (a : Atom)
  | arr (n : Nat)
  | obj (keys : List Key)
deriving Repr, DecidableEq

def Json.kind : Json → Kind
  | .atom a => .atom a
  | .arr xs => .arr xs.length
  | .obj kvs => .obj kvs.keys

/-- keys on a path -/
def Path.keys : Path → List Key
  | [] => []
  | .key k :: p => k :: Path.keys p
  | .idx _ :: p => Path.keys p

end VgiVerif.ClaimTree
