/-
Vocabulary for the response-size-cap model (C16): comparison operators as data, and the *shape* of the cap
checks as the extractor finds them in the source (which comparisons are used, whether the callers hand the
external-storage budget down to the upload helpers and whether those check it before uploading).
-/
namespace VgiVerif.SizeCaps

/-- a comparison operator found in the source -/
inductive Cmp where
  | lt | le | gt | ge
deriving Repr, DecidableEq

def Cmp.holds : Cmp → Nat → Nat → Bool
  | .lt, a, b => decide (a < b)
  | .le, a, b => decide (a ≤ b)
  | .gt, a, b => decide (a > b)
  | .ge, a, b => decide (a ≥ b)

/-- the cap checks as written in the source -/
structure Shape where
  /-- `if size < config.externalize_threshold_bytes: <stay inline / predict 0>` in the four helpers of external.py -/
  predictBatchThreshold : Cmp
  predictCollThreshold : Cmp
  uploadBatchThreshold : Cmp
  uploadCollThreshold : Cmp
  /-- `if batch.num_rows == 0: <stay inline / predict 0>` present in the single-batch helpers -/
  predictBatchSkipsEmpty : Bool
  uploadBatchSkipsEmpty : Bool
  /-- `if max_external_bytes is not None and len(ipc_bytes) <op> max_external_bytes: raise` placed before the upload
      in `maybe_externalize_batch` / `maybe_externalize_collector` (`none` = no such check before the upload) -/
  uploadBatchBudget : Option Cmp
  uploadCollBudget : Option Cmp
  /-- the three HTTP paths pass the cap / the remaining cap down as `max_external_bytes` -/
  unaryPassesBudget : Bool
  exchangePassesBudget : Bool
  producerPassesBudget : Bool
  /-- pre-flight refusals: `predicted <op> cap` (unary, exchange), `cumulative + predicted <op> cap` (producer) -/
  unaryPreflight : Cmp
  exchangePreflight : Cmp
  producerPreflight : Cmp
  /-- `_enforce_response_budgets`: `wire_bytes <op> wire_cap`, `external_bytes <op> external_cap`; which paths call it -/
  enforceWire : Cmp
  enforceExternal : Cmp
  unaryEnforces : Bool
  exchangeEnforces : Bool
  producerEnforces : Bool
  /-- producer loop: `should_continue = max_bytes is not None and resp_buf.tell() <op> max_bytes` -/
  producerContinue : Cmp
  /-- the response that *replaces* an oversize unary / exchange body is a fresh stream holding the error batch and
      nothing else (no client-log batches of the discarded body) -/
  unaryReplacementOnlyError : Bool
  exchangeReplacementOnlyError : Bool
deriving Repr

end VgiVerif.SizeCaps
