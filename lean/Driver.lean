import VgiVerif.Prelude.JsonUtil
import VgiVerif.Driver.C09
/-
Native JSON-lines driver: {"id":n,"m":"C09.parse","a":{…}} → {"id":n,"r":…} | {"id":n,"e":"…"}.
Imports models only (no proofs, no Mathlib) so it links as a native executable.
-/
open Lean VgiVerif.J

def dispatch (m : String) (a : Json) : R Json :=
  match m.splitOn "." with
  | [p, fn] =>
    match p with
    | "C09" => VgiVerif.C09.Driver.handle fn a
    | "meta" => pure (Json.str "ok")
    | _ => throw s!"bad-op: unknown model {p}"
  | _ => throw s!"bad-op: {m}"

def answer (line : String) : String :=
  match Json.parse line with
  | .error e => (obj [("id", Json.null), ("e", Json.str s!"bad-json: {e}")]).compress
  | .ok j =>
    let id := (j.getObjVal? "id").toOption.getD Json.null
    match (do let m ← rawStr (← field j "m"); let a ← field j "a"; dispatch m a) with
    | .ok r => (obj [("id", id), ("r", r)]).compress
    | .error e => (obj [("id", id), ("e", Json.str e)]).compress

partial def loop (hin hout : IO.FS.Stream) : IO Unit := do
  let line ← hin.getLine
  if line.isEmpty then return ()
  let l := line.trimAscii.toString
  if !l.isEmpty then
    hout.putStrLn (answer l)
    hout.flush
  loop hin hout

def main : IO Unit := do
  loop (← IO.getStdin) (← IO.getStdout)
