#!/venv/bin/python
"""tools/seeded_verify.py [N] : re-confirm every kept seeded change against the CURRENT /repo HEAD, N at a time:
patch still applies; demo exits 0 on the clean tree and non-zero with the patch (scratch worktrees under /tmp, removed
afterwards).  Records `final_head` = {repo_head, applies, demo_clean_rc, demo_patched_rc, still_valid} in meta.json."""
import json
import os
import subprocess
import sys
from concurrent.futures import ThreadPoolExecutor
from pathlib import Path

V = Path(__file__).resolve().parents[1]
PY = "/venv/bin/python"


def sh(cmd, cwd=None, timeout=900, env=None):
    p = subprocess.run(cmd, cwd=cwd, capture_output=True, text=True, timeout=timeout, env=env)
    return p.returncode, p.stdout + p.stderr


def one(args):
    k, ids = args
    wt = f"/tmp/seedverify-{k}"
    sh(["git", "-C", "/repo", "worktree", "add", "--detach", "-q", wt, "HEAD"])
    head = sh(["git", "-C", "/repo", "rev-parse", "--short", "HEAD"])[1].strip()
    out = []
    try:
        for sid in ids:
            d = V / "seeded" / sid
            rec = {"repo_head": head}
            rc, _ = sh(["git", "-C", wt, "apply", "--check", str(d / "patch.diff")])
            rec["applies"] = rc == 0
            if rc == 0:
                env = dict(os.environ, PYTHONPATH=wt, PYTHONDONTWRITEBYTECODE="1")
                try:
                    rec["demo_clean_rc"] = sh([PY, str(d / "demo.py")], cwd="/tmp", env=env, timeout=600)[0]
                    sh(["git", "-C", wt, "apply", str(d / "patch.diff")])
                    rec["demo_patched_rc"] = sh([PY, str(d / "demo.py")], cwd="/tmp", env=env, timeout=600)[0]
                except subprocess.TimeoutExpired:
                    rec["timeout"] = True
                finally:
                    sh(["git", "-C", wt, "checkout", "--", "."])
                    sh(["git", "-C", wt, "clean", "-fdq"])
            rec["still_valid"] = bool(rec.get("applies") and rec.get("demo_clean_rc") == 0 and rec.get("demo_patched_rc", 0) != 0)
            m = json.loads((d / "meta.json").read_text())
            m["final_head"] = rec
            (d / "meta.json").write_text(json.dumps(m, indent=1))
            out.append((sid, rec["still_valid"], rec))
    finally:
        sh(["git", "-C", "/repo", "worktree", "remove", "--force", wt])
    return out


def main() -> None:
    n = int(sys.argv[1]) if len(sys.argv) > 1 else 6
    ids = sorted(p.name for p in (V / "seeded").glob("C*-*") if (p / "patch.diff").exists())
    chunks = [(k, ids[k::n]) for k in range(n)]
    bad = []
    with ThreadPoolExecutor(n) as ex:
        for res in ex.map(one, chunks):
            for sid, ok, rec in res:
                if not ok:
                    bad.append((sid, rec))
    print(f"{len(ids)} seeded changes re-confirmed at /repo HEAD; {len(bad)} no longer valid")
    for sid, rec in sorted(bad):
        print("  ", sid, {k: v for k, v in rec.items() if k != "repo_head"})


if __name__ == "__main__":
    main()
