#!/bin/sh
# tools/seeded_parallel.sh N id1 id2 ... : evaluate seeded changes /tmp/m/out/<id> in N parallel scratch workspaces
# (/tmp/seedws/k/{verif,repo} = worktrees of the current main commits, with a copy of the lake build).
set -e
N=$1; shift
mkdir -p /tmp/seedws
k=0
while [ $k -lt $N ]; do
  if [ ! -d /tmp/seedws/$k/verif ]; then
    mkdir -p /tmp/seedws/$k
    git -C /verif worktree add -q --detach /tmp/seedws/$k/verif HEAD
    git -C /repo worktree add -q --detach /tmp/seedws/$k/repo HEAD
    cp -r /verif/lean/.lake /tmp/seedws/$k/verif/lean/.lake
  else
    git -C /tmp/seedws/$k/verif checkout -q --detach $(git -C /verif rev-parse HEAD)
    git -C /tmp/seedws/$k/repo checkout -q --detach $(git -C /repo rev-parse HEAD)
  fi
  k=$((k+1))
done
i=0
for id in "$@"; do
  echo "$id" >> /tmp/seedws/queue.$((i % N))
  i=$((i+1))
done
k=0
while [ $k -lt $N ]; do
  ( if [ -f /tmp/seedws/queue.$k ]; then for id in $(cat /tmp/seedws/queue.$k); do SEED_WS=/tmp/seedws/$k /verif/tools/seeded_eval.py /tmp/m/out/$id --tests 2>&1 | grep -v conda | tail -1 >> /tmp/seedws/results.log; done; rm -f /tmp/seedws/queue.$k; fi ) &
  k=$((k+1))
done
wait
echo "all done"
