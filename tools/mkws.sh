#!/bin/sh
# tools/mkws.sh NAME : scratch workspace for building checks: /tmp/w/NAME/{verif,repo} as git worktrees (+ copied lake build)
set -e
N="$1"
mkdir -p /tmp/w/$N
git -C /verif worktree add -q /tmp/w/$N/verif -b ws-$N
git -C /repo worktree add -q /tmp/w/$N/repo -b fix-$N
cp -r /verif/lean/.lake /tmp/w/$N/verif/lean/.lake
echo "/tmp/w/$N ready: export VERIF_REPO=/tmp/w/$N/repo ; cd /tmp/w/$N/verif"
