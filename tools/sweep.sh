#!/bin/sh
# tools/sweep.sh [P] : run every registered check (quick) P at a time; summary in /tmp/sweep.log
P=${1:-4}
cd /verif
rm -f /tmp/sweep.log
ls harness/c*.py | sed 's#harness/c\([0-9]*\).py#C\1#' | xargs -P $P -I{} sh -c './check {} --tier quick 2>&1 | grep -v "WARNING conda" | grep "^\[C\|^VIOLATION\|^KNOWN" | tail -4 >> /tmp/sweep.log'
sort -t'[' -k2 /tmp/sweep.log | grep "^\[" | awk '{print $1, $4, $NF}' 
