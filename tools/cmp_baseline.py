#!/usr/bin/env python3
"""tools/cmp_baseline.py <junit.xml> : which tests of BASELINE.json's stable_pass set did not pass in this run."""
import json, sys, xml.etree.ElementTree as ET
b = json.load(open('/root/.vp/BASELINE.json'))
stable = set(b['stable_pass'])
root = ET.parse(sys.argv[1]).getroot()
passed, failed, other = set(), set(), set()
for tc in root.iter("testcase"):
    tid = (tc.get("classname") or "") + "::" + (tc.get("name") or "")
    if tc.find("failure") is not None or tc.find("error") is not None: failed.add(tid)
    elif tc.find("skipped") is not None: other.add(tid)
    else: passed.add(tid)
passed -= failed
bad = sorted(stable - passed)
print(f"stable_pass={len(stable)} passed_now={len(passed & stable)} not_passing={len(bad)}")
for t in bad[:80]:
    print("  ", t, "(failed)" if t in failed else "(skipped)" if t in other else "(missing)")
