#!/bin/sh
# tools/merge_ws.sh NAME : merge branch ws-NAME into /verif main, cherry-pick fix-NAME's commits into /repo main.
set -e
N="$1"
cd /verif
if ! git merge --no-edit -q ws-$N >/tmp/merge_$N.log 2>&1; then
  cat /tmp/merge_$N.log | tail -5
  # generated files may conflict: regenerate them
  for f in lean/Driver.lean lean/VgiVerif.lean MANIFEST.json known_findings.json; do
    git checkout --ours -- $f 2>/dev/null || true
  done
  for f in $(git diff --name-only --diff-filter=U | grep '^evidence/' || true); do git checkout --theirs -- $f; done
  python3 tools/gen_lean_roots.py
  git add -A
  if grep -rl '^<<<<<<< ' --include=*.lean --include=*.py --include=*.json --include=*.md . 2>/dev/null | grep -v '^./lean/.lake' | grep -q .; then echo "UNRESOLVED CONFLICT MARKERS"; exit 1; fi
  if git diff --cached --name-only --diff-filter=U | grep -q .; then echo "UNRESOLVED CONFLICTS"; exit 1; fi
  git commit -q --no-edit
fi
rm -f /tmp/merge_$N.log
echo "--- fix commits of fix-$N:"
git -C /repo log --oneline --reverse main..fix-$N
for c in $(git -C /repo log --format=%H --reverse main..fix-$N); do
  git -C /repo cherry-pick $c >/dev/null 2>&1 || { echo "CHERRY-PICK CONFLICT on $c"; git -C /repo status --short | head; exit 1; }
done
python3 tools/gen_lean_roots.py
echo "merged $N"
