#!/venv/bin/python
"""Write /verif/MANIFEST.json from the harness modules' own metadata (keeps the manifest valid at all times)."""
import importlib
import json
import os
import sys
from pathlib import Path

VERIF = Path(__file__).resolve().parents[1]
sys.path.insert(0, str(VERIF))
sys.path.insert(0, os.environ.get("VERIF_REPO", "/repo"))

ALL = [json.loads(l)["id"] for l in (VERIF / "properties.jsonl").read_text().splitlines() if l.strip()]
NOT_APPLICABLE = json.loads((VERIF / "not_applicable.json").read_text()) if (VERIF / "not_applicable.json").exists() else {}


def main() -> None:
    checks = []
    na = []
    served = []
    for pid in ALL:
        f = VERIF / "harness" / f"{pid.lower()}.py"
        if not f.exists():
            na.append({"property_id": pid, "reason": NOT_APPLICABLE.get(pid, "check not built yet in this round (model and theorem planned in DESIGN.md §5; nothing is claimed for it)")})
            continue
        mod = importlib.import_module(f"harness.{pid.lower()}")
        m = getattr(mod, "MANIFEST", {})
        level = m.get("level", getattr(mod, "LEVEL", "proof"))
        served.append(pid)
        checks.append({
            "property_id": pid,
            "quick_cmd": f"./check {pid} --tier quick",
            "thorough_cmd": f"./check {pid} --tier thorough",
            "evidence_file": f"/verif/evidence/{pid}.json",
            "replay_cmd_template": f"./check {pid} --replay {{path}}",
            "engine": "lean-proof+correspondence",
            "level_claimed": {
                "category": level,
                "text": m.get("text", "Lean 4 theorems about the model (all inputs / histories), model tied to /repo by extraction and differential correspondence, direct oracle on the implementation as failing-input search"),
                "design_ref": m.get("design_ref", f"DESIGN.md §5 {pid}"),
            },
            "level_note": m.get("note", "; ".join(getattr(mod, "TRUSTED", [])) or "see DESIGN.md §6"),
            "technique": m.get("technique", "Lean 4 proof (kernel-checked) + model/implementation correspondence"),
        })
    man = {
        "version": 1,
        "setup_cmd": "cd /verif && ./setup.sh",
        "hooks": {
            "guard": "VGI_RPC_VERIF",
            "enable": "no source hooks are used: checks substitute module globals (threading/time/…) from the harness process",
            "baseline_off_cmd": "cd /repo && /venv/bin/python -m pytest -ra -q -p no:cacheprovider --timeout=900 --continue-on-collection-errors",
            "source_commits": [],
            "add_only": True,
        },
        "engines": [{
            "name": "lean-proof+correspondence",
            "path": "/verif/check",
            "serves_properties": served,
            "kind_free_text": "Lean 4 theorems about hand-written executable models over constants/regexes/shapes regenerated from /repo on every run; differential correspondence model<->implementation through a native JSON-lines Lean driver; direct oracle on the implementation as the failing-input search",
        }],
        "checks": checks,
        "not_applicable": na,
        "notes": "See DESIGN.md. Every check: ./check Cxx --tier quick|thorough ; known findings in known_findings.json.",
    }
    allf = []
    for f in sorted((VERIF / "known_findings").glob("C*.json")):
        allf += json.loads(f.read_text()).get("findings", [])
    (VERIF / "known_findings.json").write_text(json.dumps({
        "comment": "Aggregated from known_findings/Cxx.json by tools/mkmanifest.py. Genuine defects of /repo found by the checks. "
                   "status=open entries are printed as KNOWN-FINDING and do not fail a check; status=fixed entries suppress nothing. "
                   "Never written at run time.",
        "findings": allf}, indent=1, ensure_ascii=True) + "\n")
    (VERIF / "MANIFEST.json").write_text(json.dumps(man, indent=1) + "\n")
    print(f"{len(checks)} checks, {len(na)} not claimed")


if __name__ == "__main__":
    main()
