#!/venv/bin/python
"""tools/mkdesign.py : splice the generated parts (§11 counts, findings summary, seeded-change table) into DESIGN.md
between the markers <!-- BEGIN-11 --> and <!-- END-11 -->.  The prose lives in tools/design_sec11.tmpl.md."""
import glob
import json
import subprocess
from pathlib import Path

V = Path(__file__).resolve().parents[1]


def main() -> None:
    tmpl = (V / "tools" / "design_sec11.tmpl.md").read_text()
    obl = 0
    for f in sorted(glob.glob(str(V / "evidence" / "C*.json"))):
        obl += json.loads(Path(f).read_text())["coverage"]["obligations"]
    fixed = opened = 0
    props_with = set()
    for f in sorted(glob.glob(str(V / "known_findings" / "C*.json"))):
        for x in json.loads(Path(f).read_text())["findings"]:
            props_with.add(x["property"] if "property" in x else Path(f).stem)
            if x["status"] == "fixed":
                fixed += 1
            else:
                opened += 1
    nfix = subprocess.run(["git", "-C", "/repo", "log", "--format=%s", "8d20616..HEAD"], capture_output=True, text=True).stdout.splitlines()
    nfix = [s for s in nfix if s.startswith("fix:")]
    open_rows = ["| Key | What fails, and why it is not repaired |", "|---|---|"]
    for f in sorted(glob.glob(str(V / "known_findings" / "C*.json"))):
        for x in json.loads(Path(f).read_text())["findings"]:
            if x["status"] != "fixed":
                what = " ".join(str(x.get("what", "")).split())
                open_rows.append(f"| `{x['key']}` | {what[:520]}{'…' if len(what) > 520 else ''} |")
    findings = (f"{fixed + opened} finding keys in {len(props_with)} properties were confirmed against the real code: {fixed} repaired, {opened} left open.")
    rows = []
    tot = det = inp = 0
    by_prop: dict[str, list[dict]] = {}
    for d in sorted((V / "seeded").glob("C*-*")):
        m = json.loads((d / "meta.json").read_text())
        by_prop.setdefault(m["property"], []).append(m)
    for p in sorted(by_prop):
        for m in by_prop[p]:
            tot += 1
            det += bool(m.get("detected"))
            inp += bool(m.get("detected_with_failing_input"))
            keys = [k for k in (m.get("check", {}).get("replay_keys") or []) if k]
            first = (m.get("needs_to_manifest") or "").strip().splitlines()
            title = next((l.lstrip("# ").strip() for l in first if l.strip()), "")
            stale = m.get("final_head", {}).get("still_valid") is False
            verdict = "(invalidated by a later fix commit) " if stale else ""
            if m.get("owner_verdict") and not m.get("detected_with_failing_input"):
                verdict += "judged NOT a violation of the property by the check's owner (see meta.json); "
            verdict += "caught, failing input" if m.get("detected_with_failing_input") else ("caught, no-failing-input-found" if m.get("detected") else "MISSED")
            rows.append(f"| {m['id']} | {title[:110]} | {verdict} | {', '.join('`' + k + '`' for k in keys[:2])}{' …' if len(keys) > 2 else ''} |")
    seeded = (f"{tot} confirmed changes over {len(by_prop)} properties; the property's own quick check reported {det} of them, {inp} with a concrete failing "
              f"input (state after strengthening; the first evaluation is kept in each `meta.json` under `history` where it differed).\n\n"
              "| Change | What it is (first line of the author's notes) | Check result | First replay keys |\n|---|---|---|---|\n" + "\n".join(rows))
    text = (tmpl.replace("@@OBL@@", str(obl)).replace("@@FINDINGS@@", findings).replace("@@NFIX@@", str(len(nfix))).replace("@@SEEDED@@", seeded).replace("@@OPEN@@", "\n".join(open_rows)))
    d = (V / "DESIGN.md").read_text()
    b, e = "<!-- BEGIN-11 -->", "<!-- END-11 -->"
    if b not in d:
        marker = "## Appendix A"
        i = d.index(marker)
        d = d[:i] + b + "\n" + e + "\n\n" + d[i:]
    i, j = d.index(b), d.index(e)
    d = d[: i + len(b)] + "\n" + text + "\n" + d[j:]
    (V / "DESIGN.md").write_text(d)
    print(f"DESIGN.md §11 regenerated: {obl} obligations, {fixed}/{opened} findings, {len(nfix)} fix commits, seeded {inp}/{det}/{tot}")


if __name__ == "__main__":
    main()
