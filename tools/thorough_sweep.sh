#!/bin/sh
# tools/thorough_sweep.sh P id... : run the thorough tier of the given checks P at a time; summary in /tmp/thorough.log
P=$1; shift
cd /verif
for id in "$@"; do echo $id; done | xargs -P $P -I{} sh -c 'S=$(date +%s); ./check {} --tier thorough > /tmp/thorough_{}.out 2>&1; rc=$?; E=$(date +%s); echo "{} rc=$rc wall=$((E-S))s $(grep "^\[C" /tmp/thorough_{}.out | tail -1)" >> /tmp/thorough.log; grep "^VIOLATION" /tmp/thorough_{}.out >> /tmp/thorough.log'
echo done >> /tmp/thorough.log
