#!/venv/bin/python
"""tools/seeded_eval.py <out-dir> [--tests] : confirm a seeded change and run the property's check against it.

<out-dir> = /tmp/m/out/Cxx-k with patch.diff, demo.py, notes.md (written by an independent sub-agent that saw only the
property text).  Steps (all on /repo itself, undone straight afterwards, as the brief prescribes):
  1. patch applies on the current /repo main; demo exits 0 on the clean tree
  2. apply; demo exits non-zero
  3. (--tests) related existing tests pass with the patch in a scratch worktree (compared with the clean tree)
  4. ./check Cxx (quick) with the patch applied -> rc / VIOLATION lines / replay keys
  5. undo; copy to /verif/seeded/Cxx-k/{patch.diff, demo.py, notes.md, meta.json}
"""
import json
import os
import shutil
import subprocess
import sys
import time
from pathlib import Path

MAIN_VERIF = Path(__file__).resolve().parents[1]
# by default the evaluation applies the patch to /repo itself and runs /verif's check (undone straight afterwards); with
# SEED_WS=<dir> it uses scratch worktrees <dir>/repo and <dir>/verif of the same commits instead, so several evaluations can
# run in parallel without touching /repo
WS = os.environ.get("SEED_WS")
VERIF = Path(WS) / "verif" if WS else MAIN_VERIF
REPO = str(Path(WS) / "repo") if WS else "/repo"
PY = "/venv/bin/python"

TESTS = {
    "C09": ["tests/test_protocol_version.py", "tests/test_metadata.py"],
    "C12": ["tests/test_crypto.py"], "C13": ["tests/test_crypto.py"], "C14": ["tests/test_crypto.py"],
    "C20": ["tests/test_unauthorized.py", "tests/test_bearer.py"],
    "C22": ["tests/test_proof.py", "tests/test_replay.py"], "C23": ["tests/test_replay.py"], "C24": ["tests/test_proof.py", "tests/test_bearer.py"],
    "C25": ["tests/test_conformance_http_sticky.py"], "C27": ["tests/test_conformance_http_sticky.py"],
    "C28": ["tests/test_shm.py", "tests/test_property_shm.py", "tests/test_shm_header_format.py"],
    "C30": ["tests/test_external.py"], "C35": ["tests/test_access_log_spec.py", "tests/test_logging.py"],
    "C36": ["tests/test_token_introspect.py"], "C37": ["tests/test_oauth_pkce.py"], "C38": ["tests/test_http_retry.py"],
    "C39": ["tests/test_introspect.py"], "C40": ["tests/test_token_introspect.py", "tests/test_unauthorized.py"],
    "C43": ["tests/test_mtls.py"], "C21": ["tests/test_unauthorized.py"], "C06": ["tests/test_bad_requests.py", "tests/test_wire.py"],
    "C15": ["tests/test_bad_requests.py"], "C16": ["tests/test_external.py"], "C17": ["tests/test_transport_chunking.py"],
    "C18": ["tests/test_transport_chunking.py"], "C19": ["tests/test_transport_chunking.py"],
    "C02": ["tests/test_utils.py", "tests/test_wire.py", "tests/test_property_roundtrip.py"], "C03": ["tests/test_utils.py", "tests/test_wire.py", "tests/test_rpc_validation.py"],
    "C05": ["tests/test_rpc.py", "tests/test_broken_pipe.py"], "C07": ["tests/test_rpc.py", "tests/test_log.py"], "C08": ["tests/test_http.py", "tests/test_log.py"],
    "C11": ["tests/test_http.py"], "C31": ["tests/test_external.py", "tests/test_external_fetch.py"], "C34": ["tests/test_access_log_rotation.py", "tests/test_access_log_spec.py"],
    "C41": ["tests/test_unix_concurrent.py", "tests/test_tcp_transport.py"], "C42": ["tests/test_pool.py"], "C26": ["tests/test_conformance_http_sticky.py"],
    "C29": ["tests/test_shm.py", "tests/test_property_shm.py"], "C32": ["tests/test_launcher.py"], "C33": ["tests/test_launcher.py", "tests/test_unix_concurrent.py"],
    "C01": ["tests/test_rpc.py"], "C04": ["tests/test_rpc.py", "tests/test_stream_cancel.py"], "C10": ["tests/test_stream_cancel.py"],
}


def sh(cmd, cwd=None, timeout=3600, env=None):
    p = subprocess.run(cmd, cwd=cwd, capture_output=True, text=True, timeout=timeout, env=env)
    out = "\n".join(l for l in (p.stdout + p.stderr).splitlines() if "WARNING conda" not in l)
    return p.returncode, out


def run_demo(demo: Path, tree: str) -> tuple[int, str]:
    env = dict(os.environ, PYTHONPATH=tree, PYTHONDONTWRITEBYTECODE="1")
    return sh([PY, str(demo)], cwd="/tmp", timeout=600, env=env)


def passing_tests(tree: str, files: list[str]) -> set[str]:
    rc, out = sh([PY, "-m", "pytest", *files, "-q", "-p", "no:cacheprovider", "-n", "6", "--timeout=120", "-rA", "-o", "addopts="],
                 cwd=tree, timeout=3000)
    return {l.split(" ", 1)[1].split(" - ")[0] for l in out.splitlines() if l.startswith("PASSED ")}


def cross_check(src: Path, name: str, prop: str) -> int:
    patch = src / "patch.diff"
    rc, out = sh(["git", "-C", REPO, "apply", "--check", str(patch)])
    if rc != 0:
        print(f"{name} x {prop}: patch does not apply"); return 1
    try:
        sh(["git", "-C", REPO, "apply", str(patch)])
        env = dict(os.environ, VERIF_SEED=os.environ.get("VERIF_SEED", "0"), VERIF_REPO=REPO)
        rcc, outc = sh(["./check", prop, "--tier", "quick"], cwd=str(VERIF), timeout=5400, env=env)
        keys = []
        for l in outc.splitlines():
            if l.startswith("VIOLATION") and "replay=" in l:
                try:
                    d = json.loads(Path(l.split("replay=")[1].split()[0]).read_text())
                    keys.append(d.get("key") or d.get("kind"))
                except Exception:
                    pass
    finally:
        sh(["git", "-C", REPO, "checkout", "--", "."])
        sh(["git", "-C", str(VERIF), "checkout", "--", "evidence", "lean/VgiVerif/Gen", "lean/GenBaseline"])
        if WS:
            sh(["rm", "-rf", str(VERIF / "replays")])
    rec = {"property": prop, "check_rc": rcc, "replay_keys": keys,
           "detected_with_failing_input": any(k and k != "no-longer-checks" for k in keys)}
    mp = MAIN_VERIF / "seeded" / name / "meta.json"
    if mp.exists():
        meta = json.loads(mp.read_text())
        meta["cross_checks"] = [c for c in meta.get("cross_checks", []) if c.get("property") != prop] + [rec]
        mp.write_text(json.dumps(meta, indent=1))
    print(f"{name} x {prop}: check_rc={rcc} keys={keys}")
    return 0


def main() -> int:
    src = Path(sys.argv[1])
    with_tests = "--tests" in sys.argv
    name = src.name  # Cxx-k
    prop = name.split("-")[0]
    cross = os.environ.get("SEED_PROP")  # run ANOTHER property's check against this change (result appended to meta.cross_checks)
    if cross:
        return cross_check(src, name, cross)
    patch = src / "patch.diff"
    demo = src / "demo.py"
    meta: dict = {"id": name, "property": prop, "source": "independent sub-agent given only the property text and a scratch worktree",
                  "repo_head": sh(["git", "-C", REPO, "rev-parse", "--short", "HEAD"])[1].strip(), "evaluated_at": time.strftime("%Y-%m-%dT%H:%M:%SZ", time.gmtime())}
    rc, out = sh(["git", "-C", REPO, "status", "--porcelain"])
    if out.strip():
        print("refusing: /repo working tree is not clean"); return 2
    rc, out = sh(["git", "-C", REPO, "apply", "--check", str(patch)])
    if rc != 0:
        print(f"{name}: patch does not apply on current main: {out[:300]}"); meta["applies"] = False
        (src / "eval.json").write_text(json.dumps(meta, indent=1)); return 1
    meta["applies"] = True
    rc0, out0 = run_demo(demo, REPO)
    meta["demo_clean_rc"] = rc0
    try:
        sh(["git", "-C", REPO, "apply", str(patch)])
        rc1, out1 = run_demo(demo, REPO)
        meta["demo_patched_rc"] = rc1
        meta["demo_patched_tail"] = out1[-600:]
        t0 = time.time()
        env = dict(os.environ, VERIF_SEED=os.environ.get("VERIF_SEED", "0"), VERIF_REPO=REPO)
        rcc, outc = sh(["./check", prop, "--tier", "quick"], cwd=str(VERIF), timeout=5400, env=env)
        meta["check"] = {"cmd": f"./check {prop} --tier quick", "rc": rcc, "wall_s": round(time.time() - t0, 1),
                         "lines": [l for l in outc.splitlines() if l.startswith(("VIOLATION", "KNOWN-FINDING", f"[{prop}]"))][:12]}
        keys = []
        for l in outc.splitlines():
            if l.startswith("VIOLATION") and "replay=" in l:
                rp = l.split("replay=")[1].split()[0]
                try:
                    d = json.loads(Path(rp).read_text())
                    meta.setdefault("replays", []).append({"key": d.get("key") or d.get("kind"), "what": str(d.get("what"))[:300]})
                    keys.append(d.get("key") or d.get("kind"))
                except Exception:
                    pass
        meta["check"]["replay_keys"] = keys
        meta["detected"] = rcc == 1 and any(l.startswith("VIOLATION") for l in outc.splitlines())
        meta["detected_with_failing_input"] = any(k and k != "no-longer-checks" for k in keys)
    finally:
        sh(["git", "-C", REPO, "checkout", "--", "."])
        # the run above rewrote evidence / Gen from the patched tree: put the committed (clean-tree) versions back
        sh(["git", "-C", str(VERIF), "checkout", "--", "evidence", "lean/VgiVerif/Gen", "lean/GenBaseline"])
        if WS:
            sh(["rm", "-rf", str(VERIF / "replays")])
    if with_tests:
        files = TESTS.get(prop, [])
        wt = f"/tmp/seedwt-{name}"
        sh(["git", "-C", REPO, "worktree", "add", "--detach", "-q", wt, "HEAD"])
        try:
            base = passing_tests(wt, files)
            sh(["git", "-C", wt, "apply", str(patch)])
            changed = passing_tests(wt, files)
            lost = sorted(base - changed)
            # re-run lost tests alone once (timeouts under load)
            if lost:
                again = passing_tests(wt, lost)
                lost = sorted(set(lost) - again)
            meta["existing_tests"] = {"files": files, "passed_clean": len(base), "passed_patched": len(changed), "lost": lost[:20]}
        finally:
            sh(["git", "-C", REPO, "worktree", "remove", "--force", wt])
    ok = meta["demo_clean_rc"] == 0 and meta.get("demo_patched_rc", 0) != 0 and not meta.get("existing_tests", {}).get("lost")
    meta["confirmed"] = ok
    if ok:
        dst = MAIN_VERIF / "seeded" / name
        dst.mkdir(parents=True, exist_ok=True)
        for f in ("patch.diff", "demo.py", "notes.md"):
            if (src / f).exists():
                shutil.copy(src / f, dst / f)
        notes = (src / "notes.md").read_text() if (src / "notes.md").exists() else ""
        meta["needs_to_manifest"] = notes[:1500]
        meta["verif_head"] = sh(["git", "-C", str(MAIN_VERIF), "rev-parse", "--short", "HEAD"])[1].strip()
        if (dst / "meta.json").exists():
            # an earlier evaluation (before the check was strengthened): keep its outcome
            try:
                old = json.loads((dst / "meta.json").read_text())
                hist = old.get("history", [])
                hist.append({k: old.get(k) for k in ("evaluated_at", "verif_head", "repo_head", "detected", "detected_with_failing_input")}
                            | {"check_rc": old.get("check", {}).get("rc"), "replay_keys": old.get("check", {}).get("replay_keys")})
                meta["history"] = hist
            except Exception:
                pass
        (dst / "meta.json").write_text(json.dumps(meta, indent=1))
    (src / "eval.json").write_text(json.dumps(meta, indent=1))
    print(f"{name}: applies={meta['applies']} demo clean={meta['demo_clean_rc']} patched={meta.get('demo_patched_rc')} "
          f"confirmed={ok} check_rc={meta.get('check', {}).get('rc')} detected={meta.get('detected')} keys={meta.get('check', {}).get('replay_keys')}")
    return 0


if __name__ == "__main__":
    sys.exit(main())
