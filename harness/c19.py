"""C19 — response content-encoding negotiation is correct.

O (direct oracle, from the property text; an independent few-line reading of "first entry the server can produce in the
    client's preference order, VGI header first, identity stops, nothing when nothing overlaps, announced on the header it
    was negotiated under — `Content-Encoding` when offered under both"): real requests through
    `falcon.testing.TestClient(make_wsgi_app(...))` for unary calls, stream init and producer continuations, three server
    encode sets (none / {gzip} / {zstd,gzip}); checks the stamped header(s) and that the decoded payload equals the one
    obtained with no accept header at all (unary: byte-identical body; producer: the data batches of the whole
    continuation chain — turn boundaries legitimately move because `max_response_bytes` counts wire bytes).
    O uses only SP / HTAB as whitespace and visible ASCII in tokens (what the property's quantifier lists).
K (correspondence): `parse_encoding_list` on arbitrary strings (incl. exotic whitespace, non-ASCII case mappings),
    `_CompressionMiddleware._pick_response_encoding` on a Falcon request, `__init__` level filtering,
    `process_response` on synthetic responses, and every O case (headers + which compressor at which level).
    The character tables behind `strip()` / `lower()` are compared with the interpreter over all 0x110000 code points.
"""


import io
import itertools
import os
import zlib
from dataclasses import dataclass
from typing import Any, Protocol

import pyarrow as pa

from harness.common import codecshim as cs
from harness.common import rpcutil
from harness.common.lean import b2j, s2j

PROPERTY = "C19"
LEAN_MODULES = ["VgiVerif.Proofs.C19"]
EXTRACTORS = ["gen_c19", "gen_c18"]
OBLIGATIONS = [
    "VgiVerif.C19.C19_choice",
    "VgiVerif.C19.C19_choice_lists",
    "VgiVerif.C19.C19_parse",
    "VgiVerif.C19.C19_recognise",
    "VgiVerif.C19.C19_header",
    "VgiVerif.C19.C19_body",
    "VgiVerif.C19.C19_paths",
]
TRUSTED = [
    "CPython str.split / strip / lower as mirrored by Prelude/PyStr + Prelude/HdrStr (character tables generated from the "
    "interpreter and compared exhaustively on every run)",
    "zstandard / zlib / pyarrow.CompressedOutputStream emit honest frames (HonestZ / HonestG of Spec/C18.lean)",
    "Falcon header access (`req.get_header`, repeated-header folding) and falcon.testing are exercised, not modelled",
]
RULE = (
    "ordered lists of length <= 4 over {zstd,gzip,identity,br,deflate,junk} plus unknown tokens that embed a coding name "
    "(x-gzip, gzipped, not-zstd, zstd-dict, identityx, names inside parameters; systematic sweep: coding under one header, "
    "embedding token under the other) with duplicates, case variants, ;q= / ;x=y "
    "parameters, SP/HTAB padding and empty items, for both headers (each may also be absent) x server encode sets "
    "{none,{gzip},{zstd,gzip}} x {unary, init, producer continuation}; K additionally: all list pairs of length <= 3 "
    "(thorough: exhaustive, 67k pairs x 3 sets) at function level and random Unicode strings for the parser. Distinct by "
    "(server set, path, both header strings); non-trivial when at least one header is present"
)
PARTIAL = [
    "that the bytes a compressor emits decode to its input is the libraries' contract (exercised on every O case)",
]
MANIFEST = {
    "level": "proof",
    "text": "Lean theorems: for all header strings and server sets the chosen coding is the first producible entry of "
    "(VGI header ++ Accept-Encoding) with identity stopping the search; the stamped header is one the client offered the "
    "coding under (Content-Encoding when both); pre-compressed producer and middleware compression stamp identically; "
    "client-side decode returns the handler's bytes.  Tied to the code by extraction of the loop shape / header names / "
    "stamping sites and by differential runs through the real middleware.",
    "note": "whitespace in O is SP/HTAB; exotic whitespace and non-ASCII case mappings are covered by K only",
    "technique": "Lean 4 proof (list lemmas over find?/dedup) + correspondence through falcon.testing + direct oracle",
}

CT = {"Content-Type": "application/vnd.apache.arrow.stream"}
TOKENS = ["zstd", "gzip", "identity", "br", "deflate", "junk"]
# unknown tokens that *embed* a coding name (as prefix / suffix / infix, or only inside a parameter): a header is a list of
# tokens, so none of these offers the embedded coding — but any shortcut over the raw header string (substring / prefix /
# regex search) thinks it does.
EMBED = ["x-gzip", "gzipped", "gzip2", "pack200-gzip", "xgzipx", "not-zstd", "zstd-dict", "zstdx", "xzstd", "zstdgzip",
         "identityx", "x-identity", "non-identity", "br;gzip", "br;q=zstd", "junk;x=identity", "deflate; gzip=1", "g zip", "zs td"]
NAMES = ("zstd", "gzip", "identity")
SERVER_SETS = {"none": (), "gzip": ("gzip",), "both": ("zstd", "gzip")}


# ------------------------------------------------------------------------------------------------ the spec (property text)


def spec_offered(h: str | None) -> list[str]:
    """Codings a header offers, in order: comma-separated items, parameters dropped, OWS trimmed, case-insensitive."""
    out = []
    for item in (h or "").split(","):
        name = item.split(";")[0].strip(" \t").lower()
        if name in NAMES:
            out.append(name)
    return out


def spec_choice(xae: str | None, ae: str | None, server: tuple[str, ...]) -> str | None:
    for e in spec_offered(xae) + spec_offered(ae):
        if e == "identity":
            return None
        if e in server:
            return e
    return None


def spec_header(chosen: str, xae: str | None, ae: str | None) -> str:
    return "x-vgi-content-encoding" if chosen in spec_offered(xae) and chosen not in spec_offered(ae) else "content-encoding"


# ------------------------------------------------------------------------------------------------ header generators

CASE = [str.lower, str.upper, str.title, lambda s: s[0].lower() + s[1:].upper(), lambda s: "".join(c.upper() if i % 2 else c for i, c in enumerate(s))]
PARAMS = ["", "", "", ";q=0.5", ";q=0", "; q=1.0", " ;q=0.001", ";foo=bar", ";q=1;x=y", ";", "; "]
PAD = ["", "", " ", "  ", "\t", " \t "]


def render(rng: Any, toks: list[str], fancy: bool) -> str:
    items = []
    for t in toks:
        if fancy:
            t = rng.choice(CASE)(t)
            t = rng.choice(PAD) + t + rng.choice(PARAMS) + rng.choice(PAD)
        items.append(t)
    sep = rng.choice([",", ", ", " , ", ",,", ", ,"]) if fancy else ","
    s = sep.join(items)
    if fancy and rng.random() < 0.1:
        s = rng.choice([",", " ", ", "]) + s
    if fancy and rng.random() < 0.1:
        s = s + rng.choice([",", " ", ",  "])
    return s


def gen_header(rng: Any) -> str | None:
    r = rng.random()
    if r < 0.12:
        return None
    if r < 0.16:
        return rng.choice(["", " ", ",", "*", "*;q=0.1", "gzip;q=0, *"])
    n = rng.choice([1, 1, 2, 2, 3, 3, 4])
    toks = [rng.choice(EMBED) if rng.random() < 0.2 else rng.choice(TOKENS) for _ in range(n)]
    return render(rng, toks, fancy=rng.random() < 0.7)


def embed_pairs() -> list[tuple[str | None, str | None]]:
    """Systematic sweep of the embedding dimension: a coding offered under one header while the other header carries only
    unknown tokens that contain its name (and the mirror image, and both padded with other tokens)."""
    out: list[tuple[str | None, str | None]] = []
    for name in NAMES:
        for t in EMBED:
            if name not in t.replace(" ", ""):
                continue
            for good in (name, name.upper(), f"br, {name}", f"{name};q=0.5, junk"):
                for bad in (t, f"{t}, br", f"junk, {t.upper()}"):
                    out.append((bad, good))   # (Accept-Encoding, X-VGI-Accept-Encoding)
                    out.append((good, bad))
            out.append((t, t))
            out.append((t, None))
            out.append((None, t))
    return out


EXOTIC = [" ", "\t", "\n", "\r", "\x0b", "\x0c", "\x1c", "\x1f", "\x85", "\xa0", " ", " ", " ", "　", "​",
          "﻿", ";", ",", "=", "q", "İ", "ı", "K", "ſ", "Σ", "ς", "É", "ß", "Z", "z", "G", "I", "i", "\x00", "\U0001d7ce"]


def gen_exotic(rng: Any) -> str:
    toks = []
    for _ in range(rng.choice([1, 2, 3])):
        t = rng.choice(TOKENS)
        t = rng.choice(CASE)(t)
        for _ in range(rng.choice([0, 1, 1, 2])):
            p = rng.randrange(len(t) + 1)
            op = rng.choice(["ins", "rep", "del"])
            ch = rng.choice(EXOTIC)
            if op == "ins":
                t = t[:p] + ch + t[p:]
            elif op == "rep" and t:
                p = min(p, len(t) - 1)
                t = t[:p] + ch + t[p + 1 :]
            elif t:
                p = min(p, len(t) - 1)
                t = t[:p] + t[p + 1 :]
        toks.append(t)
    return ",".join(toks)


# ------------------------------------------------------------------------------------------------ the service

from vgi_rpc.rpc import AnnotatedBatch, CallContext, OutputCollector, RpcServer, Stream, StreamState  # noqa: E402


@dataclass
class GenState(StreamState):
    n: int = 0
    i: int = 0

    def process(self, input: AnnotatedBatch, out: OutputCollector, ctx: CallContext) -> None:
        if self.i >= self.n:
            out.finish()
            return
        out.emit_pydict({"x": [self.i] * 50})
        self.i += 1


class _Proto(Protocol):
    def echo(self, s: str) -> str: ...
    def gen(self, n: int) -> Stream[GenState]: ...


class _Impl:
    def echo(self, s: str) -> str:
        return s

    def gen(self, n: int) -> Stream[GenState]:
        return Stream(output_schema=pa.schema([("x", pa.int64())]), state=GenState(n))


ZSTD_LEVEL = 2  # non-default on purpose, so the level wiring is visible


class Apps:
    def __init__(self) -> None:
        import falcon.testing
        from vgi_rpc.http import make_wsgi_app

        self.server = RpcServer(_Proto, _Impl())
        self.clients: dict[str, Any] = {}
        for name in SERVER_SETS:
            kw: dict[str, Any] = {"token_key": b"k" * 32, "max_response_bytes": 1500}
            old = os.environ.get("VGI_HTTP_DISABLE_ZSTD")
            try:
                if name == "gzip":
                    os.environ["VGI_HTTP_DISABLE_ZSTD"] = "1"
                else:
                    os.environ.pop("VGI_HTTP_DISABLE_ZSTD", None)
                kw["compression_level"] = None if name == "none" else ZSTD_LEVEL
                app = make_wsgi_app(self.server, **kw)
            finally:
                if old is None:
                    os.environ.pop("VGI_HTTP_DISABLE_ZSTD", None)
                else:
                    os.environ["VGI_HTTP_DISABLE_ZSTD"] = old
            self.clients[name] = falcon.testing.TestClient(app)
        self.unary_req = rpcutil.request_bytes("echo", self.server._methods["echo"].params_schema, {"s": "payload " * 40})
        self.init_req = rpcutil.request_bytes("gen", self.server._methods["gen"].params_schema, {"n": 9})
        self.baseline: dict[tuple[str, str], Any] = {}

    def levels(self, sset: str) -> list[list[Any]]:
        return [[n.upper(), ZSTD_LEVEL if n == "zstd" else 6] for n in SERVER_SETS[sset]]


def _hdrs(ae: str | None, xae: str | None) -> dict[str, str]:
    h = dict(CT)
    if ae is not None:
        h["Accept-Encoding"] = ae
    if xae is not None:
        h["X-VGI-Accept-Encoding"] = xae
    return h


def _decode(r: Any) -> tuple[bytes | None, str | None, str | None, str]:
    """(decoded body or None if undecodable, Content-Encoding, X-VGI-Content-Encoding, problem)"""
    ce = r.headers.get("content-encoding")
    xce = r.headers.get("x-vgi-content-encoding")
    raw = r.content
    coding = ce or xce
    if coding is None:
        return raw, ce, xce, ""
    try:
        if coding == "gzip":
            d = zlib.decompressobj(31)
            out = d.decompress(raw) + d.flush()
            if not d.eof or d.unused_data:
                return None, ce, xce, "gzip body is not exactly one complete member"
            return out, ce, xce, ""
        if coding == "zstd":
            import zstandard

            return zstandard.ZstdDecompressor().stream_reader(io.BytesIO(raw)).read(), ce, xce, ""
    except Exception as e:  # noqa: BLE001
        return None, ce, xce, f"{type(e).__name__}: {e}"
    return None, ce, xce, f"unknown coding {coding!r}"


def _token_request(md: dict[bytes, bytes]) -> bytes:
    buf = io.BytesIO()
    sch = pa.schema([])
    with pa.ipc.new_stream(buf, sch) as w:
        w.write_batch(pa.record_batch([], schema=sch), custom_metadata=md)
    return buf.getvalue()


def _batches(decoded: bytes) -> tuple[list[Any], dict[bytes, bytes] | None]:
    """(data batches as pydicts, continuation metadata or None) of one decoded response body."""
    from vgi_rpc.metadata import STATE_KEY

    data, tok = [], None
    for _sch, bs in rpcutil.read_all_streams(decoded):
        for b, md in bs:
            if b.num_rows == 0 and STATE_KEY in md:
                tok = {k: v for k, v in md.items() if k.startswith(b"vgi_rpc.stream_state") or k.startswith(b"vgi_rpc.call_state")}
            else:
                data.append(b.to_pydict())
    return data, tok


def observe(apps: Apps, sset: str, path: str, ae: str | None, xae: str | None) -> dict[str, Any]:
    """Run one unary call or one whole producer chain with the given accept headers."""
    client = apps.clients[sset]
    h = _hdrs(ae, xae)
    turns: list[dict[str, Any]] = []
    if path == "unary":
        r = client.simulate_post("/echo", body=apps.unary_req, headers=h)
        dec, ce, xce, prob = _decode(r)
        turns.append({"turn": "unary", "status": r.status_code, "ce": ce, "xce": xce, "raw": r.content, "decoded": dec, "problem": prob})
        return {"turns": turns, "payload": dec}
    r = client.simulate_post("/gen/init", body=apps.init_req, headers=h)
    payload: list[Any] = []
    kind = "init"
    call_state = None
    for _ in range(40):
        dec, ce, xce, prob = _decode(r)
        turns.append({"turn": kind, "status": r.status_code, "ce": ce, "xce": xce, "raw": r.content, "decoded": dec, "problem": prob})
        if dec is None or r.status_code != 200:
            return {"turns": turns, "payload": None}
        data, tok = _batches(dec)
        payload.extend(data)
        if tok is None:
            break
        for k, v in tok.items():
            if k.startswith(b"vgi_rpc.call_state"):
                call_state = (k, v)
        if call_state is not None:
            tok[call_state[0]] = call_state[1]
        r = client.simulate_post("/gen/exchange", body=_token_request(tok), headers=h)
        kind = "producer"
    return {"turns": turns, "payload": payload}


def check_case(ctx: Any, apps: Apps, sset: str, path: str, ae: str | None, xae: str | None) -> None:
    case = {"server": sset, "path": path, "ae": ae, "xae": xae}
    server = SERVER_SETS[sset]
    want = spec_choice(xae, ae, server)
    ctx.case(case, nontrivial=(ae is not None or xae is not None),
             tags=(f"server:{sset}", f"path:{path}", f"choice:{want}", "hdr:" + ("both" if ae is not None and xae is not None else "ae" if ae is not None else "xae" if xae is not None else "neither")))
    key = (sset, path)
    if key not in apps.baseline:
        apps.baseline[key] = observe(apps, sset, path, None, None)["payload"]
    obs = observe(apps, sset, path, ae, xae)
    for t in obs["turns"]:
        tk = t["turn"]
        if t["status"] != 200:
            ctx.fail(case, f"C19:{tk}:status-{t['status']}", f"{tk} response status {t['status']}")
            return
        if want is None:
            if t["ce"] is not None or t["xce"] is not None:
                ctx.fail(case, f"C19:{tk}:coding-when-none-expected:{t['ce'] or t['xce']}",
                         f"no coding expected (identity first / no overlap) but Content-Encoding={t['ce']!r} X-VGI-Content-Encoding={t['xce']!r}")
                return
        else:
            hdr = spec_header(want, xae, ae)
            got = {"content-encoding": t["ce"], "x-vgi-content-encoding": t["xce"]}
            other = "x-vgi-content-encoding" if hdr == "content-encoding" else "content-encoding"
            if got[hdr] != want or got[other] is not None:
                if got[hdr] is None and got[other] is None:
                    k = f"C19:{tk}:not-coded:want-{want}"
                elif got[other] is not None and got[hdr] is None and got[other] == want:
                    k = f"C19:{tk}:wrong-header:{other}"
                else:
                    k = f"C19:{tk}:wrong-coding:want-{want}:got-{got[hdr] or got[other]}"
                ctx.fail(case, k, f"expected {hdr}: {want} (and no {other}); got Content-Encoding={t['ce']!r} X-VGI-Content-Encoding={t['xce']!r}")
                return
        if t["decoded"] is None:
            ctx.fail(case, f"C19:{tk}:undecodable-body", f"body does not decode with the announced coding: {t['problem']}")
            return
    if obs["payload"] != apps.baseline[key]:
        ctx.fail(case, f"C19:{path}:decoded-payload-differs", "the decoded payload differs from the one served without accept headers")
        return
    # ---- K on the same case: headers + which compressor at which level -------------------------------------------
    if ctx.driver is None:
        return
    for t in obs["turns"]:
        if t["turn"] == "init":
            continue  # init splices a plaintext header stream with the first turn; modelled like unary for headers only
        plain = t["decoded"]
        m = ctx.driver.call("C19.respond", {"levels": apps.levels(sset), "body": b2j(plain), "ae": s2j(ae) if ae is not None else None,
                                             "xae": s2j(xae) if xae is not None else None, "path": "unary" if t["turn"] == "unary" else "producer"})
        impl_h = {"ce": t["ce"].upper() if t["ce"] else None, "xce": t["xce"].upper() if t["xce"] else None}
        if {"ce": m["ce"], "xce": m["xce"]} != impl_h:
            ctx.mismatch(case, {"ce": m["ce"], "xce": m["xce"]}, impl_h, f"{t['turn']}: stamped headers, model vs implementation")
            return
        mb = bytes.fromhex(m["body"])
        coded = t["ce"] or t["xce"]
        if coded is None:
            if mb != plain:
                ctx.mismatch(case, "model compresses", "implementation does not", f"{t['turn']}: body")
            continue
        tag, arg = mb[0], mb[1]
        raw = t["raw"]
        if tag == 1:  # zstd stream_writer(size=…)
            ok = raw == cs.zstd_stream_writer(plain, arg - 128, with_size=True)
        elif tag == 3:  # gzip compressobj in 64 KiB chunks
            ok = raw == cs.gzip_zlib(plain, arg - 128)
        elif tag == 4:  # pa.CompressedOutputStream
            import zstandard

            if coded == "zstd":
                ok = zstandard.get_frame_parameters(raw).content_size in (-1, 2**64 - 1)  # size-less frame: a streaming writer
            else:
                ok = True
            ok = ok and ((arg == 0) == (coded == "zstd"))
        else:
            ok = False
        if not ok:
            ctx.mismatch(case, {"compressor": tag, "arg": arg}, {"coding": coded, "raw_len": len(raw)}, f"{t['turn']}: which compressor / level produced the body")
            return


# ------------------------------------------------------------------------------------------------ run


def k_chars(ctx: Any) -> None:
    import sys

    m = ctx.driver.call("C19.chars", {})
    py_spaces = [cp for cp in range(sys.maxunicode + 1) if not 0xD800 <= cp <= 0xDFFF and chr(cp).isspace()]
    ctx.case({"chars": "isspace"}, nontrivial=True, tags=("k:chars",))
    if py_spaces != m["spaces"]:
        ctx.mismatch({"chars": "isspace"}, m["spaces"][:50], py_spaces[:50], "str.isspace table")
    spaces = set(py_spaces)
    mlow = {e[0]: e[1] for e in m["lower"]}

    def skel(cps: list[int]) -> list[Any]:
        out: list[Any] = []
        for c in cps:
            v: Any = c if c < 128 else ("S", c) if c in spaces else "?"
            if v == "?" and out and out[-1] == "?":
                continue
            out.append(v)
        return out

    bad = []
    for cp in range(sys.maxunicode + 1):
        if 0xD800 <= cp <= 0xDFFF:
            continue
        py = [ord(ch) for ch in chr(cp).lower()]
        ml = mlow.get(cp, [cp])
        if py != ml and skel(py) != skel(ml):
            bad.append((cp, py, ml))
    ctx.case({"chars": "lower"}, nontrivial=True, tags=("k:chars",))
    if bad:
        ctx.mismatch({"chars": "lower"}, [b[2] for b in bad[:10]], [(b[0], b[1]) for b in bad[:10]], "str.lower: ASCII-relevant behaviour")
    ctx.note("code_points_compared", sys.maxunicode + 1 - 2048)


def k_parse(ctx: Any, strings: list[str]) -> None:
    from vgi_rpc._codec import parse_encoding_list

    res = ctx.driver.batch([("C19.parse", {"h": s2j(s)}) for s in strings])
    for s, m in zip(strings, res):
        impl = [e.name for e in parse_encoding_list(s)]
        case = {"parse": s}
        ctx.case(case, nontrivial=True, tags=("k:parse", f"parse:n={len(impl)}"))
        if m != impl:
            ctx.mismatch(case, m, impl, "parse_encoding_list: model vs implementation")


def k_pick(ctx: Any, triples: list[tuple[str, str | None, str | None]]) -> None:
    import falcon.testing
    from vgi_rpc._codec import Encoding
    from vgi_rpc.http.server._middleware import _CompressionMiddleware

    mws = {}
    for name, members in SERVER_SETS.items():
        mws[name] = _CompressionMiddleware({Encoding(n): (ZSTD_LEVEL if n == "zstd" else 6) for n in members}, decode_encodings=(Encoding.ZSTD, Encoding.GZIP))
    reqs = []
    impls = []
    for sset, ae, xae in triples:
        h = {}
        if ae is not None:
            h["Accept-Encoding"] = ae
        if xae is not None:
            h["X-VGI-Accept-Encoding"] = xae
        req = falcon.testing.create_req(headers=h)
        chosen, custom = mws[sset]._pick_response_encoding(req)
        impls.append({"chosen": chosen.name if chosen else None, "custom": bool(custom)})
        # what Falcon hands to the code (it may strip / fold the raw value)
        ae_seen, xae_seen = req.get_header("Accept-Encoding"), req.get_header("X-VGI-Accept-Encoding")
        reqs.append(("C19.pick", {"levels": [n.upper() for n in SERVER_SETS[sset]],
                                  "ae": s2j(ae_seen) if ae_seen is not None else None, "xae": s2j(xae_seen) if xae_seen is not None else None}))
    res = ctx.driver.batch(reqs)
    for (sset, ae, xae), impl, m in zip(triples, impls, res):
        case = {"pick": sset, "ae": ae, "xae": xae}
        want = spec_choice(xae, ae, SERVER_SETS[sset])
        ctx.case(case, nontrivial=(ae is not None or xae is not None), tags=("k:pick", f"server:{sset}", f"choice:{want}"))
        if {"chosen": m["chosen"], "custom": m["custom"]} != impl:
            ctx.mismatch(case, m, impl, "_pick_response_encoding: model vs implementation")
        # O at function level (same spec as the HTTP oracle; ASCII SP/HTAB inputs only reach here)
        got = impl["chosen"].lower() if impl["chosen"] else None
        if got != want:
            ctx.fail(case, f"C19:pick:want-{want}:got-{got}", f"_pick_response_encoding chose {got}, the property says {want}")
        elif want is not None and impl["custom"] != (spec_header(want, xae, ae) == "x-vgi-content-encoding"):
            ctx.fail(case, f"C19:pick:wrong-header-flag:{want}", "used-custom-header flag does not match how the coding was negotiated")


def k_process_response(ctx: Any, rng: Any, n: int) -> None:
    """`process_response` on synthetic Falcon responses (non-Arrow type, empty body, no stream, native stream, flag set)."""
    import falcon
    import falcon.testing
    from vgi_rpc._codec import Encoding
    from vgi_rpc.http.server._middleware import _CompressionMiddleware
    from vgi_rpc.rpc._common import _current_body_precompressed

    for _ in range(n):
        sset = rng.choice(list(SERVER_SETS))
        levels = {Encoding(nm): (ZSTD_LEVEL if nm == "zstd" else 6) for nm in SERVER_SETS[sset]}
        mw = _CompressionMiddleware(levels, decode_encodings=(Encoding.ZSTD, Encoding.GZIP))
        chosen = rng.choice([None] + list(SERVER_SETS[sset]))
        custom = rng.random() < 0.5
        arrow = rng.random() < 0.8
        pre = rng.random() < 0.25
        kind = rng.choice(["none", "native", "other", "io_seekable", "io_seekable", "io_plain"])
        body = rng.choice([b"", b"x", b"arrow-ipc-bytes " * rng.choice([1, 50, 5000])])
        req = falcon.testing.create_req()
        req.context.response_encoding = Encoding(chosen) if chosen else None
        req.context.use_custom_encoding_header = custom
        resp = falcon.Response()
        resp.content_type = "application/vnd.apache.arrow.stream" if arrow else "application/json"
        if kind == "native":
            resp.stream = pa.BufferReader(body)
        elif kind == "other":
            resp.stream = iter([body])
        elif kind == "io_seekable":
            resp.stream = io.BytesIO(body)
        elif kind == "io_plain":

            class _NoSeek(io.RawIOBase):
                def __init__(self, b: bytes) -> None:
                    self._b = io.BytesIO(b)

                def readable(self) -> bool:
                    return True

                def readinto(self, buf: Any) -> int:
                    d = self._b.read(len(buf))
                    buf[: len(d)] = d
                    return len(d)

                def seekable(self) -> bool:
                    return False

                def seek(self, *a: Any) -> int:
                    raise OSError("unseekable")

                def tell(self) -> int:
                    return 0  # `process_response` calls tell() outside its try; only seek() may fail

            resp.stream = _NoSeek(body)
        tok = _current_body_precompressed.set(pre)
        try:
            mw.process_response(req, resp, None, True)
        finally:
            _current_body_precompressed.reset(tok)
        if resp.data is not None:
            out = bytes(resp.data)
        elif resp.stream is not None:
            out = b"".join(resp.stream) if kind == "other" else resp.stream.read()
            out = bytes(out) if not isinstance(out, bytes) else out
        else:
            out = b""
        ce, xce = resp.get_header("Content-Encoding"), resp.get_header("X-VGI-Content-Encoding")
        m = ctx.driver.call("C19.processResponse", {"levels": [[nm.upper(), ZSTD_LEVEL if nm == "zstd" else 6] for nm in SERVER_SETS[sset]],
                                                     "chosen": chosen.upper() if chosen else None, "custom": custom, "body": b2j(body),
                                                     "stream": "io_seekable" if kind == "native" else kind, "arrow": arrow, "pre": pre})
        case = {"process_response": {"server": sset, "chosen": chosen, "custom": custom, "arrow": arrow, "pre": pre, "stream": kind, "len": len(body)}}
        ctx.case(case, nontrivial=True, tags=("k:process_response", f"stream:{kind}"))
        impl_h = {"ce": ce.upper() if ce else None, "xce": xce.upper() if xce else None}
        if impl_h != {"ce": m["ce"], "xce": m["xce"]}:
            ctx.mismatch(case, {"ce": m["ce"], "xce": m["xce"]}, impl_h, "process_response: stamped headers")
            continue
        mb = bytes.fromhex(m["body"])
        if ce is None and xce is None or pre:
            ok = mb == out
        elif mb[0] == 1:
            ok = out == cs.zstd_stream_writer(body, mb[1] - 128, with_size=True)
        elif mb[0] == 2:
            ok = out == cs.zstd_oneshot(body, mb[1] - 128)
        elif mb[0] == 3:
            ok = out == cs.gzip_zlib(body, mb[1] - 128)
        else:
            ok = False
        if not ok:
            ctx.mismatch(case, {"marker": list(mb[:2])}, {"len": len(out)}, "process_response: body / compressor / level")


def run(ctx: Any) -> None:
    from vgi_rpc._codec import Encoding
    from vgi_rpc.http.server._middleware import _CompressionMiddleware

    rng = ctx.rng
    thorough = ctx.tier == "thorough" or ctx.deep
    # ---- K0: character tables, level filtering --------------------------------------------------------------------
    if ctx.driver is not None:
        k_chars(ctx)
        for requested in ([("ZSTD", 3), ("GZIP", 6)], [("GZIP", 9)], [("IDENTITY", 0), ("ZSTD", 1)], []):
            mw = _CompressionMiddleware({Encoding[n]: lv for n, lv in requested})
            from vgi_rpc._codec import available_encodings

            m = ctx.driver.call("C19.mkLevels", {"requested": [[n, lv] for n, lv in requested], "runtime": [e.name for e in available_encodings()]})
            impl = [[e.name, lv] for e, lv in mw._levels.items()]
            ctx.case({"mkLevels": requested}, nontrivial=True, tags=("k:levels",))
            if m != impl:
                ctx.mismatch({"mkLevels": requested}, m, impl, "_CompressionMiddleware.__init__ level filtering")

    # ---- K1: parser -----------------------------------------------------------------------------------------------
    strings: list[str] = ["", " ", ",", ",,", ";", "gzip", "GZIP", " gzip ", "gzip;q=0", "gzip ; q=1", ";gzip", "gzip;", "g zip", "gzip,gzip",
                          "zstd, gzip, identity", "identity;q=0", "*", "br, deflate", "gzip\xa0", " zstd", "gzıp", "gzİp", "İdentity",
                          "identitẏ", "gZiP;Q=1,ZSTD", "zstd\n", "\tzstd\t", "gzip;;", "gzip ;", "; ,gzip", "x-gzip", "gzip,", "zstd;gzip",
                          "K", "ſtd", "zstd\x00", "zstd\x1c", "\x85gzip\x85"]
    for n in range(0, 4):
        for toks in itertools.product(TOKENS, repeat=n):
            strings.append(",".join(toks))
    for _ in range(ctx.budget(3000, 60000)):
        h = gen_header(rng)
        strings.append(h if h is not None else "")
    for _ in range(ctx.budget(2000, 40000)):
        strings.append(gen_exotic(rng))
    strings = [s for s in strings if not any(0xD800 <= ord(ch) <= 0xDFFF for ch in s)]
    if ctx.driver is not None:
        k_parse(ctx, strings)

    # ---- K2 (+ function-level O): _pick_response_encoding ----------------------------------------------------------
    base_lists = [",".join(t) for n in range(0, 4) for t in itertools.product(TOKENS, repeat=n)]
    triples: list[tuple[str, str | None, str | None]] = []
    if thorough:
        for a in base_lists:
            for b in base_lists:
                for sset in SERVER_SETS:
                    triples.append((sset, a, b))
        ctx.note("plain_list_pairs_exhaustive_len_le_3", len(base_lists) ** 2)
    else:
        for _ in range(ctx.budget(6000, 6000)):
            triples.append((rng.choice(list(SERVER_SETS)), rng.choice(base_lists), rng.choice(base_lists)))
    for _ in range(ctx.budget(6000, 120000)):
        triples.append((rng.choice(list(SERVER_SETS)), gen_header(rng), gen_header(rng)))
    emb = embed_pairs()
    for ae, xae in emb:
        for sset in SERVER_SETS:
            triples.append((sset, ae, xae))
    ctx.note("embedded_name_pairs", len(emb))
    if ctx.driver is not None:
        for i in range(0, len(triples), 20000):
            k_pick(ctx, triples[i : i + 20000])
        k_process_response(ctx, rng, ctx.budget(300, 5000))

    # ---- O (+ K on the same cases): through the real application ----------------------------------------------------
    apps = Apps()
    corpus: list[tuple[str | None, str | None]] = [
        (None, None), ("gzip", None), ("zstd", None), (None, "zstd"), (None, "gzip"), ("gzip", "zstd"), ("zstd", "zstd"), ("gzip", "gzip"),
        ("identity, gzip", None), ("gzip, identity", None), ("identity", "zstd"), ("gzip", "identity"), ("br", "junk"), ("gzip;q=0", None),
        ("deflate, gzip, br, zstd", "zstd, gzip"), ("GZIP", None), ("gzip", "ZSTD;q=1"), ("", ""), ("*", None), ("br", "zstd"),
        ("zstd", "br"), ("gzip , zstd", " zstd\t"), ("gzip", "zstd, gzip"), ("zstd, gzip", "gzip"), ("junk, zstd", "junk"),
        # a coding negotiated through the VGI header only, while Accept-Encoding merely *contains* its name in another token
        ("x-gzip, br", "gzip"), ("zstd-dict, br", "zstd"), ("pack200-gzip", "br, gzip, zstd"), ("gzipped", "gzip"), ("not-zstd", "zstd"),
        ("gzip", "x-gzip"), ("br;q=gzip", "gzip"), ("non-identity, gzip", "zstd"), ("zstd", "x-identity, gzip"),
    ]
    for ae, xae in corpus:
        for sset in SERVER_SETS:
            for path in ("unary", "stream"):
                check_case(ctx, apps, sset, path, ae, xae)
    emb_http = list(emb) if thorough else rng.sample(emb, min(len(emb), 150))
    for i, (ae, xae) in enumerate(emb_http):
        check_case(ctx, apps, rng.choice(["gzip", "both"]), "unary" if (thorough or i % 4) else "stream", ae, xae)
        if thorough:
            check_case(ctx, apps, "both", "stream", ae, xae)
    n_u, n_p = ctx.budget(900, 30000), ctx.budget(150, 4000)
    for i in range(n_u):
        check_case(ctx, apps, rng.choice(list(SERVER_SETS)), "unary", gen_header(rng), gen_header(rng))
    for i in range(n_p):
        check_case(ctx, apps, rng.choice(list(SERVER_SETS)), "stream", gen_header(rng), gen_header(rng))


def replay(ctx: Any, case: dict[str, Any]) -> None:
    if "server" in case and "path" in case:
        check_case(ctx, Apps(), case["server"], case["path"], case["ae"], case["xae"])
    elif "pick" in case and ctx.driver is not None:
        k_pick(ctx, [(case["pick"], case["ae"], case["xae"])])
    elif "parse" in case and ctx.driver is not None:
        k_parse(ctx, [case["parse"]])
    else:
        ctx.case(case, nontrivial=False)
