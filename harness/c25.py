"""C25 — sticky sessions are isolated by worker and identity.

K (correspondence, model vs implementation)
  * frame: `_seal_session_token` / the parsing half of `_open_session_token` vs `packFrame` / `parseFrame` on generated
    plaintexts (sealed with the real cipher so the real parser runs on them);
  * identity: `_compute_aad`, `_StickyMiddleware._principal_key` vs `aad`, `pkey`;
  * histories: every operation of a generated history over a farm of real workers (POST with a script, DELETE, clock,
    reaper tick, shutdown, drain) vs `Net.step` — response class, method log, response headers, registries, closed states.
O (direct oracle, from the property text; independent bookkeeping of what was minted, for whom, and what has ended)
  * a request that presents a VGI-Session value is dispatched with a session  ⇒  the value is byte-identical to a token
    minted by THIS worker for THIS identity and that session has not been closed / evicted / expired;
  * every other presentation is answered `session_lost` and the method is not dispatched;
  * the legitimate presentation IS served (positive control);
  * DELETE answers 204 iff the presentation is legitimate and live, and every other DELETE answer of a worker is
    byte-identical (status 200, same headers, same body);
  * `_open_session_token` never lets another exception escape, and rejects every bit flip / truncation of a token.
"""

import base64
import json
from typing import Any

from harness.common import sticky as S
from harness.common.lean import b2j

PROPERTY = "C25"
LEAN_MODULES = ["VgiVerif.Proofs.C25"]
EXTRACTORS = ["gen_c25"]
OBLIGATIONS = [
    "VgiVerif.C25.sess_frame_rt",
    "VgiVerif.C25.sess_open_total",
    "VgiVerif.C25.wire_canonical",
    "VgiVerif.C25.aad_injective",
    "VgiVerif.C25.C25_dispatch",
    "VgiVerif.C25.C25_lost",
    "VgiVerif.C25.C25_access",
    "VgiVerif.C25.C25_delete",
    "VgiVerif.C25.C25_delete_uniform",
    "VgiVerif.C25.C25_routes",
    "VgiVerif.C25.C25_expiry",
]
TRUSTED = [
    "XChaCha20-Poly1305 as an ideal AEAD (symbolic): an envelope opens iff key, AAD and version are those it was sealed with; "
    "envelopes under a worker key exist only as minted session tokens (cursor tokens share key and AAD and are separated only "
    "by the unauthenticated version byte plus the frame shape — outside the symbolic closure)",
    "base64 as an abstract codec with dec(enc t) = t; the lenient decoder is arbitrary",
    "`secrets.token_bytes` / `os.urandom` fresh (deterministic counters in the harness); integral clock",
    "identities at the level of the UTF-8 bytes of domain / principal; domains without NUL bytes",
    "Falcon routing, header folding and OWS stripping; the sticky exemption of {prefix}/health and {prefix}/__session__",
]
RULE = (
    "histories over 3 workers (two sharing a key, ASCII server ids of three lengths so that tokens have 0/2/4 unused "
    "trailing bits) x 8 identities incl. anonymous, unauthenticated-with-fields and the principal-key collision "
    "('', 'anonymous'); every minted token is presented byte-identical under every (worker, identity) pair, mutated "
    "(all single-bit flips of envelope bytes and of wire characters, all truncations at function level; a sample plus "
    "re-encodings / foreign-key / foreign-AAD forgeries through HTTP) and again after close, DELETE, expiry (inline and "
    "reaped), shutdown. Non-trivial = a token was presented; distinct by (farm, op list)."
)
PARTIAL = [
    "the cipher itself (symbolic AEAD); cross-kind confusion with cursor tokens sealed under the same key and AAD",
    "interleavings (C26)",
    "non-ASCII server ids (every presentation is session_lost, also the legitimate one) are exercised in K only",
]
MANIFEST = {
    "level": "proof",
    "text": "Lean theorems over the sequential sticky model (frame round trip / totality, canonical wire, AAD injectivity, "
            "dispatch-with-session ⇒ minted here for this identity and live, otherwise session_lost without dispatch, DELETE 204 "
            "iff live and owned else one uniform answer) for all histories; model tied to _sticky.py by extraction of constants, "
            "layouts and check order and by differential runs of generated histories over real workers; direct oracle from the "
            "property text incl. all bit flips and truncations of minted tokens.",
    "note": "symbolic AEAD; ASCII pairwise-distinct server ids; NUL-free domains; fresh ids/nonces",
    "technique": "Lean 4 proof: invariants over multi-worker histories + symbolic AEAD; correspondence: generated histories vs Net.step",
}

IDENTS: list[Any] = [
    None,
    ("d", "alice", True),
    ("d", "bob", True),
    ("e", "alice", True),
    ("", "anonymous", True),       # principal key collides with the anonymous one; AAD does not
    ("d", "alice", False),          # not authenticated: anonymous for the code
    (None, None, True),             # authenticated with empty identity
    ("dé", "zoë中", True),
]
KEYS = [b"k" * 32, b"another-key-of-32-bytes-length!!"]
ATTACKER_KEY = b"attacker-key-attacker-key-32byte"
FARMS: list[list[dict[str, Any]]] = [
    [{"server_id": "w0", "key": 0, "default_ttl": 300}, {"server_id": "w1x", "key": 0, "default_ttl": 50},
     {"server_id": "abcdef012345", "key": 1, "default_ttl": 10}],
    [{"server_id": "abcdef012345", "key": 0, "default_ttl": 20, "prefix": "/vgi"},
     {"server_id": "abcdef012346", "key": 0, "default_ttl": 20, "prefix": "/vgi"},
     {"server_id": "", "key": 0, "default_ttl": 5}],
    [{"server_id": "a" * 255, "key": 0, "default_ttl": 7}, {"server_id": "wé", "key": 0, "default_ttl": 7},
     {"server_id": "w\ufffd\ufffd", "key": 0, "default_ttl": 7}],
]
# per-call TTLs of sessions opened by methods: default, 0 (expires as soon as the clock moves), the clock steps themselves
# (boundary now == expires_at), small, large, and negative (born expired)
TTLS: list[Any] = [None, None, 0, 0, 1, 1, 3, 5, 100, -1, -5]
B64 = "ABCDEFGHIJKLMNOPQRSTUVWXYZabcdefghijklmnopqrstuvwxyz0123456789-_"


def canon_ident(i: Any) -> str:
    return json.dumps(S.model_ident(i), sort_keys=True)


def ascii_id(s: str) -> bool:
    return all(ord(c) < 128 for c in s)


# ------------------------------------------------------------------------------------------ mutations


def apply_mut(wire: str, spec: list[Any], farm: S.Farm, wk: int, ident: Any, mints: list[dict[str, Any]]) -> str | None:
    kind = spec[0]
    pad = lambda s: s + "=" * (-len(s) % 4)  # noqa: E731
    if kind == "flipraw":
        raw = bytearray(base64.urlsafe_b64decode(pad(wire)))
        i = spec[1]
        if i // 8 >= len(raw):
            return None
        raw[i // 8] ^= 1 << (i % 8)
        return base64.urlsafe_b64encode(bytes(raw)).rstrip(b"=").decode()
    if kind == "flipwire":
        i, b = spec[1], spec[2]
        if i >= len(wire):
            return None
        return wire[:i] + chr(ord(wire[i]) ^ (1 << b)) + wire[i + 1:]
    if kind == "trunc":
        return wire[: spec[1]] if spec[1] < len(wire) else None
    if kind == "pad":
        return wire + "=" * spec[1]
    if kind == "std":
        v = wire.replace("-", "+").replace("_", "/")
        return v if v != wire else None
    if kind == "trail":
        unused = (len(wire) * 6) % 8
        if unused == 0:
            return None
        v = B64.index(wire[-1]) ^ (1 + spec[1] % ((1 << unused) - 1))
        return wire[:-1] + B64[v]
    if kind == "ins":
        p = spec[1] % (len(wire) + 1)
        return wire[:p] + spec[2] + wire[p:]
    if kind == "del":
        p = spec[1] % len(wire)
        return wire[:p] + wire[p + 1:]
    if kind == "dup":
        return wire + wire
    if kind == "ver":
        raw = bytearray(base64.urlsafe_b64decode(pad(wire)))
        raw[0] = spec[1]
        return base64.urlsafe_b64encode(bytes(raw)).rstrip(b"=").decode()
    if kind in ("attacker-frame", "calltoken-aad"):
        # a well-formed frame naming the real worker and the real session, sealed by someone who is not the server
        import vgi_rpc.crypto as vcrypto
        from vgi_rpc.http.server._state_token import _compute_call_aad

        m = next((m for m in mints if m["wire"] == wire), None)
        if m is None:
            return None
        w = farm.workers[m["wk"]]
        frame = (1000).to_bytes(8, "little") + bytes([len(w.server_id.encode())]) + w.server_id.encode() + bytes.fromhex(m["sid"]) \
            + int(m["expires"]).to_bytes(8, "little")
        if kind == "attacker-frame":
            sealed = vcrypto.seal_bytes(frame, ATTACKER_KEY, aad=S._compute_aad(S.auth_of(ident)), version=1)
        else:
            sealed = vcrypto.seal_bytes(frame, w.key, aad=_compute_call_aad(S.auth_of(ident)), version=1)
        farm.rig.nonce_ctr -= 1  # the forger's nonce is not one of the server's draws
        return base64.urlsafe_b64encode(sealed).rstrip(b"=").decode()
    if kind == "garbage":
        return spec[1]
    raise ValueError(spec)


def gen_mut(rng: Any, wire: str) -> list[Any]:
    n = len(wire)
    nraw = n * 6 // 8
    c = rng.random()
    if c < 0.25:
        return ["flipraw", rng.randrange(nraw * 8)]
    if c < 0.45:
        return ["flipwire", rng.randrange(n), rng.randrange(8)]
    if c < 0.55:
        return ["trunc", rng.choice([0, 1, 2, n // 2, n - 2, n - 1, rng.randrange(n)])]
    return rng.choice([["pad", 1], ["pad", 2], ["pad", 4], ["std"], ["trail", 0], ["trail", 1], ["trail", 5],
                       ["ins", rng.randrange(n + 1), rng.choice(["!", "\n", " ", ".", "=", "A", "\t"])], ["del", rng.randrange(n)], ["dup"],
                       ["ver", 5], ["ver", 0], ["ver", 2], ["attacker-frame"], ["calltoken-aad"],
                       ["garbage", rng.choice(["x", "AAAA", "!!!!", "A" * 120, "=", "AQ", "éé"])]])


# ------------------------------------------------------------------------------------------ history runner


class History:
    """Runs one op list on a fresh farm; K against the model after every op; O from its own bookkeeping."""

    def __init__(self, ctx: Any, farm_idx: int, hid: str = "") -> None:
        self.ctx = ctx
        self.hid = hid
        self.farm_idx = farm_idx
        self.ops: list[Any] = []
        self.mints: list[dict[str, Any]] = []
        self.delete_ref: dict[int, Any] = {}
        self.ok = True

    def case(self) -> dict[str, Any]:
        return {"kind": "history", "farm": self.farm_idx, "ops": self.ops}

    def live(self, m: dict[str, Any]) -> bool:
        return m["label"] not in self.farm.closed and not (m["expires"] < self.farm.rig.clock.now)

    def grant(self, wk: int, ident: Any, eff: str | None) -> dict[str, Any] | None:
        if not eff:
            return None
        for m in self.mints:
            if m["wire"] == eff and m["wk"] == wk and m["ident"] == canon_ident(ident) and self.live(m):
                return m
        return None

    def wire_of(self, spec: Any, wk: int, ident: Any) -> str | None:
        """spec: None | {"tok": i, "mut": [...]|None} | {"raw": str}"""
        if spec is None:
            return None
        if "raw" in spec:
            return spec["raw"]
        if spec["tok"] >= len(self.mints):
            return None
        wire = self.mints[spec["tok"]]["wire"]
        if spec.get("mut"):
            return apply_mut(wire, spec["mut"], self.farm, wk, ident, self.mints)
        return wire

    def model_step(self, op: dict[str, Any]) -> Any:
        if self.ctx.driver is None:
            return None
        r = S.fast_call(self.ctx.driver, "C25.step", {"net": self.net, "op": op})
        self.net = {"cfg": self.net["cfg"], "regs": r["regs"], "env": r["env"]}
        return r

    def compare_state(self, r: Any, what: str, op: Any) -> None:
        if r is None:
            return
        real = S.canon_model_regs(self.farm.model_regs())
        if S.canon_model_regs(r["regs"]) != real:
            self.ctx.mismatch(self.case(), {"regs": r["regs"]}, {"regs": real}, f"{what}: registries differ after {op}")
            self.ok = False
        elif r["env"] != self.farm.rig.env():
            self.ctx.mismatch(self.case(), r["env"], self.farm.rig.env(), f"{what}: clock / id / nonce counters differ after {op}")
            self.ok = False

    def run(self, ops: list[Any], rig: S.Rig) -> None:
        ctx = self.ctx
        self.farm = S.Farm(rig, FARMS[self.farm_idx], KEYS, IDENTS)
        farm = self.farm
        self.net = {"cfg": farm.model_cfg(), "regs": farm.model_regs(), "env": rig.env()}
        for op in ops:
            if not self.ok:
                break
            self.ops.append(op)
            k = op["op"]
            if k in ("call", "delete"):
                wk, ident = op["wk"], IDENTS[op["id"]]
                wire = self.wire_of(op.get("wire"), wk, ident)
                if op.get("wire") is not None and wire is None:
                    self.ops.pop()
                    continue
                eff = wire.strip() if wire is not None else None
                try:
                    (wire or "").encode("latin-1")
                except UnicodeEncodeError:
                    self.ops.pop()
                    continue
                g = self.grant(wk, ident, eff)
                ascii_worker = ascii_id(farm.workers[wk].server_id)
                tags = [f"op:{k}", f"farm:{self.farm_idx}", "wire:none" if not eff else ("wire:minted" if any(m["wire"] == eff for m in self.mints) else "wire:other"),
                        "grant:yes" if g else "grant:no"]
                if op.get("wire") and op["wire"].get("mut"):
                    tags.append("mut:" + op["wire"]["mut"][0])
            if k == "call":
                actions = op["script"]
                method = op.get("method", "run")
                msfx = "" if method == "run" else f":method={method}"
                tags.append("method:run" if method == "run" else "method:exempt-lookalike")
                obs = farm.post(wk, ident, op.get("accept"), wire, actions, op.get("swallow", False), client=op.get("client", 0), method=method)
                ctx.case({"farm": self.farm_idx, "i": len(self.ops), "op": op, "h": self.hid}, nontrivial=bool(eff), tags=tags + [f"out:{obs['outcome'] if isinstance(obs['outcome'], str) else 'failed'}"])
                # -------- O
                if isinstance(obs["outcome"], dict) and obs["outcome"]["failed"].startswith("other:"):
                    ctx.fail(self.case(), f"C25:unexpected-error:{obs['outcome']['failed']}", f"request ended in {obs['etype']}")
                    self.ok = False
                if eff:
                    served = obs["dispatched"] > 0
                    if served and g is None:
                        cls = "minted-wire" if any(m["wire"] == eff for m in self.mints) else "unminted-wire"
                        why = self.why_no_grant(wk, ident, eff)
                        ctx.fail(self.case(), f"C25:dispatch-without-grant:{cls}:{why}{msfx}",
                                 f"worker {wk} dispatched the method for identity {ident} presenting a value that is not a live token minted here for it ({why})")
                        self.ok = False
                    elif served and g is not None:
                        seen = [x[1] for x in obs["log"] if isinstance(x, list) and x[0] == "u"]
                        if actions and actions[0] == "u" and seen[:1] != [g["label"]]:
                            ctx.fail(self.case(), f"C25:wrong-session-bound{msfx}", f"ctx.session is {seen[:1]}, token designates state {g['label']}")
                            self.ok = False
                    elif not served:
                        if obs["outcome"] != "lost":
                            ctx.fail(self.case(), f"C25:rejected-not-session-lost:{obs['etype']}/{obs['kind']}",
                                     f"a refused presentation must be a session_lost error, got {obs['etype']} kind={obs['kind']}")
                            self.ok = False
                        elif g is not None and ascii_worker:
                            ctx.fail(self.case(), f"C25:legit-presentation-lost{msfx}", "the minting worker refused a live token under the opening identity")
                            self.ok = False
                else:
                    if obs["dispatched"] != 1:
                        ctx.fail(self.case(), "C25:no-token-not-dispatched", f"request without a session header was not dispatched: {obs['outcome']}")
                        self.ok = False
                # bookkeeping: a token minted?
                if obs["session"] and obs["dispatched"]:
                    opened = [x for x in obs["log"] if isinstance(x, list) and x[0] == "o"]
                    labels = [a[1] for a in actions if isinstance(a, list)]
                    if opened:
                        sid = opened[-1][1]
                        ent = farm.workers[wk].registry._entries.get(bytes.fromhex(sid))
                        # which open_session call succeeded last: the k-th `o` of the log is the k-th open action of the script
                        ok_idx = [i for i, x in enumerate(obs["log"]) if isinstance(x, list) and x[0] == "o"][-1]
                        act = actions[ok_idx]
                        label = act[1]
                        # the expiry instant from the property text: open time + the per-call TTL (the worker's default only for None)
                        exp = farm.rig.clock.now + (act[2] if act[2] is not None else farm.workers[wk].default_ttl)
                        if ent is not None and (ent.state.label != label or ent.expires_at != float(exp)):
                            ctx.fail(self.case(), f"C25:wrong-expiry:ttl={act[2]}",
                                     f"open_session(ttl={act[2]}) at t={farm.rig.clock.now} registered expires_at={ent.expires_at}, want {exp}")
                            # the history goes on: the consequences (dispatch after expiry, DELETE 204) are reported under their own keys
                        _ = labels
                        self.mints.append({"wire": obs["session"], "wk": wk, "ident": canon_ident(ident), "label": label, "sid": sid, "expires": exp})
                # -------- K
                mop = {"op": "call", "wk": wk, "rq": farm.model_req(ident, op.get("accept"), wire, op.get("client", 0), method),
                       "script": [S.model_action(a) for a in actions], "swallow": op.get("swallow", False)}
                r = self.model_step(mop)
                if r is not None:
                    mr = r["obs"]["resp"]
                    real = {"outcome": obs["outcome"], "log": obs["log"], "session": farm.sym(obs["session"]) if obs["session"] else None, "close": obs["close"],
                            "closed": obs["closed_states"]}
                    model = {"outcome": mr["outcome"], "log": S.canon_model_log(mr["log"]), "session": mr["session"], "close": mr["close"],
                             "closed": r["closed"]}
                    if real != model:
                        ctx.mismatch(self.case(), model, real, "POST: model vs implementation")
                        self.ok = False
                    self.compare_state(r, "POST", op)
            elif k == "delete":
                obs = farm.delete(wk, ident, wire)
                ctx.case({"farm": self.farm_idx, "i": len(self.ops), "op": op, "h": self.hid}, nontrivial=bool(eff), tags=tags + [f"status:{obs['status']}"])
                if (obs["status"] == 204) != (g is not None) and (ascii_worker or g is None):
                    ctx.fail(self.case(), f"C25:delete-status:{obs['status']}:{'granted' if g else 'not-granted'}",
                             f"DELETE answered {obs['status']} although the presentation is {'live and owned' if g else 'not a live owned token'}")
                    self.ok = False
                if obs["status"] != 204:
                    sig = (obs["status"], tuple(map(tuple, obs["headers"])), obs["body"])
                    ref = self.delete_ref.setdefault(wk, sig)
                    if sig != ref or obs["status"] != 200 or obs["close"]:
                        ctx.fail(self.case(), "C25:delete-not-uniform", f"non-204 DELETE answers differ: {sig} vs {ref}")
                        self.ok = False
                elif g is not None and g["label"] not in obs["closed_states"]:
                    ctx.fail(self.case(), "C25:delete-did-not-close", "204 without state.close()")
                    self.ok = False
                r = self.model_step({"op": "delete", "wk": wk, "rq": farm.model_req(ident, None, wire, 0)})
                if r is not None:
                    md = r["obs"]["deleted"]
                    if (md["status"], md["closeHeader"], r["closed"]) != (obs["status"], obs["close"], obs["closed_states"]):
                        ctx.mismatch(self.case(), {**md, "closed": r["closed"]}, {k2: obs[k2] for k2 in ("status", "close", "closed_states")}, "DELETE: model vs implementation")
                        self.ok = False
                    self.compare_state(r, "DELETE", op)
            else:
                if k == "tick":
                    farm.tick(op["dt"])
                    closed: list[int] = []
                elif k == "reap":
                    closed = farm.reap(op["wk"])
                elif k == "shutdown":
                    closed = farm.shutdown(op["wk"])
                elif k == "drain":
                    farm.drain(op["wk"], op["b"])
                    closed = []
                else:
                    raise ValueError(op)
                ctx.tag(f"op:{k}")
                r = self.model_step(op)
                if r is not None:
                    if sorted(r["closed"]) != sorted(closed):
                        ctx.mismatch(self.case(), r["closed"], closed, f"{k}: closed states differ")
                        self.ok = False
                    self.compare_state(r, k, op)

    def why_no_grant(self, wk: int, ident: Any, eff: str) -> str:
        ms = [m for m in self.mints if m["wire"] == eff]
        if not ms:
            return "not-a-minted-value"
        m = ms[0]
        if m["wk"] != wk:
            return "other-worker"
        if m["ident"] != canon_ident(ident):
            return "other-identity"
        if m["label"] in self.farm.closed:
            return "closed-or-evicted"
        return "expired"


def gen_history(rng: Any, farm_idx: int, length: int) -> list[Any]:
    """Op list; token references are indices into the mints made so far (resolved when the op runs)."""
    ops: list[Any] = []
    n_tok = 0
    label = 0
    nw = len(FARMS[farm_idx])
    for _ in range(length):
        c = rng.random()
        wk = rng.randrange(nw)
        idn = rng.randrange(len(IDENTS))
        if n_tok == 0 or c < 0.2:
            label += 1
            ops.append({"op": "call", "wk": wk, "id": idn, "accept": "true", "wire": None,
                        "script": [["o", label, rng.choice(TTLS)]], "client": rng.randrange(3)})
            n_tok += 1  # optimistic; an op that names a missing token is skipped
            # immediately: the exact value under every (worker, identity) pair
            if rng.random() < 0.5:
                mth = rng.choice(S.METHODS)
                for w2 in range(nw):
                    for i2 in range(len(IDENTS)):
                        ops.append({"op": "call", "wk": w2, "id": i2, "wire": {"tok": n_tok - 1, "mut": None}, "script": ["u"], "method": mth})
        elif c < 0.45:
            t = rng.randrange(n_tok)
            legit = rng.random() < 0.6
            script = rng.choice([["u"], ["u"], ["u", "c"], ["u", "n", "u"]])
            ops.append({"op": "call", "wk": wk, "id": idn, "wire": {"tok": t, "mut": None}, "script": script, "legit": legit,
                        "method": rng.choice(S.METHODS + ["run", "run"])})
        elif c < 0.65:
            t = rng.randrange(n_tok)
            ops.append({"op": "call", "wk": wk, "id": idn, "wire": {"tok": t, "mut": "GEN"}, "script": ["u"], "legit": True,
                        "method": rng.choice(S.METHODS + ["run", "run"])})
        elif c < 0.78:
            t = rng.randrange(n_tok)
            ops.append({"op": "delete", "wk": wk, "id": idn, "wire": rng.choice([{"tok": t, "mut": None}] * 4 + [{"tok": t, "mut": "GEN"}, None, {"raw": ""}, {"raw": "zz"}]),
                        "legit": rng.random() < 0.7})
        elif c < 0.88:
            ops.append({"op": "tick", "dt": rng.choice([1, 1, 1, 3, 5, 6, 11, 51, 400])})
        elif c < 0.93:
            ops.append({"op": "reap", "wk": wk})
        elif c < 0.96:
            ops.append({"op": "shutdown", "wk": wk})
        else:
            ops.append({"op": "drain", "wk": wk, "b": rng.random() < 0.5})
    return ops


class _LazyOps:
    """Iterates ops, fixing `legit` / `GEN` placeholders against the history's mint table just before each op runs."""

    def __init__(self, h: History, ops: list[Any], rng: Any) -> None:
        self.h, self.ops, self.rng = h, ops, rng

    def __iter__(self) -> Any:
        for op in self.ops:
            op = dict(op)
            w = op.get("wire")
            if isinstance(w, dict) and "tok" in w:
                if w["tok"] >= len(self.h.mints):
                    if not self.h.mints:
                        continue
                    w = {**w, "tok": w["tok"] % len(self.h.mints)}
                m = self.h.mints[w["tok"]]
                if op.pop("legit", False):
                    op["wk"] = m["wk"]
                    op["id"] = next(i for i, x in enumerate(IDENTS) if canon_ident(x) == m["ident"])
                if w.get("mut") == "GEN":
                    w = {**w, "mut": gen_mut(self.rng, m["wire"])}
                op["wire"] = w
            else:
                op.pop("legit", None)
            yield op


# ------------------------------------------------------------------------------------------ phases


def phase_frames(ctx: Any) -> None:
    """K + totality on the frame: generated plaintexts sealed with the real cipher, opened by the real parser."""
    import vgi_rpc.crypto as vcrypto
    import vgi_rpc.http.server._sticky as st
    from vgi_rpc.rpc import SessionLostError

    rng = ctx.rng
    key = KEYS[0]
    aad = S._compute_aad(None)
    pts: list[bytes] = [b"", b"\x00" * 8, b"\x00" * 9, b"\x00" * 28, b"\x00" * 29, b"\x00" * 30, b"\x00" * 8 + b"\xff" + b"\x00" * 20,
                        b"\x00" * 8 + b"\xff" + b"\x00" * (255 + 20), b"\x00" * 8 + b"\x02" + b"\xc3\xa9" + b"\x01" * 12 + b"\xff" * 8]
    n = ctx.budget(2500, 60000)
    for _ in range(n):
        c = rng.random()
        sl = rng.choice([0, 1, 2, 3, 12, 17, 254, 255]) if rng.random() < 0.5 else rng.randrange(256)
        sid = bytes(rng.randrange(256) if rng.random() < 0.3 else rng.randrange(0x20, 0x7F) for _ in range(sl))
        frame = rng.randrange(2**64).to_bytes(8, "little") + bytes([sl]) + sid + bytes(rng.randrange(256) for _ in range(12)) \
            + rng.choice([0, 1, 2**63, 2**64 - 1, rng.randrange(2**64)]).to_bytes(8, "little")
        if c < 0.45:
            pts.append(frame)
        elif c < 0.6:
            pts.append(frame[: rng.randrange(len(frame) + 1)])
        elif c < 0.7:
            pts.append(frame + bytes(rng.randrange(256) for _ in range(rng.choice([1, 2, 8, 20]))))
        elif c < 0.85:
            b = bytearray(frame)
            b[8] = rng.randrange(256)
            pts.append(bytes(b))
        else:
            pts.append(bytes(rng.randrange(256) for _ in range(rng.choice([0, 1, 8, 9, 10, 28, 29, 30, 31, 40, 100, 300]))))
    model = ctx.driver.batch([("C25.parseFrame", {"pt": b2j(p)}) for p in pts]) if ctx.driver is not None else [None] * len(pts)
    for p, m in zip(pts, model):
        wire = base64.urlsafe_b64encode(vcrypto.seal_bytes(p, key, aad=aad, version=1)).rstrip(b"=").decode()
        case = {"kind": "frame", "pt": p.hex()}
        try:
            sid_s, sess, exp = st._open_session_token(wire, key, aad)
            impl: Any = {"ok": {"serverId": sid_s.encode().hex(), "sid": sess.hex(), "expires": exp}}
        except SessionLostError:
            impl = "lost"
        except Exception as e:  # noqa: BLE001
            impl = "crash"
            ctx.fail(case, f"C25:open-token-crash:{type(e).__name__}", f"_open_session_token let {type(e).__name__} escape: {e}")
        ctx.case(case, nontrivial=True, tags=("k:frame", "frame:" + (impl if isinstance(impl, str) else "ok")))
        if m is not None and m != impl:
            ctx.mismatch(case, m, impl, "parseFrame: model vs implementation")
    # packing
    for _ in range(ctx.budget(200, 3000)):
        server_id = rng.choice(["", "w0", "abcdef012345", "a" * 255, "wé", "中" * 85, "x" * rng.randrange(256)])
        sid = bytes(rng.randrange(256) for _ in range(12))
        created = rng.choice([0, 1, 1000, 2**32, 2**64 - 1, rng.randrange(2**64)])
        expires = rng.choice([0, 1, 2**63, 2**64 - 1, rng.randrange(2**64)])
        case = {"kind": "pack", "server_id": server_id, "sid": sid.hex(), "created": created, "expires": expires}
        wire = st._seal_session_token(server_id, sid, expires, key, aad, now=created)
        raw = base64.urlsafe_b64decode(wire + "=" * (-len(wire) % 4))
        impl_pt = vcrypto.open_bytes(raw, key, aad=aad, version=1)
        ctx.case(case, nontrivial=True, tags=("k:pack",))
        if ctx.driver is not None:
            m = ctx.driver.call("C25.packFrame", {"created": created, "serverId": b2j(server_id.encode()), "sid": b2j(sid), "expires": expires})
            if m != impl_pt.hex():
                ctx.mismatch(case, m, impl_pt.hex(), "packFrame: model vs implementation")
        # O: round trip through the real pair
        got = st._open_session_token(wire, key, aad)
        if got != (server_id.encode().decode("ascii", "replace"), sid, expires):
            ctx.fail(case, "C25:frame-roundtrip", f"open(seal(x)) = {got}")


def phase_identity(ctx: Any) -> None:
    import vgi_rpc.http.server._sticky as st
    from vgi_rpc.rpc._common import _current_transport  # noqa: F401

    pool: list[Any] = list(IDENTS) + [("d", "", True), ("", "", True), ("", "d", True), ("d\x00", "x", True), ("d", "\x00x", True),
                                      ("vgi", "a\x00b", True), (None, "p", True), ("d", None, True), ("D", "alice", True)]
    aads: dict[str, Any] = {}
    for i in pool:
        a = S._compute_aad(S.auth_of(i))
        case = {"kind": "identity", "ident": list(i) if i else None}
        ctx.case(case, nontrivial=True, tags=("k:aad",))
        mi = S.model_ident(i)
        if ctx.driver is not None:
            m = ctx.driver.call("C25.aad", {"ident": mi})
            # principal key: the str the middleware derives, through the real static method
            from vgi_rpc.rpc._common import _TransportContext  # type: ignore[attr-defined]

            auth = S.auth_of(i)
            tok = _current_transport.set(_TransportContext(auth=auth, transport_metadata={})) if auth is not None else None
            try:
                pk = st._StickyMiddleware._principal_key(None)  # type: ignore[arg-type]
            finally:
                if tok is not None:
                    _current_transport.reset(tok)
            if m["aad"] != a.hex() or m["pkey"] != pk.encode().hex():
                ctx.mismatch(case, m, {"aad": a.hex(), "pkey": pk.encode().hex()}, "aad / principal key: model vs implementation")
        # O: distinct identities (NUL-free domain) never share an AAD
        key = json.dumps(mi)
        nul_free = mi is None or "00" not in [mi["d"][j:j + 2] for j in range(0, len(mi["d"]), 2)]
        if nul_free:
            prev = aads.setdefault(a.hex(), key)
            if prev != key:
                ctx.fail(case, "C25:aad-collision", f"identities {prev} and {key} share one AAD")


def phase_sweep(ctx: Any) -> None:
    """Every single-bit flip of the envelope and of the wire text, every truncation, of minted tokens — at the opening function."""
    import vgi_rpc.http.server._sticky as st
    from vgi_rpc.rpc import SessionLostError

    rng = ctx.rng
    n_tok = ctx.budget(30, 300)
    total = 0
    accepted_identical = 0
    for t in range(n_tok):
        with S.Rig() as rig:
            fi = t % 2
            farm = S.Farm(rig, FARMS[fi], KEYS, IDENTS)
            wk = rng.randrange(3)
            idn = rng.randrange(len(IDENTS))
            ident = IDENTS[idn]
            rig.sid_ctr = rng.choice([0, 1, 255, 256, 2**40, 2**95])
            rig.clock.now = rng.choice([1000, 1, 2**31, 2**40])
            obs = farm.post(wk, ident, "true", None, [["o", 1, rng.choice([None, 0, 7])]], False)
            wire = obs["session"]
            if not wire:
                ctx.fail({"kind": "sweep", "farm": fi, "wk": wk, "id": idn}, "C25:open-failed", f"open did not mint: {obs}")
                continue
            w = farm.workers[wk]
            aad = S._compute_aad(S.auth_of(ident))
            sid_s, sess, _e = st._open_session_token(wire, w.key, aad)
            accepted_identical += 1
            nraw = len(base64.urlsafe_b64decode(wire + "=" * (-len(wire) % 4)))
            specs: list[list[Any]] = [["flipraw", i] for i in range(nraw * 8)]
            specs += [["flipwire", i, b] for i in range(len(wire)) for b in range(8)]
            specs += [["trunc", i] for i in range(len(wire))]
            specs += [["pad", 1], ["pad", 2], ["pad", 3], ["pad", 4], ["std"], ["dup"], ["ver", 0], ["ver", 2], ["ver", 5], ["ver", 255]]
            specs += [["trail", d] for d in range(15)] + [["del", i] for i in range(len(wire))]
            specs += [["ins", i, ch] for i in (0, 1, len(wire) // 2, len(wire) - 1, len(wire)) for ch in "!.\n =A-_"]
            for spec in specs:
                mut = apply_mut(wire, spec, farm, wk, ident, [])
                if mut is None:
                    continue
                eff = mut.strip()
                if eff == wire:
                    continue  # same header value after OWS stripping
                total += 1
                case = {"kind": "sweep", "farm": fi, "wk": wk, "id": idn, "sid_ctr": sess.hex(), "now": rig.clock.now, "mut": spec}
                try:
                    st._open_session_token(eff, w.key, aad)
                    ctx.fail(case, f"C25:mutated-token-accepted:{spec[0]}", f"a value that differs from the minted token opens: {spec}")
                except SessionLostError:
                    pass
                except Exception as e:  # noqa: BLE001
                    ctx.fail(case, f"C25:open-token-crash:{type(e).__name__}", f"{type(e).__name__} escaped for {spec}")
            ctx.case({"kind": "sweep", "farm": fi, "wk": wk, "id": idn, "t": t, "w": wire}, nontrivial=True, tags=("o:sweep", f"trailing-bits:{(len(wire) * 6) % 8}"))
    ctx.note("sweep_mutations", total)
    ctx.note("sweep_tokens", accepted_identical)


def phase_histories(ctx: Any) -> None:
    rng = ctx.rng
    n = ctx.budget(24, 400)
    length = 28 if ctx.tier == "quick" and not ctx.deep else 45
    for hidx in range(n):
        if len(ctx.failures) >= 40 or len(ctx.mismatches) >= 40:
            ctx.note("stopped_early", "40 failing cases collected")
            return
        fi = hidx % len(FARMS)
        h = History(ctx, fi, f"g{hidx}")
        ops = gen_history(rng, fi, length)
        with S.Rig() as rig:
            h.run(_LazyOps(h, ops, rng), rig)  # type: ignore[arg-type]


CORPUS: list[dict[str, Any]] = [
    # TTL edge values: 0 (live only until the clock moves), equal to the clock step (boundary), negative (born expired), None
    *[{"farm": f, "ops": [
        {"op": "call", "wk": 0, "id": 1, "accept": "true", "wire": None, "script": [["o", 1, 0]]},
        {"op": "call", "wk": 0, "id": 1, "accept": "true", "wire": None, "script": [["o", 2, 1]]},
        {"op": "call", "wk": 0, "id": 1, "accept": "true", "wire": None, "script": [["o", 3, -1]]},
        {"op": "call", "wk": 0, "id": 1, "accept": "true", "wire": None, "script": [["o", 4, None]]},
        *[{"op": "call", "wk": 0, "id": 1, "wire": {"tok": t, "mut": None}, "script": ["u"]} for t in range(4)],
        {"op": "tick", "dt": 1},
        *[{"op": "call", "wk": 0, "id": 1, "wire": {"tok": t, "mut": None}, "script": ["u"]} for t in range(4)],
        {"op": "delete", "wk": 0, "id": 1, "wire": {"tok": 0, "mut": None}},
        {"op": "tick", "dt": 1},
        *[{"op": "call", "wk": 0, "id": 1, "wire": {"tok": t, "mut": None}, "script": ["u"]} for t in range(4)],
        {"op": "delete", "wk": 0, "id": 1, "wire": {"tok": 1, "mut": None}},
        {"op": "delete", "wk": 0, "id": 1, "wire": {"tok": 3, "mut": None}},
    ]} for f in (0, 1)],
    # methods whose names merely start like the exempt /health endpoint: same rules as any method (with and without URL prefix)
    *[{"farm": f, "ops": [
        {"op": "call", "wk": 0, "id": 1, "accept": "true", "wire": None, "script": [["o", 1, None]], "method": "health_report"},
        *[{"op": "call", "wk": w, "id": i, "wire": {"tok": 0, "mut": None}, "script": ["u"], "method": m}
          for m in ("healthcheck", "health_report", "healthz", "run") for w in (0, 1) for i in (1, 2, 0)],
        {"op": "call", "wk": 0, "id": 1, "wire": {"tok": 0, "mut": ["trunc", 40]}, "script": ["u"], "method": "healthcheck"},
        {"op": "call", "wk": 0, "id": 1, "wire": {"tok": 0, "mut": None}, "script": ["u", "c"], "method": "healthz"},
        {"op": "call", "wk": 0, "id": 1, "wire": {"tok": 0, "mut": None}, "script": ["u"], "method": "healthcheck"},
    ]} for f in (0, 1)],
    # open, present everywhere, close through the method, present again, DELETE twice
    {"farm": 0, "ops": [
        {"op": "call", "wk": 0, "id": 1, "accept": "true", "wire": None, "script": [["o", 1, None]]},
        *[{"op": "call", "wk": w, "id": i, "wire": {"tok": 0, "mut": None}, "script": ["u"]} for w in range(3) for i in range(len(IDENTS))],
        {"op": "delete", "wk": 0, "id": 2, "wire": {"tok": 0, "mut": None}},
        {"op": "delete", "wk": 1, "id": 1, "wire": {"tok": 0, "mut": None}},
        {"op": "call", "wk": 0, "id": 1, "wire": {"tok": 0, "mut": None}, "script": ["u", "c"]},
        {"op": "call", "wk": 0, "id": 1, "wire": {"tok": 0, "mut": None}, "script": ["u"]},
        {"op": "delete", "wk": 0, "id": 1, "wire": {"tok": 0, "mut": None}},
        {"op": "delete", "wk": 0, "id": 1, "wire": None},
    ]},
    # expiry: inline eviction by a presentation, by the reaper, and TTL 0
    {"farm": 0, "ops": [
        {"op": "call", "wk": 2, "id": 0, "accept": "true", "wire": None, "script": [["o", 1, None]]},
        {"op": "call", "wk": 2, "id": 0, "accept": "true", "wire": None, "script": [["o", 2, 0]]},
        {"op": "tick", "dt": 10},
        {"op": "call", "wk": 2, "id": 0, "wire": {"tok": 0, "mut": None}, "script": ["u"]},
        {"op": "tick", "dt": 1},
        {"op": "call", "wk": 2, "id": 0, "wire": {"tok": 0, "mut": None}, "script": ["u"]},
        {"op": "reap", "wk": 2},
        {"op": "call", "wk": 2, "id": 0, "wire": {"tok": 1, "mut": None}, "script": ["u"]},
        {"op": "delete", "wk": 2, "id": 0, "wire": {"tok": 1, "mut": None}},
    ]},
    # DELETE by the owner, shutdown, re-encodings
    {"farm": 1, "ops": [
        {"op": "call", "wk": 0, "id": 4, "accept": "true", "wire": None, "script": [["o", 1, 100]]},
        {"op": "call", "wk": 1, "id": 4, "accept": "true", "wire": None, "script": [["o", 2, 100]]},
        *[{"op": "call", "wk": 0, "id": 4, "wire": {"tok": 0, "mut": m}, "script": ["u"]}
          for m in (["pad", 1], ["pad", 4], ["std"], ["trail", 0], ["trail", 3], ["ins", 5, "!"], ["ins", 9, "\n"], ["ver", 5], ["attacker-frame"], ["calltoken-aad"])],
        {"op": "call", "wk": 0, "id": 0, "wire": {"tok": 0, "mut": None}, "script": ["u"]},
        {"op": "call", "wk": 1, "id": 4, "wire": {"tok": 0, "mut": None}, "script": ["u"]},
        {"op": "delete", "wk": 0, "id": 4, "wire": {"tok": 0, "mut": None}},
        {"op": "call", "wk": 0, "id": 4, "wire": {"tok": 0, "mut": None}, "script": ["u"]},
        {"op": "shutdown", "wk": 1},
        {"op": "call", "wk": 1, "id": 4, "wire": {"tok": 1, "mut": None}, "script": ["u"]},
    ]},
    # server ids: 255 bytes, non-ASCII, and one that equals the replacement-decoded form of the non-ASCII one
    {"farm": 2, "ops": [
        {"op": "call", "wk": 0, "id": 1, "accept": "true", "wire": None, "script": [["o", 1, None]]},
        {"op": "call", "wk": 1, "id": 1, "accept": "true", "wire": None, "script": [["o", 2, None]]},
        {"op": "call", "wk": 2, "id": 1, "accept": "true", "wire": None, "script": [["o", 3, None]]},
        *[{"op": "call", "wk": w, "id": 1, "wire": {"tok": t, "mut": None}, "script": ["u"]} for w in range(3) for t in range(3)],
        *[{"op": "delete", "wk": w, "id": 1, "wire": {"tok": t, "mut": None}} for w in range(3) for t in range(3)],
    ]},
]


def run(ctx: Any) -> None:
    phase_identity(ctx)
    phase_frames(ctx)
    for ci, c in enumerate(CORPUS):
        h = History(ctx, c["farm"], f"c{ci}")
        with S.Rig() as rig:
            h.run(c["ops"], rig)
    phase_sweep(ctx)
    phase_histories(ctx)


def replay(ctx: Any, case: dict[str, Any]) -> None:
    import vgi_rpc.http.server._sticky as st
    from vgi_rpc.rpc import SessionLostError

    if not case:  # a `no-longer-checks` file carries no single case: re-run the hand-written corpus
        for ci, c in enumerate(CORPUS):
            h = History(ctx, c["farm"], f"c{ci}")
            with S.Rig() as rig:
                h.run(c["ops"], rig)
        return
    if case.get("kind") == "history":
        h = History(ctx, case["farm"])
        with S.Rig() as rig:
            h.run(case["ops"], rig)
    elif case.get("kind") == "sweep":
        with S.Rig() as rig:
            farm = S.Farm(rig, FARMS[case["farm"]], KEYS, IDENTS)
            ident = IDENTS[case["id"]]
            rig.sid_ctr = int.from_bytes(bytes.fromhex(case["sid_ctr"]), "little")
            rig.clock.now = case["now"]
            obs = farm.post(case["wk"], ident, "true", None, [["o", 1, None]], False)
            wire = obs["session"]
            mut = apply_mut(wire, case["mut"], farm, case["wk"], ident, [])
            ctx.case(case)
            try:
                st._open_session_token((mut or "").strip(), farm.workers[case["wk"]].key, S._compute_aad(S.auth_of(ident)))
                ctx.fail(case, f"C25:mutated-token-accepted:{case['mut'][0]}", "a value that differs from the minted token opens")
            except SessionLostError:
                pass
            except Exception as e:  # noqa: BLE001
                ctx.fail(case, f"C25:open-token-crash:{type(e).__name__}", str(e))
    elif case.get("kind") in ("frame", "pack", "identity"):
        phase_frames(ctx) if case["kind"] != "identity" else phase_identity(ctx)
