"""C37 — OAuth browser flow redirects only to safe origins.

K (correspondence, model vs implementation):
  K1  `urllib.parse.urlsplit` (+ `.hostname`, `.port`) vs `Url.pySplit` on a URL grammar
  K2  `_validate_return_to` / `_validate_original_url` / `_has_unsafe_url_chars` vs the model (several allow-lists / prefixes)
  K3  `_pack_oauth_cookie` (the cookie string, byte for byte) and `_unpack_oauth_cookie` (fields or error class) on
      minted, mutated, re-signed and aged cookies; `urllib.parse.quote`; the whatwg corpus (corpus/C37/whatwg.json)
  K4  the real Falcon flow (callback, process_request, process_response, logout) vs the model's decisions and `Location`s
O (direct oracle on the implementation): every 302 `Location` the real flow produces is parsed by the WHATWG model
  (driver) against the URL of the request that produced it and must be
      * for the external frontend (`_vgi_return_to`): a URL with an allow-listed or http-loopback origin,
      * for the original page / logout: same-origin with a path under the prefix,
      * for the hop to the identity provider: the configured authorization endpoint,
  and the callback must complete (302) only with an untampered, unexpired cookie whose state matches.
"""

import base64
import hashlib
import hmac as _hmac
import io
import json
import struct
import types
import urllib.parse as up
from pathlib import Path
from typing import Any, Protocol

from harness.common.lean import b2j, j2s, s2j

PROPERTY = "C37"
LEAN_MODULES = ["VgiVerif.Proofs.C37"]
OBLIGATIONS = [
    "VgiVerif.C37.C37_shapes",
    "VgiVerif.C37.C37_mirror",
    "VgiVerif.C37.C37_allow_config",
    "VgiVerif.C37.C37_agree",
    "VgiVerif.C37.C37_return_to",
    "VgiVerif.C37.C37_return_to_total",
    "VgiVerif.C37.C37_original",
    "VgiVerif.C37.C37_cookie",
    "VgiVerif.C37.C37_cookie_authentic",
    "VgiVerif.C37.C37_cookie_minted",
    "VgiVerif.C37.C37_callback",
    "VgiVerif.C37.C37_flow",
]
TRUSTED = [
    "the WHATWG URL model (lean/VgiVerif/Prelude/UrlWhatwg.lean) is a hand transcription of the standard: no browser in "
    "the sandbox, cross-checked only against the committed corpus corpus/C37/whatwg.json (244 examples); IDNA / xn-- "
    "labels / file: / non-special schemes are reported as `unsupported`, never as safe",
    "CPython urllib.parse (urlsplit, hostname, port, quote), base64, struct, hmac/hashlib, str.encode/decode as mirrored by "
    "Prelude/UrlPy, PyBase64, Sha256 (validated differentially on every run); ipaddress / unicodedata (NFKC) are "
    "environment predicates of the model (theorems hold for every environment; the harness evaluates the real ones)",
    "HMAC-SHA256 is unforgeable (symbolic: a hypothesis of C37_cookie_minted / C37_flow, not an axiom)",
    "Falcon: req.path percent-decoding, get_param, cookies, middleware order; falcon.testing; OIDC discovery and the "
    "token exchange are stubbed through module attributes",
]
RULE = (
    "URL grammar = scheme x slashes x userinfo x host (allow-listed / loopback / foreign / IPv4 forms / IPv6 / IDN / "
    "percent-escapes) x port x path x query x fragment, plus 0-2 point mutations with backslash, C0 controls, whitespace, "
    "@ : / ? # [ ] % and non-ASCII; used as _vgi_return_to values and (percent-encoded) as request paths; cookies: minted, "
    "bit-flipped, truncated, re-encoded, re-signed with another key, aged; a case is distinct by its canonical JSON and "
    "non-trivial when the implementation was actually called on it"
)
PARTIAL = [
    "what a real browser does with a Location value is represented by the WHATWG model only",
    "the display-identity cookie and the token-proxy resource are outside the property",
]
MANIFEST = {
    "level": "proof",
    "text": "Lean 4 theorems for all strings: what the (repaired) validators accept is resolved by the WHATWG model to an "
            "allow-listed or loopback origin / to a same-origin path under the prefix; agreement lemma pySplit vs whatwg; "
            "cookie round trip <-> age bounds, authenticity, callback completion; model tied to the code by extraction "
            "(shapes + constants), differential correspondence and a direct oracle on every 302 of the real Falcon flow",
    "note": "the WHATWG model is a transcription checked against a committed corpus only (no browser); HMAC symbolic; "
            "ipaddress/NFKC as environment predicates",
    "technique": "Lean 4 proof (kernel-checked) + model/implementation correspondence + direct oracle",
}

CORPUS = Path(__file__).resolve().parents[1] / "corpus" / "C37"

# ------------------------------------------------------------------------------------------ URL grammar

DEFAULT_ALLOW = ("https://cupola.query-farm.services",)
ALLOWLISTS: list[tuple[str, ...]] = [
    DEFAULT_ALLOW,
    ("https://app.example.com:8443", "http://192.168.1.5:3000", "https://kelvin.example", "https://cupola.query-farm.services"),
    (),
    ("https://None", "https://va.example.com", "http://0x7f.1", "https://ex%41mple.com", "https://cupola.query-farm.services:443"),
]
PREFIXES = ["", "/vgi", "/a/b", "/"]

SCHEMES = ["https", "https", "https", "http", "http", "HTTPS", "hTtP", "ftp", "ws", "wss", "file", "javascript", "data", "",
           "h+t.p-1", "1http", "ht tp", "https\t", "\thttps", " https", "httpſ", "httK"]
SEPS = ["://", "://", "://", "://", ":/", ":", ":///", ":\\\\", ":/\\", ":\\/", "//", "", "://\\", ":////"]
USERINFO = ["", "", "", "", "user@", "user:pw@", "evil.com\\@", "a@b@", "@", ":@", "%40@", "evil.com@", "evil.com%40", "evil.com:443@",
            "evil.com/@", "evil.com?@", "evil.com#@", "evil.com\\\\@", "evil.com\t@"]
FOREIGN_HOSTS = ["evil.com", "localhost", "LOCALHOST", "127.0.0.1", "127.1", "0x7f.1", "0177.0.0.1", "2130706433", "127.0.0.1.", "[::1]",
                 "[::ffff:127.0.0.1]", "[0:0:0:0:0:0:0:1]", "[v1.x]", "[va.example.com]", "evil.com[::1]", "[::1]evil.com", "[localhost]",
                 "", "xn--nxasmq6b.com", "EXAMPLE.com", "ex%41mple.com", "a b", "a\tb", "exa\nmple.com", "é.com", "Kelvin.example",
                 "①.com", "℀.com", "ca／.com", "host.", ".host", "a..b", "localhost%00", "localhos%74", "192.168.1.5",
                 "[::1", "::1]", "[[::1]]", "None", "va.example.com", "%6cocalhost", "localıhost", "İ.com", "localhost\\"]
PORTS = ["", "", "", "", ":", ":80", ":443", ":8443", ":3000", ":0", ":00443", ":080", ":65535", ":65536", ":99999", ":abc", ":8a", ":-1",
         ": 80", ":٣", ":80:90", ":²", ":443\t", ":1e3"]
PATHS = ["", "", "/", "/a/b", "/../x", "/%2e%2e/", "//x", "/\\x", "\\", "\\\\x", "/a b", "/é", "/a;b", "/%41", "/.", "/..", "/a/./b",
         "/@x", "/a:b", "/[x]"]
QUERIES = ["", "", "", "?", "?a=b", "?@x", "?#", "?a=https://x", "?a b", "?\\"]
FRAGS = ["", "", "", "#", "#f", "#@", "#a#b", "#/x", "#\\@evil.com", "# "]
MUT_CHARS = ["\\", "\t", "\n", "\r", "\x00", "\x1f", " ", "@", ":", "/", "?", "#", "[", "]", "%", ".", "é", "\x7f", "\x0b", "\x0c",
             "。", "＠", "K", "İ", "ſ", "&", ";", " ", "﻿", "​"]


def mutate(rng: Any, s: str, n: int) -> str:
    for _ in range(n):
        op = rng.choice(["ins", "ins", "rep", "del", "dup"])
        pos = rng.randrange(len(s) + 1)
        if op == "ins":
            s = s[:pos] + rng.choice(MUT_CHARS) + s[pos:]
        elif s:
            pos = min(pos, len(s) - 1)
            if op == "rep":
                s = s[:pos] + rng.choice(MUT_CHARS) + s[pos + 1:]
            elif op == "del":
                s = s[:pos] + s[pos + 1:]
            else:
                s = s[:pos] + s[pos] + s[pos:]
    return s


def recase(rng: Any, s: str) -> str:
    return "".join(c.upper() if rng.random() < 0.3 else c for c in s)


def gen_host(rng: Any, allow: tuple[str, ...]) -> str:
    r = rng.random()
    if r < 0.45 and allow:
        o = rng.choice(allow)
        h = o.split("://", 1)[1] if "://" in o else o
        h = h.rsplit(":", 1)[0] if rng.random() < 0.7 and ":" in h else h
        k = rng.random()
        if k < 0.15:
            h = recase(rng, h)
        elif k < 0.25:
            h = h + rng.choice([".evil.com", ".", "%2eevil.com", "\\.evil.com", "#.evil.com", "/.evil.com", "@evil.com", ":443"])
        elif k < 0.3:
            h = rng.choice(["evil.com.", "evil-", "x"]) + h
        return h
    if r < 0.6:
        return rng.choice(["localhost", "127.0.0.1", "LocalHost"])
    return rng.choice(FOREIGN_HOSTS)


def gen_url(rng: Any, allow: tuple[str, ...]) -> str:
    """A string near the URL grammar (mostly well-formed; 35% carry 1-2 point mutations)."""
    r = rng.random()
    if r < 0.03:
        return rng.choice(["", " ", "\t", "//", "///", "http://", "https://", "://", ":", "@", "#", "?", "\\\\", "http:", "https:/"])
    port = rng.choice(PORTS)
    if r < 0.5 and allow:
        # mostly valid: an allow-listed origin as written, or loopback
        o = rng.choice(list(allow) + ["http://localhost", "http://127.0.0.1", "http://localhost:5173", "https://localhost"])
        u = o + (rng.choice(["", "", ":443", ":80", ":8443", ":0443"]) if o.count(":") == 1 else "")
        u += rng.choice(PATHS) + rng.choice(QUERIES) + rng.choice(FRAGS)
        if rng.random() < 0.15:
            u = recase(rng, u)
    else:
        u = (rng.choice(SCHEMES) + rng.choice(SEPS) + rng.choice(USERINFO) + gen_host(rng, allow) + port
             + rng.choice(PATHS) + rng.choice(QUERIES) + rng.choice(FRAGS))
    if rng.random() < 0.35:
        u = mutate(rng, u, rng.choice([1, 1, 2]))
    if rng.random() < 0.02:
        u = u + "/" + "a" * rng.choice([2000, 2040, 2048, 2100])
    return u


PATH_SEGS = ["a%2523", "%2523", "a%253F", "%253f", "%252F", "a%252Fb", "%255C", "%2525", "%252e", "..%2523", "a%23", "a", "b", "describe", "..", ".", "%2e%2e", "%2E.", ".%2e", "%2e", "%252e%252e", "%5Cevil.com", "\\evil.com", "", "evil.com",
             " ", "%09", "%0a", "é", ";x", "%2F", "%2Fevil.com", "%3F", "%23", "a%20b", "%00", "a..b", "...", "@evil.com", "x:y", "%7F", "%E2%80%AE"]


def gen_req_path(rng: Any, prefix: str) -> str:
    """A request path (percent-encoded as sent on the wire; always starts with '/')."""
    r = rng.random()
    head = prefix if r < 0.7 else rng.choice(["", "/other", prefix + "x", prefix.upper(), "/", "//", "/\\", "/%5C", "/%2F", "///"])
    n = rng.choice([0, 1, 1, 2, 2, 3])
    p = head + "".join("/" + rng.choice(PATH_SEGS) for _ in range(n))
    if rng.random() < 0.1:
        p += "/"
    if not p.startswith("/"):
        p = "/" + p
    # the wire form: keep %xx as written, encode everything else that is not an unreserved path character
    return "".join(ch if ch in "/%" or ch.isalnum() and ch.isascii() or ch in "-._~;:@" else up.quote(ch, safe="") for ch in p)


# percent-encoded delimiters / dots / slashes (single and double encoding) that a validator may decode but a browser does not
ENC_DELIMS = ["%23", "%3F", "%3f", "%2F", "%2f", "%5C", "%5c", "%2E", "%2e", "%25", "%2523", "%253F", "%252E", "%252e%252e", "%252F", "%3B", "%40"]
DOT_SEGS = ["..", ".", "%2e%2e", "%2E.", ".%2e", "%2e", "%2E%2E", "..%2F", "%2e%2e%2f", "..;", "%252e%252e", "..%23", "%23..", "..%3F"]


def gen_dot_path(rng: Any, prefix: str) -> str:
    """An original URL (as the validator sees it) with encoded delimiters before / inside / after dot segments."""
    def plain() -> str:
        return rng.choice(["a", "b", "describe", "x.y", "a..b", "other-app", "admin", ""])

    def enc_seg() -> str:
        e = rng.choice(ENC_DELIMS)
        return rng.choice([e, plain() + e, e + plain(), plain() + e + plain(), e + rng.choice(ENC_DELIMS)])

    segs: list[str] = []
    for _ in range(rng.choice([0, 1, 1, 2])):
        segs.append(enc_seg() if rng.random() < 0.6 else plain())
    for _ in range(rng.choice([1, 1, 2, 3])):
        d = rng.choice(DOT_SEGS)
        if rng.random() < 0.25:
            d = rng.choice([rng.choice(ENC_DELIMS) + d, d + rng.choice(ENC_DELIMS)])  # delimiter inside the dot segment
        segs.append(d)
        if rng.random() < 0.3:
            segs.append(enc_seg())
    for _ in range(rng.choice([0, 1, 2])):
        segs.append(plain() if rng.random() < 0.7 else enc_seg())
    head = prefix if rng.random() < 0.85 else rng.choice(["", "/other", prefix + "x"])
    u = head + "".join("/" + s for s in segs)
    u += rng.choice(["", "", "", "/", "?a=b", "?x=../y", "#f", "?a=%23/../..", "%23", "%3F/.."])
    return u if u.startswith("/") else "/" + u


def gen_query(rng: Any) -> str:
    return rng.choice(["", "", "", "a=b", "x=1&y=2", "a=%2F%2Fevil.com", "next=//evil.com", "a=b#c", "q=%5C", "a=..%2F", "%00", "a=\\", "a=b%20c"])


# ------------------------------------------------------------------------------------------ reporting

PER_KEY = 4


def fail(ctx: Any, case: Any, key: str, what: str) -> None:
    """`ctx.fail`, at most PER_KEY times per key (the core keeps 200 failures in total: one class must not crowd out the others)."""
    seen = ctx.notes.setdefault("failures_by_key", {})
    seen[key] = seen.get(key, 0) + 1
    if seen[key] <= PER_KEY:
        ctx.fail(case, key, what)


# ------------------------------------------------------------------------------------------ driver access


def dcall(ctx: Any, fn: str, a: Any) -> Any:
    """One request/response on the driver pipe without the writer thread of `LeanDriver.batch` (flow steps make many small calls)."""
    from harness.common.lean import DriverError

    d = ctx.driver
    d.n += 1
    d.p.stdin.write((json.dumps({"id": d.n, "m": fn, "a": a}, ensure_ascii=True) + "\n").encode())
    d.p.stdin.flush()
    line = d.p.stdout.readline()
    if not line:
        raise DriverError(f"driver died on {fn}")
    r = json.loads(line)
    d.calls += 1
    if "e" in r:
        raise DriverError(f"{fn}: {r['e']} (args {json.dumps(a)[:300]})")
    return r["r"]


# ------------------------------------------------------------------------------------------ environment of urlsplit


def real_env(q: dict[str, Any]) -> tuple[bool, bool]:
    """Evaluate the two functions the model treats as environment, on the model's own query."""
    b = n = True
    if q["bracket"] is not None:
        try:
            up._check_bracketed_host(j2s(q["bracket"]))  # type: ignore[attr-defined]
        except ValueError:
            b = False
    if q["nfkc"] is not None:
        try:
            up._checknetloc(j2s(q["nfkc"]))  # type: ignore[attr-defined]
        except ValueError:
            n = False
    return b, n


def envs_for(ctx: Any, urls: list[str]) -> list[tuple[bool, bool]]:
    qs = ctx.driver.batch([("C37.envq", {"u": s2j(u)}) for u in urls])
    return [real_env(q) for q in qs]


def no_surrogates(s: str) -> bool:
    return not any(0xD800 <= ord(ch) <= 0xDFFF for ch in s)


def deascii(s: str | None) -> str | None:
    """Canonical form for comparing host names: non-ASCII characters (whose case mapping the model does not mirror) → '?'."""
    return None if s is None else "".join(c if ord(c) < 128 else "?" for c in s)


# ------------------------------------------------------------------------------------------ K1: urlsplit


def impl_split(u: str) -> Any:
    try:
        r = up.urlsplit(u)
    except ValueError:
        return None
    try:
        port: Any = r.port
    except ValueError:
        port = "ValueError"
    return {"scheme": r.scheme, "netloc": r.netloc, "path": r.path, "query": r.query, "fragment": r.fragment,
            "hostname": deascii(r.hostname), "port": port}


def model_split(r: Any) -> Any:
    if r is None:
        return None
    return {"scheme": j2s(r["scheme"]), "netloc": j2s(r["netloc"]), "path": j2s(r["path"]), "query": j2s(r["query"]),
            "fragment": j2s(r["fragment"]), "hostname": deascii(j2s(r["hostname"]) if r["hostname"] is not None else None),
            "port": r["port"]}


def k_split(ctx: Any, urls: list[str]) -> None:
    envs = envs_for(ctx, urls)
    res = ctx.driver.batch([("C37.split", {"u": s2j(u), "bracketOk": e[0], "nfkcOk": e[1]}) for u, e in zip(urls, envs)])
    for u, r in zip(urls, res):
        impl = impl_split(u)
        case = {"k": "urlsplit", "u": u}
        ctx.case(case, tags=("k1:urlsplit", "split:ValueError" if impl is None else ("split:netloc" if impl["netloc"] else "split:no-netloc")))
        if model_split(r) != impl:
            ctx.mismatch(case, model_split(r), impl, "urlsplit: model vs implementation")
        if impl is not None:
            try:
                pr = up.urlparse(u)
                if (pr.scheme, pr.netloc) != (impl["scheme"], impl["netloc"]):
                    ctx.mismatch(case, impl, [pr.scheme, pr.netloc], "urlparse and urlsplit disagree on scheme/netloc")
            except ValueError:
                ctx.mismatch(case, impl, "ValueError", "urlparse raises where urlsplit does not")


# ------------------------------------------------------------------------------------------ K2: validators


def canon_exc(f: Any, *a: Any) -> dict[str, Any]:
    try:
        return {"ok": f(*a)}
    except ValueError:
        return {"esc": "ValueError"}
    except KeyError:
        return {"esc": "KeyError"}
    except struct.error:
        return {"esc": "struct.error"}
    except TypeError:
        return {"esc": "TypeError"}


def canon_model(r: dict[str, Any]) -> dict[str, Any]:
    return {"ok": j2s(r["ok"])} if "ok" in r else {"esc": r["esc"]}


def k_return_to(ctx: Any, m: Any, items: list[tuple[str, tuple[str, ...]]]) -> list[dict[str, Any]]:
    envs = envs_for(ctx, [u for u, _ in items])
    res = ctx.driver.batch([("C37.validateReturnTo", {"u": s2j(u), "allow": [s2j(o) for o in allow], "bracketOk": e[0], "nfkcOk": e[1]})
                            for (u, allow), e in zip(items, envs)])
    out = []
    for (u, allow), r in zip(items, res):
        impl = canon_exc(m._validate_return_to, u, frozenset(allow))
        case = {"k": "return_to", "u": u, "allow": list(allow)}
        ctx.case(case, tags=("k2:return_to", "rt:esc" if "esc" in impl else ("rt:accept" if impl["ok"] else "rt:reject")))
        if canon_model(r) != impl:
            ctx.mismatch(case, canon_model(r), impl, "_validate_return_to: model vs implementation")
        out.append(impl)
    return out


def k_original(ctx: Any, m: Any, items: list[tuple[str, str]]) -> list[dict[str, Any]]:
    envs = envs_for(ctx, [u[: m._MAX_ORIGINAL_URL_LEN] for u, _ in items])
    res = ctx.driver.batch([("C37.validateOriginalUrl", {"u": s2j(u), "prefix": s2j(p), "bracketOk": e[0], "nfkcOk": e[1]})
                            for (u, p), e in zip(items, envs)])
    out = []
    for (u, p), r in zip(items, res):
        impl = canon_exc(m._validate_original_url, u, p)
        case = {"k": "original_url", "u": u, "prefix": p}
        ctx.case(case, tags=("k2:original_url", "ou:esc" if "esc" in impl else ("ou:kept" if impl["ok"] == u else "ou:fallback")))
        if canon_model(r) != impl:
            ctx.mismatch(case, canon_model(r), impl, "_validate_original_url: model vs implementation")
        out.append(impl)
    return out


# ------------------------------------------------------------------------------------------ the spec, evaluated with the WHATWG model

BASE_HOST = "svc.example"


def base_json(prefix: str, path: str, query: str | None) -> dict[str, Any]:
    """The URL of the request whose response carries the Location (https://svc.example<path>?<query>)."""
    segs = [s2j(x) for x in path.split("/")[1:]] if path.startswith("/") else [s2j(path)]
    return {"scheme": s2j("https"), "host": s2j(BASE_HOST), "port": None, "path": segs, "query": s2j(query) if query is not None else None}


def origin_key(o: dict[str, Any]) -> str:
    return json.dumps(o, sort_keys=True)


class Spec:
    """Parses Location values and allow-list entries with the WHATWG model (driver)."""

    def __init__(self, ctx: Any) -> None:
        self.ctx = ctx
        self.allow_cache: dict[tuple[str, ...], set[str]] = {}

    def parse(self, base: dict[str, Any], loc: str) -> dict[str, Any]:
        return dcall(self.ctx, "C37.whatwg", {"base": base, "u": s2j(loc)})

    def allowed_origins(self, allow: tuple[str, ...]) -> set[str]:
        if allow not in self.allow_cache:
            s = set()
            for o in allow:
                r = self.parse(base_json("", "/", None), o)
                if r["r"] == "ok":
                    s.add(origin_key(r["origin"]))
            self.allow_cache[allow] = s
        return self.allow_cache[allow]

    def external(self, case: Any, base: dict[str, Any], loc: str, allow: tuple[str, ...], where: str) -> None:
        """An external redirect (secrets in the fragment) must resolve to an allow-listed or http-loopback origin."""
        r = self.parse(base, loc)
        self.ctx.tag(f"o:external:{r['r']}")
        if r["r"] != "ok":
            fail(self.ctx, case, f"C37:{where}:location-{r['r']}",
                          f"Location {loc!r} is not resolved by the WHATWG parser ({r['r']}): not a URL with an allow-listed origin")
            return
        if r["loopbackHttp"] or origin_key(r["origin"]) in self.allowed_origins(allow):
            return
        h = r["origin"]["host"]
        host = j2s(h["domain"]) if "domain" in h else json.dumps(h)
        kind = "foreign-host"
        for o in allow:
            ro = self.parse(base_json("", "/", None), o)
            if ro["r"] == "ok" and ro["origin"]["host"] == r["origin"]["host"]:
                kind = "port-or-scheme-mismatch"
        fail(self.ctx, case, f"C37:{where}:{kind}",
                      f"Location {loc!r}: a browser navigates to {j2s(r['origin']['scheme'])}://{host}:{r['origin']['port']} — "
                      f"not allow-listed ({list(allow)}) and not http loopback; the fragment carries the token")

    def same_origin(self, case: Any, base: dict[str, Any], loc: str, prefix: str, where: str) -> None:
        """A same-origin redirect must stay on the service origin and under the prefix."""
        r = self.parse(base, loc)
        self.ctx.tag(f"o:same-origin:{r['r']}")
        if r["r"] != "ok":
            fail(self.ctx, case, f"C37:{where}:location-{r['r']}", f"Location {loc!r} is not resolved by the WHATWG parser ({r['r']})")
            return
        rb = self.parse(base, "")
        if r["origin"] != rb["origin"]:
            h = r["origin"]["host"]
            host = j2s(h["domain"]) if "domain" in h else json.dumps(h)
            fail(self.ctx, case, f"C37:{where}:leaves-origin", f"Location {loc!r}: a browser navigates to host {host!r}, not the service origin")
            return
        if not j2s(r["pathStr"]).startswith(prefix):
            fail(self.ctx, case, f"C37:{where}:leaves-prefix",
                          f"Location {loc!r} resolves to path {j2s(r['pathStr'])!r}, outside the prefix {prefix!r}")


# ------------------------------------------------------------------------------------------ K3: cookies, quote, corpus

KEY = b"k" * 32


def session_key(m: Any) -> bytes:
    return m._derive_session_key(KEY)


class FakeTime:
    """Stands in for the `time` module inside _oauth_pkce (only `.time()` is used there)."""

    def __init__(self, now: Any) -> None:
        self.now = now

    def time(self) -> Any:
        return self.now


COOKIE_ERR = [
    ("Malformed session cookie", "malformed"), ("too short", "too_short"), ("signature mismatch", "signature"),
    ("Unexpected session cookie version", "version"), ("expired", "expired"),
]


def impl_unpack(m: Any, cookie: str, key: bytes, max_age: int) -> dict[str, Any]:
    try:
        return {"ok": list(m._unpack_oauth_cookie(cookie, key, max_age))}
    except UnicodeDecodeError:
        return {"err": "unicode"}
    except ValueError as e:
        for frag, name in COOKIE_ERR:
            if frag in str(e):
                return {"err": name}
        return {"err": f"ValueError:{e}"}
    except struct.error:
        return {"err": "struct.error"}


def model_unpack(r: dict[str, Any]) -> dict[str, Any]:
    return {"ok": [j2s(x) for x in r["ok"]]} if "ok" in r else {"err": r["err"]}


def sign(key: bytes, payload: bytes) -> str:
    return base64.urlsafe_b64encode(payload + _hmac.new(key, payload, hashlib.sha256).digest()).decode()


def payload_of(t: int, fields: list[bytes], version: int = 4) -> bytes:
    return struct.pack("B", version) + struct.pack("<Q", t) + b"".join(struct.pack("<H", len(f)) + f for f in fields)


COOKIE_JUNK = "AZaz09-_=+/.!*~ "


def mutate_cookie(rng: Any, cookie: str, key: bytes) -> tuple[str, str]:
    """An attacker-side or server-side variation of a cookie; returns (kind, cookie)."""
    raw = base64.urlsafe_b64decode(cookie)
    k = rng.choice(["flip-payload", "flip-mac", "truncate", "extend", "b64-noise", "b64-char", "other-key", "strip-pad", "resign-garbage",
                    "resign-version", "resign-short", "resign-badutf8", "resign-hugelen", "swap-alphabet", "empty", "nonascii"])
    if k == "flip-payload":
        i = rng.randrange(len(raw) - 32)
        raw2 = raw[:i] + bytes([raw[i] ^ (1 << rng.randrange(8))]) + raw[i + 1:]
        return k, base64.urlsafe_b64encode(raw2).decode()
    if k == "flip-mac":
        i = len(raw) - 1 - rng.randrange(32)
        raw2 = raw[:i] + bytes([raw[i] ^ (1 << rng.randrange(8))]) + raw[i + 1:]
        return k, base64.urlsafe_b64encode(raw2).decode()
    if k == "truncate":
        return k, base64.urlsafe_b64encode(raw[: rng.choice([0, 1, 31, 32, 48, 49, 50, len(raw) - 1, len(raw) - 32])]).decode()
    if k == "extend":
        return k, base64.urlsafe_b64encode(raw + rng.randbytes(rng.choice([1, 2, 32]))).decode()
    if k == "b64-noise":  # characters the lenient decoder skips: the decoded bytes are unchanged
        i = rng.randrange(len(cookie) + 1)
        return k, cookie[:i] + rng.choice([".", "!", "*", "~", " ", "..", "%"]) + cookie[i:]
    if k == "b64-char":
        i = rng.randrange(len(cookie))
        return k, cookie[:i] + rng.choice(COOKIE_JUNK) + cookie[i + 1:]
    if k == "other-key":
        return k, sign(b"x" * 32, raw[:-32])
    if k == "strip-pad":
        return k, cookie.rstrip("=") + rng.choice(["", "=", "==", "==="])
    if k == "swap-alphabet":
        return k, cookie.replace("-", "+").replace("_", "/")
    if k == "empty":
        return k, rng.choice(["", "=", "A", "AA", "AAA=", "===="])
    if k == "nonascii":
        return k, cookie[:5] + "é" + cookie[5:]
    # the rest are cookies the *server key* signed but `_pack_oauth_cookie` never produces (reachable only with the key):
    if k == "resign-garbage":
        return k, sign(key, rng.randbytes(rng.choice([17, 18, 20, 40])))
    if k == "resign-version":
        return k, sign(key, bytes([rng.choice([0, 3, 5, 255])]) + raw[1:-32])
    if k == "resign-short":
        return k, sign(key, raw[: rng.choice([17, 18, 19, 21, 25])])
    if k == "resign-badutf8":
        return k, sign(key, payload_of(int.from_bytes(raw[1:9], "little"), [b"cv", b"\xff\xfe", b"/x", b""]))
    return k, sign(key, raw[:9] + b"\xff\xff" + raw[11:-32])


def k_cookies(ctx: Any, m: Any, n: int) -> None:
    rng = ctx.rng
    skey = session_key(m)
    saved = m.time
    try:
        for i in range(n):
            t = rng.choice([0, 1, 1_700_000_000, 1_700_000_000, 2**32, 2**63, 2**64 - 1, 2**64, rng.randrange(2**40)])
            f = [rng.choice(["cv", "", "v" * 43, "é" * 3, "x" * 70000]) if rng.random() < 0.3 else "v" * 43,
                 rng.choice(["st", "", "s" * 32, "stàte"]),
                 rng.choice(["/", "/vgi/x?y=1", "", "/é", "/" + "a" * 2047]),
                 rng.choice(["", "https://cupola.query-farm.services/", "http://localhost:1/#x"])]
            case = {"k": "pack", "t": t, "fields": [x if len(x) < 100 else f"{x[0]}*{len(x)}" for x in f]}
            try:
                impl = m._pack_oauth_cookie(f[0], f[1], f[2], skey, created_at=t, return_to=f[3])
            except struct.error:
                impl = None
            mod = dcall(ctx, "C37.pack", {"key": b2j(skey), "t": t, "cv": s2j(f[0]), "st": s2j(f[1]), "ou": s2j(f[2]), "rt": s2j(f[3])})
            mod = j2s(mod) if mod is not None else None
            ctx.case(case, tags=("k3:pack", "pack:ok" if impl else "pack:struct.error"))
            if mod != impl:
                ctx.mismatch(case, mod, impl, "_pack_oauth_cookie: model vs implementation")
            if impl is None:
                continue
            variants = [("minted", impl)] + [mutate_cookie(rng, impl, skey) for _ in range(3)]
            for kind, ck in variants:
                now = t + rng.choice([0, 0, 1, 599, 600, 601, -1, -600, 10**6, -(10**6)])
                max_age = rng.choice([600, 600, 600, 0, -1, 1])
                m.time = FakeTime(now + rng.choice([0.0, 0.5, 0.999]) if 0 <= now < 2**50 else now)
                iu = impl_unpack(m, ck, skey, max_age)
                mu = model_unpack(dcall(ctx, "C37.unpack", {"key": b2j(skey), "now": now, "maxAge": max_age, "cookie": s2j(ck)}))
                c2 = {"k": "unpack", "kind": kind, "cookie": ck if len(ck) < 400 else ck[:60] + f"…({len(ck)})", "t": t, "now": now, "max_age": max_age}
                ctx.case(c2, tags=("k3:unpack", f"cookie:{kind}", "unpack:" + ("ok" if "ok" in iu else iu["err"])))
                if iu != mu:
                    ctx.mismatch(c2, mu, iu, "_unpack_oauth_cookie: model vs implementation")
                # O (function level): round trip ⇔ age within bounds; anything not minted by this key → error
                age_ok = max_age <= 0 or 0 <= now - t <= max_age
                if kind == "minted" and (("ok" in iu) != age_ok or ("ok" in iu and iu["ok"] != f)):
                    fail(ctx, c2, "C37:cookie-roundtrip", f"minted cookie at age {now - t} (max {max_age}) gave {iu}")
                if kind in ("flip-payload", "flip-mac", "other-key", "truncate", "extend") and "ok" in iu:
                    fail(ctx, c2, f"C37:cookie-forged:{kind}", f"a cookie altered by {kind} was accepted: {iu}")
    finally:
        m.time = saved


def k_quote(ctx: Any, n: int) -> None:
    rng = ctx.rng
    alphabet = "abcXYZ019-_.~/ :?#[]@!$&'()*+,;=%\\\"<>^`{|}\t\n\x00\x7féß€😀"
    strs = ["", "https://auth.example.com/token", "a b", "é"] + ["".join(rng.choice(alphabet) for _ in range(rng.randrange(1, 12))) for _ in range(n)]
    res = ctx.driver.batch([("C37.quote", {"s": s2j(s)}) for s in strs])
    for s, r in zip(strs, res):
        case = {"k": "quote", "s": s}
        ctx.case(case, tags=("k3:quote",))
        if j2s(r) != up.quote(s):
            ctx.mismatch(case, j2s(r), up.quote(s), "urllib.parse.quote: model vs implementation")


def k_unsafe_chars(ctx: Any, m: Any) -> None:
    """`_has_unsafe_url_chars` on every single character up to U+2FFF plus samples (exhaustive where it matters)."""
    if not hasattr(m, "_has_unsafe_url_chars"):
        return
    cps = list(range(0, 0x3000)) + [0xD7FF, 0xE000, 0xFFFD, 0xFFFF, 0x10000, 0x10FFFF]
    res = ctx.driver.batch([("C37.hasUnsafeChars", {"u": [97, cp, 98]}) for cp in cps])
    bad = [cp for cp, r in zip(cps, res) if r != m._has_unsafe_url_chars("a" + chr(cp) + "b")]
    ctx.case({"k": "unsafe_chars", "n": len(cps)}, tags=("k2:unsafe_chars",))
    if bad:
        ctx.mismatch({"k": "unsafe_chars", "cp": bad[:5]}, "model", "impl", "_has_unsafe_url_chars: model vs implementation")


def k_corpus(ctx: Any) -> None:
    data = json.loads((CORPUS / "whatwg.json").read_text())
    for c in data["cases"]:
        b = data["bases"][c["base"]]
        base = {"scheme": s2j(b["scheme"]), "host": s2j(b["host"]), "port": b["port"], "path": [s2j(x) for x in b["path"]],
                "query": s2j(b["query"]) if b["query"] is not None else None}
        r = dcall(ctx, "C37.whatwg", {"base": base, "u": s2j(c["input"])})
        if r["r"] != "ok":
            got: Any = r["r"]
        else:
            h = r["host"]
            if "domain" in h:
                h = {"domain": j2s(h["domain"])}
            opt = lambda x: j2s(x) if x is not None else None  # noqa: E731
            got = {"scheme": j2s(r["scheme"]), "host": h, "port": r["port"], "pathStr": j2s(r["pathStr"]), "query": opt(r["query"]),
                   "fragment": opt(r["fragment"]), "username": j2s(r["username"]), "password": j2s(r["password"])}
        case = {"k": "whatwg-corpus", "input": c["input"], "base": c["base"]}
        ctx.case(case, tags=("k3:whatwg-corpus",))
        if got != c["expect"]:
            ctx.mismatch(case, got, c["expect"], "WHATWG model vs the committed corpus of standard examples")


# ------------------------------------------------------------------------------------------ the real flow (Falcon)

AUTH_EP = "https://auth.example.com/authorize"
TOKEN_EP = "https://auth.example.com/token"
GOOD = "good.token"
ACCEPTED = {GOOD, "a.b.c", "eyJhbGciOiJub25lIn0.eyJleHAiOjF9.x", "eyJhbGciOiJub25lIn0.eyJleHAiOjk5OTk5OTk5OTl9.x"}  # bearer values the stub authenticator accepts
COOKIE_OK = set("abcdefghijklmnopqrstuvwxyzABCDEFGHIJKLMNOPQRSTUVWXYZ0123456789-_=+/.!*~")


class _Svc(Protocol):
    def echo(self, message: str) -> str: ...


class _Impl:
    def echo(self, message: str) -> str:
        return message


class Flow:
    """One service (prefix, allow-list) with discovery / token exchange stubbed through module attributes."""

    def __init__(self, m: Any, prefix: str, allow: tuple[str, ...], client_secret: str | None, use_id_token: bool) -> None:
        import falcon.testing
        from vgi_rpc import AuthContext, RpcServer
        from vgi_rpc.http import OAuthResourceMetadata, make_wsgi_app

        self.m, self.prefix, self.allow = m, prefix, allow
        self.cfg = {"prefix": s2j(prefix), "allow": [s2j(o) for o in allow], "clientId": s2j("cid"),
                    "clientSecret": s2j(client_secret) if client_secret is not None else None, "useIdToken": use_id_token}
        self.exchange: Any = ("TOK", 3600, "REFRESH", None)
        self.env: dict[str, Any] = {}

        def authenticate(req: Any) -> Any:
            h = req.get_header("Authorization") or ""
            if not h.startswith("Bearer ") or h[7:] not in ACCEPTED:
                raise ValueError("bad credentials")
            return AuthContext(domain="t", authenticated=True, principal="p")

        def exchange(**_k: Any) -> Any:
            if self.exchange is None:
                raise ValueError("Token exchange failed: stub")
            return self.exchange

        m._DEFAULT_ALLOWED_RETURN_ORIGINS = frozenset(allow)
        m._create_oidc_discovery = lambda issuer: (lambda: (AUTH_EP, TOKEN_EP))
        self.exchange_stub = exchange
        md = OAuthResourceMetadata(resource=f"https://{BASE_HOST}{prefix}", authorization_servers=("https://auth.example.com",),
                                   client_id="cid", client_secret=client_secret, use_id_token_as_bearer=use_id_token)
        app = make_wsgi_app(RpcServer(_Svc, _Impl()), prefix=prefix, token_key=KEY, authenticate=authenticate,
                            oauth_resource_metadata=md, compression_level=None)

        def spy(environ: Any, start_response: Any) -> Any:
            self.env = dict(environ)
            return app(environ, start_response)

        self.client = falcon.testing.TestClient(spy)

    def get(self, path: str, query_string: str = "", headers: dict[str, str] | None = None, method: str = "GET") -> Any:
        self.m._exchange_code_for_token = self.exchange_stub
        try:
            return self.client.simulate_request(method, path, query_string=query_string, headers=headers or {},
                                                wsgierrors=io.StringIO())  # Falcon writes tracebacks of the provoked 500s there
        except AssertionError as e:  # wsgiref.validate: the application produced an illegal header value
            return types.SimpleNamespace(status_code=599, headers={}, cookies={}, bad_header=str(e)[:200])

    def seen(self) -> tuple[str, str, str | None]:
        """(req.path, req.query_string, _vgi_return_to) exactly as Falcon derives them from the WSGI environ."""
        import falcon

        req = falcon.Request(dict(self.env))
        return req.path, req.query_string, req.get_param("_vgi_return_to")


class DirectFlow(Flow):
    """The browser flow assembled from the module's own parts with an *explicit* `allowed_return_origins`
    (`make_wsgi_app` never passes one): `_OAuthPkceMiddleware` + `_OAuthCallbackResource` on a Falcon app whose other
    paths answer 401 without the auth cookie.  `configured` = None | a tuple of origins (possibly empty)."""

    def __init__(self, ctx: Any, m: Any, prefix: str, configured: tuple[str, ...] | None, client_secret: str | None, use_id_token: bool) -> None:
        import falcon
        import falcon.testing

        self.m, self.prefix, self.configured = m, prefix, configured
        # the spec: the allow-list the operator configured is the one in force; only an absent one means the default
        self.allow = tuple(sorted(configured)) if configured is not None else tuple(sorted(m._DEFAULT_ALLOWED_RETURN_ORIGINS))
        # the model: what `__init__` makes of the argument (extracted defaulting expression)
        model_allow = dcall(ctx, "C37.effectiveAllow", {"configured": [s2j(o) for o in sorted(configured)] if configured is not None else None})
        self.cfg = {"prefix": s2j(prefix), "allow": model_allow, "clientId": s2j("cid"),
                    "clientSecret": s2j(client_secret) if client_secret is not None else None, "useIdToken": use_id_token}
        self.exchange = ("TOK", 3600, "REFRESH", None)
        self.env = {}

        def exchange(**_k: Any) -> Any:
            if self.exchange is None:
                raise ValueError("Token exchange failed: stub")
            return self.exchange

        self.exchange_stub = exchange
        skey = session_key(m)
        disc = lambda: (AUTH_EP, TOKEN_EP)  # noqa: E731
        redirect_uri = f"https://{BASE_HOST}{prefix}/_oauth/callback"
        self.mw = m._OAuthPkceMiddleware(session_key=skey, oidc_discovery=disc, client_id="cid", prefix=prefix, secure_cookie=True,
                                         redirect_uri=redirect_uri,
                                         allowed_return_origins=frozenset(configured) if configured is not None else None)
        cb = m._OAuthCallbackResource(session_key=skey, oidc_discovery=disc, client_id="cid", client_secret=client_secret,
                                      use_id_token=use_id_token, prefix=prefix, secure_cookie=True, redirect_uri=redirect_uri)
        app = falcon.App(middleware=[self.mw])
        app.add_route(f"{prefix}/_oauth/callback", cb)
        app.add_route(f"{prefix}/_oauth/logout", m._OAuthLogoutResource(prefix, True))

        def protected(req: Any, resp: Any, **_kw: Any) -> None:
            if req.cookies.get(m._AUTH_COOKIE_NAME) in ACCEPTED:
                resp.text = "hello"
            else:
                resp.status = "401 Unauthorized"

        app.add_sink(protected, "/")

        def spy(environ: Any, start_response: Any) -> Any:
            self.env = dict(environ)
            return app(environ, start_response)

        self.client = falcon.testing.TestClient(spy)

    def case0(self) -> dict[str, Any]:
        return {"k": "flow", "direct": True, "prefix": self.prefix, "configured": list(self.configured) if self.configured is not None else None,
                "allow": list(self.allow)}


def k_allow_config(ctx: Any, fl: "DirectFlow") -> None:
    """K: the allow-list the real middleware holds vs the model's `effectiveAllow`;  O: it is the configured one."""
    got = sorted(fl.mw._allowed_return_origins)
    model = sorted(j2s(x) for x in fl.cfg["allow"])
    case = dict(fl.case0(), step="allow-config")
    ctx.case(case, tags=("k2:allow-config", "allow-config:" + ("none" if fl.configured is None else str(len(fl.configured)))))
    if got != model:
        ctx.mismatch(case, model, got, "_OAuthPkceMiddleware.__init__ (allow-list in force): model vs implementation")
    if got != list(fl.allow):
        fail(ctx, case, "C37:allow-config:configured-allowlist-not-in-force:" + ("empty" if fl.configured == () else "other"),
             f"allowed_return_origins={fl.configured!r} was configured, but the middleware validates _vgi_return_to against {got}")


def wire_rt(rt: str | None, qs: str) -> str:
    if rt is None:
        return qs
    return (qs + "&" if qs else "") + "_vgi_return_to=" + up.quote(rt, safe="")


def canon_outcome(r: Any) -> dict[str, Any]:
    out: dict[str, Any] = {"status": r.status_code}
    if r.status_code == 302:
        out["location"] = r.headers.get("location")
    return out


def model_outcome(r: dict[str, Any]) -> dict[str, Any]:
    out: dict[str, Any] = {"status": r["status"]}
    if r["status"] == 302:
        out["location"] = j2s(r["location"])
    return out


def env_flags(ctx: Any, *urls: str) -> dict[str, Any]:
    """The model's environment for the URLs a flow step will parse: the arguments on which the real functions raise."""
    b_no, n_no = [], []
    for url in urls:
        q = dcall(ctx, "C37.envq", {"u": s2j(url)})
        b, n = real_env(q)
        if not b:
            b_no.append(q["bracket"])
        if not n:
            n_no.append(q["nfkc"])
    return {"bracketNo": b_no, "nfkcNo": n_no}


def flow_login(ctx: Any, spec: Spec, fl: Flow, path: str, qs: str, rt: str | None, variants: list[str], case0: dict[str, Any]) -> None:
    """Unauthenticated browser GET → (302 to the IdP + session cookie) → callback variants."""
    m = fl.m
    m.time = FakeTime(1_700_000_000.0)
    r = fl.get(path, wire_rt(rt, qs), {"Accept": "text/html"})
    req_path, req_qs, seen_rt = fl.seen()
    case = dict(case0, step="login", path=path, qs=qs, return_to=rt)
    if r.status_code == 599:
        fail(ctx, case, "C37:login:illegal-header-value", f"the response carries an illegal header value: {r.bad_header}")
        return
    is_hop = r.status_code == 302 and (r.headers.get("location") or "").startswith(AUTH_EP + "?")
    ctx.case(case, tags=("flow:login", f"login:{r.status_code}{':idp' if is_hop else ''}"))
    if r.status_code == 302 and not is_hop:
        loc = r.headers.get("location") or ""
        if loc == fl.prefix + "/" or loc == (fl.prefix or "/"):
            pass  # Falcon's own trailing-slash / landing redirects do not exist in this app; keep the oracle strict below
        fail(ctx, case, "C37:login:unexpected-redirect", f"unauthenticated browser GET was redirected to {loc!r}, not to the authorization endpoint")
        return
    if not is_hop:
        return
    loc = r.headers["location"]
    # O: the hop to the IdP is the configured authorization endpoint
    rp = spec.parse(base_json(fl.prefix, path, None), loc)
    ra = spec.parse(base_json(fl.prefix, path, None), AUTH_EP)
    if rp["r"] != "ok" or rp["origin"] != ra["origin"] or rp["pathStr"] != ra["pathStr"]:
        fail(ctx, case, "C37:idp-hop:not-the-authorization-endpoint", f"Location {loc[:120]!r} does not resolve to {AUTH_EP}")
    state = up.parse_qs(up.urlsplit(loc).query)["state"][0]
    ck = r.cookies[m._SESSION_COOKIE_NAME].value
    cv, st, ou, rt_signed = m._unpack_oauth_cookie(ck, session_key(m))
    # K4: what process_response signed into the cookie
    original = req_path + ("?" + req_qs if req_qs else "")
    mr = dcall(ctx, "C37.processResponse", {
        "cfg": fl.cfg, "method": s2j("GET"), "is401": True, "acceptsHtml": True, "discoveryOk": True, "path": s2j(req_path), "query": s2j(req_qs),
        "returnTo": s2j(seen_rt) if seen_rt is not None else None,
        **env_flags(ctx, original[: m._MAX_ORIGINAL_URL_LEN], seen_rt or "")})
    got = {"minted": [ou, rt_signed]}
    want = {"minted": [j2s(x) for x in mr["minted"]]} if mr.get("minted") is not None else mr
    if got != want or st != state:
        ctx.mismatch(case, want, got, "process_response (what is signed into the session cookie): model vs implementation")
    # callback variants
    for v in variants:
        flow_callback(ctx, spec, fl, case0, v, ck, state, ou, rt_signed)


def flow_callback(ctx: Any, spec: Spec, fl: Flow, case0: dict[str, Any], variant: str, minted: str, state: str, ou: str, rt: str) -> None:
    m, rng = fl.m, ctx.rng
    now, code, st, err, ck = 1_700_000_000 + 5, "c0de", state, None, minted
    fl.exchange = ("TOK", 3600, "REFRESH", None)
    kind = "faithful"
    if variant == "cookie":
        kind, ck = mutate_cookie(rng, minted, session_key(m))
        if not set(ck) <= COOKIE_OK:
            return
    elif variant == "state":
        st = rng.choice([state + "x", state[:-1], "", state.swapcase(), "é" + state])
    elif variant == "age":
        now = 1_700_000_000 + rng.choice([600, 601, 3600, -1, -600, 0, 599])
    elif variant == "nocode":
        code = ""
    elif variant == "error":
        err = "access_denied"
    elif variant == "exchange":
        fl.exchange = None
    elif variant == "norefresh":
        fl.exchange = (rng.choice(["TOK", "a.b.c", "tok en", "t#k", "tok%0a"]), 60, None, None)
    m.time = FakeTime(float(now))
    params = {"code": code, "state": st}
    if err:
        params["error"] = err
    qs = up.urlencode({k: v for k, v in params.items() if v is not None})
    path = fl.prefix + "/_oauth/callback"
    hdr = {"Cookie": f"{m._SESSION_COOKIE_NAME}={ck}"} if ck else {}
    r = fl.get(path, qs, hdr)
    case = dict(case0, step="callback", variant=variant, kind=kind, cookie=ck if len(ck) < 300 else ck[:80] + f"…({len(ck)})",
                state_sent=st, now_offset=now - 1_700_000_000, original_url=ou, return_to=rt)
    got = canon_outcome(r)
    ctx.case(case, tags=("flow:callback", f"cb:{variant}", f"cb-status:{r.status_code}"))
    if r.status_code == 599:
        fail(ctx, case, f"C37:callback-{'external' if rt else 'original'}:illegal-header-value",
             f"the redirect carries an illegal header value (a browser never sees a well-formed Location): {r.bad_header}")
        return
    # K4
    ex = None if fl.exchange is None else {"token": s2j(fl.exchange[0]), "refresh": s2j(fl.exchange[2]) if fl.exchange[2] else None}
    import falcon

    seen = falcon.Request(dict(fl.env))
    opt = lambda x: s2j(x) if x is not None else None  # noqa: E731
    mo = dcall(ctx, "C37.callback", {
        "cfg": fl.cfg, "key": b2j(session_key(m)), "now": now, "tokenEndpoint": s2j(TOKEN_EP), "exchange": ex,
        "req": {"error": opt(seen.get_param("error")), "code": opt(seen.get_param("code")), "state": opt(seen.get_param("state")),
                "cookie": opt(seen.cookies.get(m._SESSION_COOKIE_NAME))},
        **env_flags(ctx, ou[: m._MAX_ORIGINAL_URL_LEN])})
    if model_outcome(mo) != got:
        ctx.mismatch(case, model_outcome(mo), got, "callback: model vs implementation")
    # O
    if r.status_code != 302:
        return
    try:
        untampered = base64.urlsafe_b64decode(ck) == base64.urlsafe_b64decode(minted)
    except Exception:
        untampered = False
    if not untampered:
        fail(ctx, case, f"C37:callback-completed:tampered-cookie:{kind}", "the callback completed (302) with a cookie that is not the one the server signed")
    if not 0 <= now - 1_700_000_000 <= m._SESSION_MAX_AGE:
        fail(ctx, case, "C37:callback-completed:expired-cookie", f"the callback completed with a cookie of age {now - 1_700_000_000}s")
    if st != state:
        fail(ctx, case, "C37:callback-completed:state-mismatch", f"the callback completed with state {st!r} ≠ {state!r}")
    loc = r.headers.get("location") or ""
    base = base_json(fl.prefix, path, qs)
    if rt:
        spec.external(case, base, loc, fl.allow, "callback-external")
    else:
        spec.same_origin(case, base, loc, fl.prefix, "callback-original")


def flow_authenticated(ctx: Any, spec: Spec, fl: Flow, path: str, rt: str | None, token: str, method: str, case0: dict[str, Any]) -> None:
    """process_request: a browser that already holds the auth cookie and asks for an external return."""
    m = fl.m
    m.time = FakeTime(1_700_000_000.0)
    r = fl.get(path, wire_rt(rt, ""), {"Accept": "text/html", "Cookie": f"{m._AUTH_COOKIE_NAME}={token}"}, method)
    import falcon

    seen = falcon.Request(dict(fl.env))
    seen_rt, seen_tok = seen.get_param("_vgi_return_to"), seen.cookies.get(m._AUTH_COOKIE_NAME)
    case = dict(case0, step="authenticated", path=path, return_to=rt, token=token, method=method)
    if r.status_code == 599:
        fail(ctx, case, "C37:already-authenticated:illegal-header-value", f"the redirect carries an illegal header value: {r.bad_header}")
        return
    loc = r.headers.get("location") if r.status_code == 302 else None
    external = loc is not None and not loc.startswith(AUTH_EP + "?") and loc not in (fl.prefix or "/",)
    ctx.case(case, tags=("flow:authenticated", f"auth:{r.status_code}{':external' if external else ''}"))
    opt = lambda x: s2j(x) if x is not None else None  # noqa: E731
    mo = dcall(ctx, "C37.processRequest", {"cfg": fl.cfg, "method": s2j(method), "returnTo": opt(seen_rt), "authCookie": opt(seen_tok),
                                                "jwtExpired": bool(seen_tok) and m._is_jwt_expired(seen_tok), **env_flags(ctx, seen_rt or "")})
    want = {"status": 500} if "esc" in mo else ({"status": 302, "location": j2s(mo["location"])} if mo["location"] is not None else None)
    # the PKCE middleware's process_request only runs when the auth middleware before it let the request through
    authed = method == "GET" and seen_tok in ACCEPTED
    if authed and (want is not None and want != canon_outcome(r) or (want is None and external)):
        ctx.mismatch(case, want, canon_outcome(r), "process_request: model vs implementation")
    if external:
        spec.external(case, base_json(fl.prefix, path, None), loc or "", fl.allow, "already-authenticated")


def flow_logout(ctx: Any, spec: Spec, fl: Flow, case0: dict[str, Any]) -> None:
    path = fl.prefix + "/_oauth/logout"
    r = fl.get(path)
    case = dict(case0, step="logout")
    ctx.case(case, tags=("flow:logout",))
    want = j2s(dcall(ctx, "C37.logout", {"cfg": fl.cfg}))
    if r.status_code != 302 or r.headers.get("location") != want:
        ctx.mismatch(case, {"status": 302, "location": want}, canon_outcome(r), "logout: model vs implementation")
    if r.status_code == 302:
        spec.same_origin(case, base_json(fl.prefix, path, None), r.headers.get("location") or "", fl.prefix, "logout")


# ------------------------------------------------------------------------------------------ run

WITNESS_URLS = [
    "https://evil.com\\@cupola.query-farm.services/", "https://cupola.query-farm.services:8443/x", "http://evil.com\\@localhost/",
    "https://cupola.query-farm.services/", "https://cupola.query-farm.services", "https://cupola.query-farm.services:443/a?b#c",
    "HTTPS://CUPOLA.QUERY-FARM.SERVICES/", "http://localhost:5173/cb", "http://127.0.0.1:3000/", "http://[::1]:3000/",
    " https://cupola.query-farm.services/", "https://cupola.query-farm.services/ ", "ht\ttps://cupola.query-farm.services/",
    "https://cupola.query-farm.services:abc/", "https://cupola.query-farm.services:/", "https://cupola.query-farm.services:0/",
    "https://evil.com[cupola.query-farm.services]/", "https://cupola.query-farm.services@evil.com/", "https://evil.com#@cupola.query-farm.services/",
    "https:/cupola.query-farm.services/", "https:cupola.query-farm.services", "//cupola.query-farm.services/", "https://cupola.query-farm.services\\.evil.com/",
    "https://cupola.query-farm.services%2f.evil.com/", "https://cupola.query-farm.services\t.evil.com/", "https://:443/", "https://None/",
    "https://evil.com[va.example.com]/", "https://Kelvin.example/", "http://0x7f.1/", "https://ex%41mple.com/", "https://app.example.com:8443/",
    "https://app.example.com/", "http://192.168.1.5:3000/x", "http://192.168.1.5/", "http://localhost\\@evil.com/", "http://localhost#@evil.com/",
]
WITNESS_PATHS = [
    ("/%5Cevil.com", ""), ("//evil.com", ""), ("///evil.com", ""), ("/%09/evil.com", ""), ("/../../x", ""), ("/describe", "a=b"),
    ("/%2e%2e/x", ""), ("/%252e%252e/x", ""), ("/a%2523/../../other-app/admin", ""), ("/a%253F/../../x", ""), ("/%2523/%252e%252e/x", ""),
    ("/a%252F../../x", ""), ("/a/..%2523/x", ""), ("/a%23/../x", ""), ("/a/%2E%2E/%2E%2E/x", ""), ("/x", "next=//evil.com"), ("/%5C%5Cevil.com", ""), ("/;/evil.com", ""),
]
TOKENS = [GOOD, "x", "a.b.c", "eyJhbGciOiJub25lIn0.eyJleHAiOjF9.x", "eyJhbGciOiJub25lIn0.eyJleHAiOjk5OTk5OTk5OTl9.x"]


def _patched(m: Any) -> dict[str, Any]:
    return {k: getattr(m, k) for k in ("time", "_DEFAULT_ALLOWED_RETURN_ORIGINS", "_create_oidc_discovery", "_exchange_code_for_token")}


def run(ctx: Any) -> None:
    import vgi_rpc.http._oauth_pkce as m

    if ctx.driver is None:
        ctx.note("driver", "unavailable: correspondence and the WHATWG-based oracle were not run")
        return
    import logging

    logging.getLogger("falcon").setLevel(logging.CRITICAL)  # the 500s provoked on purpose are logged with tracebacks
    rng = ctx.rng
    deep = ctx.deep or bool(ctx.source_drift)
    shapes = dcall(ctx, "C37.shapes", {})
    ctx.note("shapes", shapes)
    saved = _patched(m)
    try:
        # ---- K3 helpers
        k_corpus(ctx)
        k_quote(ctx, ctx.budget(300, 5000))
        k_unsafe_chars(ctx, m)
        k_cookies(ctx, m, ctx.budget(120, 3000))
        # ---- K1 / K2 on the grammar
        n_urls = ctx.budget(10000, 200000)
        urls: list[tuple[str, tuple[str, ...]]] = [(u, a) for a in ALLOWLISTS for u in WITNESS_URLS]
        for _ in range(n_urls):
            a = ALLOWLISTS[0] if rng.random() < 0.5 else rng.choice(ALLOWLISTS)
            urls.append((gen_url(rng, a), a))
        # exhaustive small spaces: every short string around the allow-listed host / every short path over the critical alphabet
        import itertools

        full = ctx.tier == "thorough" or deep
        alpha_rt = ["@", "\\", "/", ":", ".", "#", "?", "[", "]", "%", " ", "\t", "e"]
        affixes = [""] + alpha_rt + (["".join(p) for p in itertools.product(alpha_rt, repeat=2)] if full else [])
        for a_ in affixes:
            for b_ in affixes:
                urls.append(("https://" + a_ + "cupola.query-farm.services" + b_, DEFAULT_ALLOW))
        ctx.note("exhaustive_return_to_affixes", len(affixes) ** 2)
        urls = [(u, a) for u, a in urls if no_surrogates(u)]
        k_split(ctx, sorted({u for u, _ in urls}))
        rt_results = k_return_to(ctx, m, urls)
        # O (function level): whatever the validator accepts must be safe once the token fragment is appended
        spec = Spec(ctx)
        for (u, allow), res in zip(urls, rt_results):
            if res.get("ok"):
                for sfx in ("token=TOK", "token=t k\t&x=https://evil.com/ "):
                    loc = j2s(dcall(ctx, "C37.redirectTarget", {"u": s2j(u), "params": s2j(sfx)}))
                    spec.external({"k": "return_to", "u": u, "allow": list(allow), "fragment": sfx}, base_json("", "/cb", None), loc, allow, "return-to")
        origs: list[tuple[str, str]] = []
        for p in PREFIXES:
            for wp, wq in WITNESS_PATHS:
                origs.append((up.unquote(wp) + ("?" + wq if wq else ""), p))
                origs.append((p + up.unquote(wp), p))
        for _ in range(ctx.budget(4000, 80000)):
            p = rng.choice(PREFIXES)
            r = rng.random()
            if r < 0.5:
                u = up.unquote(gen_req_path(rng, p))
                q = gen_query(rng)
                u = u + ("?" + q if q else "")
            elif r < 0.8:
                u = gen_url(rng, DEFAULT_ALLOW)
            else:
                u = mutate(rng, p + rng.choice(PATHS) + rng.choice(QUERIES) + rng.choice(FRAGS), rng.choice([0, 1, 2]))
            if no_surrogates(u):
                origs.append((u, p))
        for _ in range(ctx.budget(3000, 60000)):
            p = rng.choice(PREFIXES)
            origs.append((gen_dot_path(rng, p), p))
        # every short sequence of path tokens: slashes, dot segments, encoded delimiters, real delimiters
        toks = ["/", "..", ".", "a", "%23", "%3F", "%2e", "%2F", "%5C", "%25", "?", "#"]
        n_tok = 0
        for ln in range(1, (5 if full else 4) + 1):
            for tup in itertools.product(toks, repeat=ln):
                if ".." in tup or "." in tup or "%2e" in tup:
                    origs.append(("/a/" + "".join(tup), "/a"))
                    n_tok += 1
        ctx.note("exhaustive_original_url_token_sequences", n_tok)
        alpha_ou = ["/", "\\", ".", "a", "%", "2", "e", "?", "\t"]
        n_exh = 0
        for ln in range(0, (5 if full else 3) + 1):
            for tup in itertools.product(alpha_ou, repeat=ln):
                s_ = "".join(tup)
                origs.append((s_, ""))
                origs.append(("/a" + s_, "/a"))
                n_exh += 2
        ctx.note("exhaustive_original_url_strings", n_exh)
        ou_results = k_original(ctx, m, origs)
        for (u, p), res in zip(origs, ou_results):
            if "ok" in res:
                spec.same_origin({"k": "original_url", "u": u, "prefix": p}, base_json(p, p + "/_oauth/callback", "code=c"), res["ok"], p, "original-url")
        # ---- the real flow
        n_flow = ctx.budget(350, 8000)
        flows: list[Flow] = []
        for prefix in ("", "/vgi"):
            for allow, secret, idt in ((DEFAULT_ALLOW, "s3cret", False), (ALLOWLISTS[1], None, True)):
                flows.append(Flow(m, prefix, allow, secret, idt))
        for fl in flows:
            case0 = {"k": "flow", "prefix": fl.prefix, "allow": list(fl.allow)}
            flow_logout(ctx, spec, fl, case0)
            for wp, wq in WITNESS_PATHS:
                flow_login(ctx, spec, fl, wp, wq, None, ["faithful"], case0)
                flow_login(ctx, spec, fl, fl.prefix + wp, wq, None, ["faithful"], case0)
            for u in WITNESS_URLS:
                flow_login(ctx, spec, fl, fl.prefix + "/describe", "", u, ["faithful"], case0)
                flow_authenticated(ctx, spec, fl, fl.prefix + "/describe", u, GOOD, "GET", case0)
        # ---- the configuration grid: explicit allow-lists (absent, empty, one, several) on directly assembled apps,
        #      with targets on the built-in default origin, on every configured origin, on loopback and elsewhere
        m._DEFAULT_ALLOWED_RETURN_ORIGINS = saved["_DEFAULT_ALLOWED_RETURN_ORIGINS"]  # the `Flow`s above substituted it
        default_origins = tuple(sorted(saved["_DEFAULT_ALLOWED_RETURN_ORIGINS"]))
        configs: list[tuple[str, ...] | None] = [None, (), ("https://app.example.com:8443",), ALLOWLISTS[1],
                                                 ("https://app.example.com:8443", "http://192.168.1.5:3000"), default_origins]
        directs: list[DirectFlow] = []
        for prefix in ("", "/vgi"):
            for i, conf in enumerate(configs):
                directs.append(DirectFlow(ctx, m, prefix, conf, "s3cret" if i % 2 == 0 else None, i % 3 == 0))
        origin_pool = sorted(set(default_origins) | set(ALLOWLISTS[1]) | {"http://localhost:5173", "http://127.0.0.1:3000", "https://evil.com",
                                                                         "https://localhost"})
        for fl in directs:
            k_allow_config(ctx, fl)
            flow_logout(ctx, spec, fl, fl.case0())
            for o in origin_pool:
                for tail in ("/app", "/x?y=1#z"):
                    flow_login(ctx, spec, fl, fl.prefix + "/describe", "", o + tail, ["faithful"], fl.case0())
                    flow_authenticated(ctx, spec, fl, fl.prefix + "/describe", o + tail, GOOD, "GET", fl.case0())
        for _ in range(ctx.budget(120, 3000)):
            fl = rng.choice(directs)
            rt = gen_url(rng, tuple(origin_pool))
            if not no_surrogates(rt):
                continue
            flow_login(ctx, spec, fl, gen_req_path(rng, fl.prefix), gen_query(rng), rt, ["faithful", rng.choice(["cookie", "state", "age", "norefresh"])], fl.case0())
            if rng.random() < 0.5:
                flow_authenticated(ctx, spec, fl, fl.prefix + "/x", rt, rng.choice(TOKENS), "GET", fl.case0())
        all_variants = ["faithful", "cookie", "cookie", "state", "age", "nocode", "error", "exchange", "norefresh"]
        for _ in range(n_flow):
            fl = rng.choice(flows)
            case0 = {"k": "flow", "prefix": fl.prefix, "allow": list(fl.allow)}
            r = rng.random()
            rt = gen_url(rng, fl.allow) if r < 0.6 else None
            if rt is not None and not no_surrogates(rt):
                continue
            if rng.random() < 0.3:
                path = up.quote(gen_dot_path(rng, fl.prefix).split("?")[0].split("#")[0], safe="/-._~;:@")  # wire form: the WSGI layer decodes once
            else:
                path = gen_req_path(rng, fl.prefix)
            dec = up.unquote(path)
            if dec.startswith(fl.prefix + "/_oauth/") or dec.startswith(fl.prefix + "/health"):
                continue
            variants = ["faithful"] + [rng.choice(all_variants) for _ in range(2)]
            flow_login(ctx, spec, fl, path, gen_query(rng), rt, variants, case0)
            if rt is not None and rng.random() < 0.5:
                flow_authenticated(ctx, spec, fl, path, rt, rng.choice(TOKENS), rng.choice(["GET", "GET", "GET", "POST", "HEAD"]), case0)
    finally:
        for k, v in saved.items():
            setattr(m, k, v)


# ------------------------------------------------------------------------------------------ replay


def replay(ctx: Any, case: dict[str, Any]) -> None:
    import vgi_rpc.http._oauth_pkce as m

    spec = Spec(ctx)
    saved = _patched(m)
    try:
        k = case.get("k")
        if k == "urlsplit":
            k_split(ctx, [case["u"]])
        elif k == "return_to":
            allow = tuple(case["allow"])
            res = k_return_to(ctx, m, [(case["u"], allow)])[0]
            if res.get("ok"):
                loc = j2s(dcall(ctx, "C37.redirectTarget", {"u": s2j(case["u"]), "params": s2j(case.get("fragment", "token=TOK"))}))
                spec.external(case, base_json("", "/cb", None), loc, allow, "return-to")
        elif k == "original_url":
            res = k_original(ctx, m, [(case["u"], case["prefix"])])[0]
            if "ok" in res:
                p = case["prefix"]
                spec.same_origin(case, base_json(p, p + "/_oauth/callback", "code=c"), res["ok"], p, "original-url")
        elif k == "flow":
            if case.get("direct"):
                fl = DirectFlow(ctx, m, case["prefix"], tuple(case["configured"]) if case["configured"] is not None else None, "s3cret", False)
                case0 = fl.case0()
            else:
                fl = Flow(m, case["prefix"], tuple(case["allow"]), "s3cret", False)
                case0 = {"k": "flow", "prefix": fl.prefix, "allow": list(fl.allow)}
            step = case.get("step")
            if step == "allow-config":
                k_allow_config(ctx, fl)
            elif step == "logout":
                flow_logout(ctx, spec, fl, case0)
            elif step == "authenticated":
                flow_authenticated(ctx, spec, fl, case["path"], case["return_to"], case["token"], case["method"], case0)
            elif step == "login":
                flow_login(ctx, spec, fl, case["path"], case["qs"], case["return_to"], ["faithful"], case0)
            else:  # a callback step: re-mint a cookie with the same signed fields and replay the variant
                ck = m._pack_oauth_cookie("v" * 43, "st4te", case["original_url"], session_key(m), created_at=1_700_000_000, return_to=case["return_to"])
                for _ in range(1 if case["variant"] not in ("cookie", "state", "age", "norefresh") else 40):
                    flow_callback(ctx, spec, fl, case0, case["variant"], ck, "st4te", case["original_url"], case["return_to"])
        elif k in ("pack", "unpack"):
            k_cookies(ctx, m, 50)
        elif k == "quote":
            k_quote(ctx, 0)
        else:
            k_corpus(ctx)
    finally:
        for kk, v in saved.items():
            setattr(m, kk, v)
