"""C38 — HTTP retries are bounded and never duplicate non-idempotent calls.

K (correspondence, model vs implementation)
    A  `HttpRetryConfig(...)` accept / reject (which field)            vs `C38.validate`
    B  `_compute_delay(attempt, cfg, retry_after)` exact delay + draws  vs `C38.delay`
    C  `_request_with_retry` against scripted transports: sends, every sleep (exact rational), outcome, number of
       `random.uniform` draws                                           vs `C38.run`
    D  real client methods (`proxy.<unary>()`, stream init, `session.exchange()`, `session.cancel()`, producer
       continuation) over an in-process server with faults injected on the method's URL   vs `C38.client`
O (the property, evaluated directly on what the implementation did)
    sends <= max_retries + 1; a transmission is followed by another one only if it met a retryable status /
    ConnectError / timeout / disconnect-before-response (the last three only with retry_on_connection_error);
    every sleep is a number in [0, backoff_max]; nothing but the transport's own exception or HttpTransientError
    escapes; exchange POSTs <= 1 (+1 only right after a 413), cancel POSTs <= 1; an accepted configuration has
    finite bounds >= 0.
    F  re-entrant API use: `on_log` (which runs while exchange() / iteration / next_with_token() / cancel() reads a
       response) calls cancel() / close() on the same session, followed by more operations and routine cancel()s; POSTs
       are counted per logical request (one exchange() call; the cancel of one stream).
    E  real sockets: what the installed httpx2 raises for "peer closed before any byte" / "closed mid-response" /
       refused / timed out is classified as the model's fault alphabet says.

Floats travel to the driver as exact fractions (`float.as_integer_ratio()`); `random.uniform` is pinned to
`a + (b - a) * r` with `r` from a list of dyadic fractions chosen so that every product is exact in binary64;
`datetime.now` inside `_retry` is pinned so HTTP-date deltas are exact.
"""

import contextlib
import email.utils
import itertools
import math
import socket
import threading
import time
import types
from dataclasses import dataclass
from datetime import UTC, datetime, timedelta, timezone
from fractions import Fraction
from typing import Any, Protocol

import httpx2
import pyarrow as pa
import pyarrow.compute as pc

from vgi_rpc.http import _client as C
from vgi_rpc.http import _retry as R
from vgi_rpc.http import http_connect, make_sync_client
from vgi_rpc.http._testing import _SyncTestResponse
from vgi_rpc.log import Level
from vgi_rpc.rpc import (
    AnnotatedBatch,
    CallContext,
    ExchangeState,
    OutputCollector,
    ProducerState,
    RpcError,
    RpcServer,
    Stream,
)

PROPERTY = "C38"
LEAN_MODULES = ["VgiVerif.Proofs.C38"]
OBLIGATIONS = [
    "VgiVerif.C38.C38_shapes",
    "VgiVerif.C38.C38_validate",
    "VgiVerif.C38.C38_default_valid",
    "VgiVerif.C38.C38_delay",
    "VgiVerif.C38.C38_count",
    "VgiVerif.C38.C38_reason",
    "VgiVerif.C38.C38_wait",
    "VgiVerif.C38.C38_outcome",
    "VgiVerif.C38.C38_once_exchange",
    "VgiVerif.C38.C38_once_cancel",
    "VgiVerif.C38.C38_cancel_idempotent",
    "VgiVerif.C38.C38_sites",
    "VgiVerif.C38.C38_client",
    "VgiVerif.C38.C38_client_noretry",
]
TRUSTED = [
    "binary64 rounding is not modelled: delays are exact rationals; the harness only uses (base, attempt, jitter) "
    "combinations whose products are exact, and the bounds 0 <= d <= backoff_max survive rounding because min/max "
    "are exact and rounding is monotone",
    "config fields are Python floats, or ints below 2**1024 (float(int) of a larger int raises OverflowError)",
    "random.uniform(0, e) is CPython's `a + (b - a) * random()` with 0 <= random() < 1",
    "classification of a Retry-After header text (seconds / HTTP-date / naive date / garbage) is by construction of "
    "the generator; float() and email.utils.parsedate_to_datetime are exercised, not modelled",
    "the transport is a fault script: what httpx2 raises for real network events is sampled on loopback sockets (E), "
    "not modelled",
    "the client call-site model is the POST skeleton extracted from _client.py (guards, retry wrapper, externalize "
    "order); bodies, codecs and Arrow framing are exercised, not modelled; `_externalize_request_body` is stubbed "
    "(it talks to other URLs)",
    "time.sleep itself is replaced by a recorder (the injected `_sleep`)",
]
RULE = (
    "configs: core list + seeded sample of the grid max_retries x backoff_base x backoff_max x retryable set x "
    "retry_on_connection_error x respect_retry_after (incl. NaN/inf/negative/int/denormal/huge fields for A and B); "
    "C: behaviour-pruned exhaustive enumeration of fault sequences up to length max_retries+2 over the alphabet "
    "{ConnectError, timeout, disconnect-before-response, other error, statuses of every class + all retryable ones} x "
    "Retry-After {absent, seconds, negative, NaN, +inf, -inf, HTTP-date future/past, naive date, garbage} (a sequence is "
    "extended only while the implementation consumed all of it: longer sequences behave like their consumed prefix), "
    "plus sweeps over every status 100..599, every httpx2 exception class and every header spelling; D: every script of "
    "length <= 3 over a call-site alphabet x {no retry config, configs} x {415 refresh yes/no} x {externalize ok/fails}; "
    "F: every operation sequence of length <= 2 (thorough 3) over {exchange | next / next_with_token, cancel, close} + two "
    "routine cancels x on_log action {none, cancel, close, cancel twice, cancel+close} fired at the 1st / 2nd log x server "
    "on_cancel logging or not, for an exchange stream and a producer stream whose turns log before their data; "
    "a case is non-trivial when at least one fault is injected; distinct by (part, config, script, jitter)"
)
PARTIAL = [
    "real elapsed time is not observed (the sleep function is injected)",
    "retries inside httpx2's own transport (HTTPTransport(retries=...)) are outside the model; the client never sets them",
]
MANIFEST = {
    "level": "proof",
    "text": "Lean theorems over an executable transliteration of _retry.py (config validation, _compute_delay with "
            "Python's NaN-aware min/max, the retry loop) and of the POST skeleton of the client methods: for every "
            "configuration, every fault script of any length and every jitter stream, sends <= max_retries+1, every "
            "re-send follows a retryable fault, every sleep is a number in [0, backoff_max], the result reports the "
            "last transmission; exchange posts at most twice and twice only after a 413, cancel at most once.",
    "note": "binary64 rounding, the header-text classifier and the transport's exception vocabulary are trusted and "
            "sampled differentially; shapes of the code are re-extracted on every run.",
    "technique": "Lean 4 proof: induction over the loop fuel / call-site list, case analysis over Python float "
                 "specials + exhaustive differential correspondence on pruned fault-sequence tries",
}

NOW = datetime(2030, 1, 1, 0, 0, 0, tzinfo=UTC)
MARKER_TEXT = "Server disconnected without sending a response."

# ------------------------------------------------------------------------------------------------ reporting

_PER_KEY: dict[str, int] = {}


def _fail(ctx: Any, case: Any, key: str, what: str) -> None:
    """Report a property failure; keep at most 5 inputs per key so that every distinct key surfaces."""
    _PER_KEY[key] = _PER_KEY.get(key, 0) + 1
    if _PER_KEY[key] <= 5:
        ctx.fail(case, key, what)
    else:
        ctx.notes["failures_not_listed"] = ctx.notes.get("failures_not_listed", 0) + 1


def saturated(ctx: Any) -> bool:
    """Enough failing inputs were collected: more enumeration cannot add information."""
    return len(ctx.failures) >= 200 or sum(_PER_KEY.values()) >= 5000


# ------------------------------------------------------------------------------------------------ numbers


def fj(x: Any) -> Any:
    """Python number -> driver float JSON ("nan" | "inf" | "-inf" | [num, den])."""
    if isinstance(x, bool):
        raise TypeError("bool is not a number here")
    if isinstance(x, int):
        return [x, 1]
    if x != x:
        return "nan"
    if x == math.inf:
        return "inf"
    if x == -math.inf:
        return "-inf"
    n, d = x.as_integer_ratio()
    return [n, d]


def num_repr(x: Any) -> Any:
    """Exact, JSON-able, replayable form of a config number."""
    if isinstance(x, int) and not isinstance(x, bool):
        return {"int": str(x)}
    if x != x:
        return {"float": "nan"}
    if x in (math.inf, -math.inf):
        return {"float": "inf" if x > 0 else "-inf"}
    return {"float": float(x).hex()}


def num_parse(j: Any) -> Any:
    if "int" in j:
        return int(j["int"])
    s = j["float"]
    if s in ("nan", "inf", "-inf"):
        return float(s)
    return float.fromhex(s)


def is_number(x: Any) -> bool:
    return isinstance(x, (int, float)) and not isinstance(x, bool)


# ------------------------------------------------------------------------------------------------ configs


def cfg_case(mr: int, base: Any, mx: Any, codes: Any, conn: bool, ra: bool) -> dict[str, Any]:
    return {"max_retries": mr, "backoff_base": num_repr(base), "backoff_max": num_repr(mx),
            "retryable": sorted(codes), "retry_on_conn": conn, "respect_ra": ra}


def cfg_json(c: dict[str, Any]) -> dict[str, Any]:
    return {"max_retries": c["max_retries"], "backoff_base": fj(num_parse(c["backoff_base"])),
            "backoff_max": fj(num_parse(c["backoff_max"])), "retryable": c["retryable"],
            "retry_on_conn": c["retry_on_conn"], "respect_ra": c["respect_ra"]}


def cfg_obj(c: dict[str, Any]) -> R.HttpRetryConfig:
    return R.HttpRetryConfig(max_retries=c["max_retries"], backoff_base=num_parse(c["backoff_base"]),
                             backoff_max=num_parse(c["backoff_max"]), retryable_status_codes=frozenset(c["retryable"]),
                             retry_on_connection_error=c["retry_on_conn"], respect_retry_after=c["respect_ra"])


DEFAULT_SET = [429, 502, 503, 504]
SETS = [DEFAULT_SET, [500], [], [200, 503], [413, 415, 429], [404, 503, 599]]
BASES_OK: list[Any] = [0.0, 0.5, 1.0, 3.0, 0.001, 2.0**-1074, 2.0**1023, 1, 0, 2.0**-30]
MAXES_OK: list[Any] = [0.0, 0.25, 1.0, 30.0, 1e300, 2, 2.0**-40]
SPECIAL: list[Any] = [math.nan, math.inf, -math.inf, -1.0, -0.0, -(2.0**-1074), -1, 2.0**1023, 1.7976931348623157e308]

MIXED_JIT = [Fraction(1, 2), Fraction(0), Fraction(3, 4), Fraction(1, 8), Fraction(2**53 - 1, 2**53), Fraction(1, 4)]
POW2_JIT = [Fraction(1, 2), Fraction(0), Fraction(1, 4), Fraction(1, 8)]


def exact_products(base: Any, attempts: int, jit: list[Fraction]) -> bool:
    """Are all `base * 2**k * r` exact in binary64 (k < attempts, r in jit)?"""
    try:
        b = float(base)
    except OverflowError:
        return False
    for k in range(attempts):
        e = b * 2.0 ** min(k, 1023)
        if e == math.inf:
            continue
        if Fraction(e) != Fraction(b) * 2**k:
            return False
        for r in jit:
            rf = float(r)
            if Fraction(rf) != r or Fraction(e * rf) != Fraction(e) * r:
                return False
    return True


def jitter_for(base: Any, attempts: int, rot: int) -> list[Fraction]:
    for cand in (MIXED_JIT, POW2_JIT, [Fraction(0)]):
        if exact_products(base, attempts, cand):
            k = rot % len(cand)
            return cand[k:] + cand[:k]
    return [Fraction(0)]


def jit_json(jit: list[Fraction]) -> list[list[int]]:
    return [[r.numerator, r.denominator] for r in jit]


# ------------------------------------------------------------------------------------------------ Retry-After


def _fmt_date(delta: int, zone: str) -> str:
    dt = NOW + timedelta(seconds=delta)
    if zone == "GMT":
        return email.utils.format_datetime(dt, usegmt=True)
    if zone == "UT":
        return email.utils.format_datetime(dt, usegmt=True).replace("GMT", "UT")
    sign = 1 if zone[0] == "+" else -1
    off = timedelta(hours=int(zone[1:3]), minutes=int(zone[3:5])) * sign
    return email.utils.format_datetime(dt.astimezone(timezone(off)))


def ra_catalogue() -> dict[str, list[dict[str, Any]]]:
    """class -> list of {json (model RA), text (header value or None)}; class membership is by construction."""
    cat: dict[str, list[dict[str, Any]]] = {}
    cat["absent"] = [{"json": None, "text": None}]
    secs = [("0", 0), ("5", 5), ("0.5", Fraction(1, 2)), ("2.5e1", 25), (" 7 ", 7), ("1_0", 10), ("+3", 3),
            ("١٢", 12), ("100000000000", 10**11), ("1e-400", 0), ("0.25", Fraction(1, 4)), ("31", 31),
            ("\t2\n", 2), ("1e300", Fraction(1e300))]
    cat["secs"] = [{"json": {"secs": [Fraction(v).numerator, Fraction(v).denominator]}, "text": t} for t, v in secs]
    neg = [("-5", -5), ("-0.5", Fraction(-1, 2)), ("-0", 0), ("-1e300", Fraction(-1e300)), ("-1_000", -1000)]
    cat["neg"] = [{"json": {"secs": [Fraction(v).numerator, Fraction(v).denominator]}, "text": t} for t, v in neg]
    for t, v in secs + neg:  # the decimal -> binary64 conversion of these literals is exact
        assert Fraction(float(t)) == Fraction(v), t
    cat["nan"] = [{"json": {"secs": "nan"}, "text": t} for t in ("nan", "NaN", "-nan", "+NAN", " nan ")]
    cat["inf"] = [{"json": {"secs": "inf"}, "text": t} for t in ("inf", "Infinity", "+inf", "1e999", "INF", "iNfIniTy")]
    cat["-inf"] = [{"json": {"secs": "-inf"}, "text": t} for t in ("-inf", "-Infinity", "-1e999")]
    fut, past = [], []
    for delta in (1, 7, 120, 86400 * 400, 10**9):
        for zone in ("GMT", "+0000", "-0500", "+0530", "UT"):
            fut.append({"json": {"date": [delta, 1]}, "text": _fmt_date(delta, zone)})
    for delta in (0, -1, -3600, -86400 * 365):
        for zone in ("GMT", "+0000", "-0800", "+0100"):
            past.append({"json": {"date": [delta, 1]}, "text": _fmt_date(delta, zone)})
    cat["date_future"] = fut
    cat["date_past"] = past
    cat["naive"] = [{"json": "naive", "text": t} for t in
                    ("Wed, 21 Oct 2015 07:28:00 -0000", "Wed, 21 Oct 2015 07:28:00", "Tue, 01 Jan 2030 00:00:05 -0000")]
    cat["garbage"] = [{"json": "garbage", "text": t} for t in
                      ("", " ", "soon", "1 2", "0x10", "1,5", "five", "12:00", "Wed, 99 Oct 2015 07:28:00 GMT", "--5", "1e",
                       "∞", "½", "5s", "1.2.3", "Tue, 01 Jan 2030", "nan nan", "in​f")]
    return cat


RA_CAT = ra_catalogue()
RA_CLASSES_FULL = ["absent", "secs", "neg", "nan", "inf", "-inf", "date_future", "date_past", "naive", "garbage"]
HEADER_KEYS = ["Retry-After", "retry-after", "RETRY-AFTER"]

# ------------------------------------------------------------------------------------------------ faults

TIMEOUT_CLASSES = ["ReadTimeout", "ConnectTimeout", "WriteTimeout", "PoolTimeout", "TimeoutException"]
OTHER_EXC: list[tuple[str, str]] = [
    ("RemoteProtocolError", "peer closed connection without sending complete message body (received 3 bytes, expected 100)"),
    ("RemoteProtocolError", "illegal status line"),
    ("RemoteProtocolError", ""),
    ("LocalProtocolError", "Too little data for declared Content-Length"),
    ("ReadError", "[Errno 104] Connection reset by peer"),
    ("WriteError", "[Errno 32] Broken pipe"),
    ("CloseError", "x"),
    ("NetworkError", "x"),
    ("ProxyError", "x"),
    ("UnsupportedProtocol", "x"),
    ("DecodingError", "x"),
    ("TooManyRedirects", "x"),
    ("ProtocolError", "x"),
    ("TransportError", "x"),
    ("builtins.ValueError", "x"),
    ("builtins.RuntimeError", "without sending a response"),
    ("builtins.OSError", "x"),
    ("LocalProtocolError", "Server disconnected without sending a response."),
]


def sym_exc(kind: str, variant: int = 0) -> dict[str, Any]:
    return {"kind": kind, "v": variant}


def sym_status(code: int, ra_cls: str = "absent", ra_idx: int = 0, key: int = 0, hdr: str = "dict") -> dict[str, Any]:
    return {"kind": "status", "code": code, "ra": ra_cls, "i": ra_idx % len(RA_CAT[ra_cls]), "key": key % len(HEADER_KEYS), "hdr": hdr}


def sym_model(s: dict[str, Any]) -> Any:
    if s["kind"] == "status":
        return {"status": s["code"], "ra": RA_CAT[s["ra"]][s["i"]]["json"]}
    return s["kind"]


class FakeResp:
    __slots__ = ("content", "headers", "status_code")

    def __init__(self, status_code: int, headers: Any) -> None:
        self.status_code = status_code
        self.headers = headers
        self.content = b"<html>fault</html>"


def make_exc(s: dict[str, Any]) -> BaseException:
    k = s["kind"]
    if k == "connect":
        return httpx2.ConnectError(["Connection refused", "", "without sending a response"][s["v"] % 3])
    if k == "timeout":
        return getattr(httpx2, TIMEOUT_CLASSES[s["v"] % len(TIMEOUT_CLASSES)])("timed out")
    if k == "disconnect":
        return httpx2.RemoteProtocolError([MARKER_TEXT, "xx without sending a response yy"][s["v"] % 2])
    name, msg = OTHER_EXC[s["v"] % len(OTHER_EXC)]
    if name.startswith("builtins."):
        return {"ValueError": ValueError, "RuntimeError": RuntimeError, "OSError": OSError}[name.split(".")[1]](msg)
    return getattr(httpx2, name)(msg)


def ra_headers(s: dict[str, Any]) -> dict[str, str]:
    text = RA_CAT[s["ra"]][s["i"]]["text"]
    return {} if text is None else {HEADER_KEYS[s["key"]]: text}


def realise(s: dict[str, Any]) -> Any:
    """A fault symbol as the transport presents it: raises, or returns a response object."""
    if s["kind"] != "status":
        raise make_exc(s)
    h = ra_headers(s)
    if s.get("hdr") == "httpx" and all(v.isascii() and v == v.strip() and v for v in h.values()):
        return httpx2.Response(s["code"], headers=h, content=b"<html>fault</html>")
    return FakeResp(s["code"], h)


# ------------------------------------------------------------------------------------------------ pinning


class _PinnedDatetime(datetime):
    @classmethod
    def now(cls, tz: Any = None) -> datetime:  # type: ignore[override]
        return NOW if tz is not None else NOW.replace(tzinfo=None)


class Pin:
    """Pins `random.uniform` and `datetime.now` inside vgi_rpc.http._retry and the default `_sleep` of the wrappers."""

    def __init__(self) -> None:
        self.jit: list[float] = [0.0]
        self.draws = 0
        self.events: list[tuple[str, Any]] = []

    def uniform(self, a: Any, b: Any) -> Any:
        r = self.jit[self.draws % len(self.jit)]
        self.draws += 1
        return a + (b - a) * r

    def sleep(self, d: Any) -> None:
        self.events.append(("sleep", d))

    def reset(self, jit: list[Fraction]) -> None:
        self.jit = [float(r) for r in jit]
        self.draws = 0
        self.events = []

    def __enter__(self) -> Any:
        self._saved = (R.random, R.datetime, dict(R._post_with_retry.__kwdefaults__), dict(R._options_with_retry.__kwdefaults__),
                       dict(R._request_with_retry.__kwdefaults__))
        R.random = types.SimpleNamespace(uniform=self.uniform)  # type: ignore[assignment]
        R.datetime = _PinnedDatetime  # type: ignore[misc,assignment]
        for fn in (R._post_with_retry, R._options_with_retry, R._request_with_retry):
            fn.__kwdefaults__["_sleep"] = self.sleep
        return self

    def __exit__(self, *a: Any) -> None:
        R.random, R.datetime = self._saved[0], self._saved[1]  # type: ignore[misc]
        R._post_with_retry.__kwdefaults__.update(self._saved[2])
        R._options_with_retry.__kwdefaults__.update(self._saved[3])
        R._request_with_retry.__kwdefaults__.update(self._saved[4])


def steps_of(events: list[tuple[str, Any]]) -> tuple[list[dict[str, Any]], list[str]]:
    """[("send", i) | ("sleep", d)] -> [{"i": i, "slept": d|None}], anomalies."""
    steps: list[dict[str, Any]] = []
    bad: list[str] = []
    for kind, v in events:
        if kind == "send":
            steps.append({"i": v, "slept": None, "has_sleep": False})
        elif not steps:
            bad.append("sleep-before-first-send")
        elif steps[-1]["has_sleep"]:
            bad.append("two-sleeps-between-sends")
        else:
            steps[-1]["slept"] = v
            steps[-1]["has_sleep"] = True
    return steps, bad


# ------------------------------------------------------------------------------------------------ the spec, in Python


def spec_retryable(c: dict[str, Any], s: dict[str, Any] | None) -> bool:
    """May the transmission that met `s` be followed by another one? (`None` = the transport answered a plain 200.)"""
    if s is None:
        return 200 in c["retryable"]
    if s["kind"] == "status":
        return s["code"] in c["retryable"]
    if s["kind"] in ("connect", "timeout", "disconnect"):
        return bool(c["retry_on_conn"])
    return False


def check_waits(ctx: Any, case: Any, c: dict[str, Any], sleeps: list[Any], where: str) -> bool:
    mx = num_parse(c["backoff_max"])
    for d in sleeps:
        if not is_number(d) or d != d:
            _fail(ctx, case, f"C38:{where}:sleep-not-a-number", f"slept {d!r}")
            return False
        if d < 0:
            _fail(ctx, case, f"C38:{where}:sleep-negative", f"slept {d!r}")
            return False
        if not (d <= mx):
            _fail(ctx, case, f"C38:{where}:sleep-above-backoff-max", f"slept {d!r} with backoff_max {mx!r}")
            return False
    return True


# ------------------------------------------------------------------------------------------------ A: validation


def run_validation(ctx: Any) -> None:
    rng = ctx.rng
    vals = BASES_OK + MAXES_OK + SPECIAL
    combos = []
    for mr in (-1, 0, 3, -(10**30), 10**6):
        for b in vals:
            combos.append((mr, b, 1.0))
            combos.append((mr, 0.5, b))
    for _ in range(ctx.budget(150, 2000)):
        combos.append((rng.choice([-2, -1, 0, 1, 7]), rng.choice(vals), rng.choice(vals)))
    reqs = []
    cases = []
    for mr, b, m in combos:
        c = cfg_case(mr, b, m, DEFAULT_SET, True, True)
        cases.append(c)
        reqs.append(("C38.validate", {"cfg": cfg_json(c)}))
    res = ctx.driver.batch(reqs) if ctx.driver is not None else [None] * len(reqs)
    for c, m in zip(cases, res):
        case = {"part": "validate", "cfg": c}
        check_validation(ctx, case, m)


def check_validation(ctx: Any, case: dict[str, Any], model: Any) -> None:
    c = case["cfg"]
    try:
        cfg_obj(c)
        impl = None
    except ValueError as e:
        msg = str(e)
        impl = next((f for f in ("max_retries", "backoff_base", "backoff_max") if msg.startswith(f)), "?")
    b, m = num_parse(c["backoff_base"]), num_parse(c["backoff_max"])
    finite = all(x == x and x not in (math.inf, -math.inf) and x >= 0 for x in (b, m))
    ctx.case(case, nontrivial=True, tags=("part:validate", "accepted" if impl is None else f"rejected:{impl}"))
    if impl is None and not (c["max_retries"] >= 0 and finite):
        _fail(ctx, case, "C38:config-accepts-nonfinite-or-negative",
                 f"HttpRetryConfig accepted max_retries={c['max_retries']} backoff_base={b!r} backoff_max={m!r}: no bound "
                 f"0 <= wait <= backoff_max can hold")
    if impl is not None and c["max_retries"] >= 0 and finite:
        _fail(ctx, case, "C38:config-rejects-valid", f"HttpRetryConfig rejected a finite non-negative configuration ({impl})")
    if ctx.driver is not None and model != impl:
        ctx.mismatch(case, model, impl, "HttpRetryConfig validation: model vs implementation")


# ------------------------------------------------------------------------------------------------ B: _compute_delay

RA_VALUES: list[Any] = [None, math.nan, math.inf, -math.inf, -5.0, -0.0, 0.0, 0.125, 1.0, 29.5, 30.0, 31.0, 1e300, 2.0**-1074, 7]
ATTEMPTS = [0, 1, 2, 3, 10, 62, 63, 64, 1021, 1022, 1023, 1024, 1025, 2047, 5000, 65536]  # (2**n is computed by unrepaired code)


def run_delay(ctx: Any, pin: Pin) -> None:
    rng = ctx.rng
    combos = []
    bases = BASES_OK
    maxes = MAXES_OK
    for b in bases:
        for m in maxes:
            for a in ATTEMPTS:
                combos.append((b, m, a, rng.choice(RA_VALUES), rng.random() < 0.8))
    for _ in range(ctx.budget(1500, 40000)):
        combos.append((rng.choice(bases), rng.choice(maxes), rng.choice(ATTEMPTS), rng.choice(RA_VALUES), rng.random() < 0.8))
    for ra in RA_VALUES:  # the full Retry-After value space against the default-like bounds
        for a in (0, 1, 5, 1023, 1024):
            combos.append((0.5, 30.0, a, ra, True))
            combos.append((1.0, 0.0, a, ra, True))
    reqs, cases = [], []
    for i, (b, m, a, ra, respect) in enumerate(combos):
        c = cfg_case(10**9, b, m, DEFAULT_SET, True, respect)
        # attempts are probed individually: exactness only matters for this attempt's ceiling
        rot = i % len(MIXED_JIT)
        r = pick_exact_r(b, a, MIXED_JIT[rot:] + MIXED_JIT[:rot])
        case = {"part": "delay", "cfg": c, "attempt": a, "ra": None if ra is None else num_repr(ra), "r": [r.numerator, r.denominator]}
        cases.append(case)
        reqs.append(("C38.delay", {"cfg": cfg_json(c), "attempt": a, "ra": None if ra is None else fj(ra), "r": case["r"]}))
    res = ctx.driver.batch(reqs) if ctx.driver is not None else [None] * len(reqs)
    for case, m in zip(cases, res):
        check_delay(ctx, pin, case, m)


def pick_exact_r(base: Any, attempt: int, jit: list[Fraction]) -> Fraction:
    b = float(base)
    e = b * 2.0 ** min(attempt, 1023)
    for r in jit:
        if e == math.inf or (Fraction(e) == Fraction(b) * 2 ** min(attempt, 1023) and Fraction(e * float(r)) == Fraction(e) * r):
            return r
    return Fraction(0)


def check_delay(ctx: Any, pin: Pin, case: dict[str, Any], model: Any) -> None:
    c = case["cfg"]
    cfg = cfg_obj(c)
    ra = None if case["ra"] is None else num_parse(case["ra"])
    pin.reset([Fraction(case["r"][0], case["r"][1])])
    try:
        d = R._compute_delay(case["attempt"], cfg, ra)
        impl: Any = {"delay": fj(d), "drew": pin.draws == 1}
    except Exception as e:  # noqa: BLE001
        d = None
        impl = {"exc": "overflow" if isinstance(e, OverflowError) else type(e).__name__}
    tags = ["part:delay", f"ra:{'none' if ra is None else ('nan' if ra != ra else ('inf' if abs(ra) == math.inf else ('neg' if ra < 0 else 'num')))}",
            "attempt:>=1024" if case["attempt"] >= 1024 else "attempt:<1024"]
    ctx.case(case, nontrivial=True, tags=tuple(tags))
    if d is None:
        _fail(ctx, case, f"C38:delay:raises:{impl['exc']}", f"_compute_delay raised {impl['exc']} for attempt {case['attempt']}")
    else:
        check_waits(ctx, case, c, [d], "delay")
    if ctx.driver is not None and model != impl:
        ctx.mismatch(case, model, impl, "_compute_delay: model vs implementation")


# ------------------------------------------------------------------------------------------------ C: the retry loop


def exec_run(pin: Pin, c: dict[str, Any], script: list[dict[str, Any]], jit: list[Fraction]) -> dict[str, Any]:
    cfg = cfg_obj(c)
    pin.reset(jit)
    idx = [0]
    injected: list[BaseException] = []

    def make_request() -> Any:
        i = idx[0]
        idx[0] += 1
        pin.events.append(("send", i))
        if i < len(script):
            s = script[i]
            if s["kind"] != "status":
                e = make_exc(s)
                injected.append(e)
                raise e
            return realise(s)
        return FakeResp(200, {})

    try:
        resp = R._request_with_retry(make_request, config=cfg, method_label="POST", url="/x", _sleep=pin.sleep)
        outcome: Any = {"resp": resp.status_code}
    except R.HttpTransientError as e:
        outcome = {"transient": e.status_code, "retry_after": None if e.retry_after is None else fj(e.retry_after)}
    except BaseException as e:  # noqa: BLE001
        if injected and e is injected[-1]:
            outcome = {"raised": script[idx[0] - 1]["kind"]}
        else:
            outcome = {"raised": "overflow" if isinstance(e, OverflowError) else f"unexpected:{type(e).__name__}"}
    steps, bad = steps_of(pin.events)
    return {"steps": steps, "outcome": outcome, "draws": pin.draws, "anomalies": bad, "sends": idx[0]}


def oracle_run(ctx: Any, case: dict[str, Any], c: dict[str, Any], script: list[dict[str, Any]], obs: dict[str, Any]) -> None:
    mr = c["max_retries"]
    n = obs["sends"]
    if n > mr + 1:
        _fail(ctx, case, "C38:run:too-many-sends", f"{n} transmissions with max_retries={mr}")
        return
    for k in range(n - 1):
        s = script[k] if k < len(script) else None
        if not spec_retryable(c, s):
            if s is None or s["kind"] == "status":
                code = 200 if s is None else s["code"]
                key, what = f"status:{code}", f"status {code}"
            else:
                key, what = s["kind"], s["kind"]
            _fail(ctx, case, f"C38:run:resend-after-{key}",
                     f"transmission {k + 1} met {what}, which is not retryable under this configuration, and was re-sent")
            return
    if not check_waits(ctx, case, c, [st["slept"] for st in obs["steps"] if st["has_sleep"]], "run"):
        return
    o = obs["outcome"]
    if "raised" in o and (o["raised"] == "overflow" or o["raised"].startswith("unexpected")):
        _fail(ctx, case, f"C38:run:raises:{o['raised']}", f"the retry loop raised {o['raised']} instead of a response / the transport error")
    for a in obs["anomalies"]:
        _fail(ctx, case, f"C38:run:{a}", a)


def compare_run(ctx: Any, case: dict[str, Any], script: list[dict[str, Any]], obs: dict[str, Any], model: Any) -> None:
    if model is None:
        return
    impl = {"steps": [{"f": sym_model(script[st["i"]]) if st["i"] < len(script) else {"status": 200, "ra": None},
                       "slept": fj(st["slept"]) if st["has_sleep"] else None} for st in obs["steps"]],
            "outcome": obs["outcome"], "draws": obs["draws"]}
    if impl != model:
        ctx.mismatch(case, model, impl, "_request_with_retry: model vs implementation")


def run_tags(c: dict[str, Any], script: list[dict[str, Any]], obs: dict[str, Any]) -> tuple[str, ...]:
    o = obs["outcome"]
    out = "resp" if "resp" in o else ("transient" if "transient" in o else "raised")
    t = ["part:run", f"mr:{c['max_retries']}", f"len:{len(script)}", f"sends:{obs['sends']}", f"outcome:{out}"]
    for s in script[: obs["sends"]]:
        t.append(f"fault:{s['kind']}" if s["kind"] != "status" else f"ra:{s['ra']}")
    return tuple(t)


def alphabet(c: dict[str, Any], level: str, rng: Any) -> list[dict[str, Any]]:
    """Fault symbols for exhaustive enumeration under config `c`; spellings / exception variants are drawn per symbol."""
    out: list[dict[str, Any]] = []
    out.append(sym_exc("connect", rng.randrange(3)))
    out.append(sym_exc("timeout", rng.randrange(len(TIMEOUT_CLASSES))))
    out.append(sym_exc("disconnect", rng.randrange(2)))
    out.append(sym_exc("other", rng.randrange(len(OTHER_EXC))))
    retryable = list(c["retryable"])
    plain = [x for x in (200, 204, 301, 400, 404, 413, 415, 500, 599) if x not in retryable]
    if level == "small":
        plain = plain[:1] + [x for x in plain if x in (400, 500)][:1]
    elif level == "medium":
        plain = [x for x in plain if x in (200, 301, 400, 413, 500, 599)]
    for code in plain:
        out.append(sym_status(code))
    if plain:
        out.append(sym_status(plain[-1], "secs", rng.randrange(50), rng.randrange(3)))
    if level == "full":
        full_ra, few = retryable[:2], retryable[2:]
        classes = RA_CLASSES_FULL
    elif level == "medium":
        full_ra, few = retryable[:1], retryable[1:3]
        classes = RA_CLASSES_FULL
    else:
        full_ra, few = retryable[:1], retryable[1:2]
        classes = ["absent", "secs", "nan", "inf", "neg", "date_future"]
    for code in full_ra:
        for cls in classes:
            out.append(sym_status(code, cls, rng.randrange(50), rng.randrange(3), "httpx" if rng.random() < 0.3 else "dict"))
    for code in few:
        out.append(sym_status(code))
        if level != "small":
            out.append(sym_status(code, "secs", rng.randrange(50), rng.randrange(3)))
    return out


def enumerate_runs(ctx: Any, pin: Pin, c: dict[str, Any], level: str, rot: int) -> int:
    """Behaviour-pruned exhaustive enumeration of fault sequences of length <= max_retries + 2."""
    rng = ctx.rng
    mr = c["max_retries"]
    jit = jitter_for(num_parse(c["backoff_base"]), mr + 2, rot)
    cj, jj = cfg_json(c), jit_json(jit)
    alpha = alphabet(c, level, rng)
    frontier: list[list[dict[str, Any]]] = [[]]
    total = 0
    for _depth in range(mr + 2):
        scripts = [p + [x] for p in frontier for x in alpha]
        if not scripts or saturated(ctx):
            break
        models = (ctx.driver.batch([("C38.run", {"cfg": cj, "script": [sym_model(s) for s in sc], "jit": jj}) for sc in scripts])
                  if ctx.driver is not None else [None] * len(scripts))
        frontier = []
        for sc, m in zip(scripts, models):
            case = {"part": "run", "cfg": c, "script": sc, "jit": jj}
            obs = exec_run(pin, c, sc, jit)
            ctx.case(case, nontrivial=True, tags=run_tags(c, sc, obs))
            oracle_run(ctx, case, c, sc, obs)
            compare_run(ctx, case, sc, obs, m)
            total += 1
            if obs["sends"] > len(sc):  # the whole script was consumed: longer scripts can behave differently
                frontier.append(sc)
    return total


def core_configs(mr: int) -> list[dict[str, Any]]:
    return [
        cfg_case(mr, 0.5, 30.0, DEFAULT_SET, True, True),
        cfg_case(mr, 0.5, 30.0, DEFAULT_SET, False, False),
        cfg_case(mr, 1.0, 0.25, [500], True, True),
        cfg_case(mr, 0.0, 0.0, DEFAULT_SET, True, True),
        cfg_case(mr, 2.0**1023, 1.0, [200, 503], True, True),
        cfg_case(mr, 1, 2, [], True, True),
        cfg_case(mr, 0.001, 1e300, [413, 415, 429], True, True),
    ]


def random_config(rng: Any, mr: int) -> dict[str, Any]:
    return cfg_case(mr, rng.choice(BASES_OK), rng.choice(MAXES_OK), rng.choice(SETS), rng.random() < 0.7, rng.random() < 0.7)


def run_loop(ctx: Any, pin: Pin) -> None:
    rng = ctx.rng
    thorough = ctx.tier == "thorough"
    deep = ctx.deep and not thorough  # a proof / the correspondence is broken: search harder, but stay within minutes
    plan: list[tuple[dict[str, Any], str]] = []
    for mr in (0, 1):
        for c in core_configs(mr):
            plan.append((c, "full"))
        for _ in range(ctx.budget(6, 60)):
            plan.append((random_config(rng, mr), "full"))
    plan.append((core_configs(2)[0], "full" if thorough else "medium"))
    plan.append((random_config(rng, 2), "medium"))
    for c in core_configs(2)[1:]:
        plan.append((c, "medium" if (thorough or deep) else "small"))
    if deep:
        plan.append((core_configs(3)[0], "small"))
    if thorough:
        for _ in range(6):
            plan.append((random_config(rng, 2), "medium"))
        plan.append((core_configs(3)[0], "medium"))
        for c in core_configs(3)[1:4]:
            plan.append((c, "small"))
        plan.append((core_configs(4)[0], "small"))
        plan.append((random_config(rng, 4), "small"))
    per_mr: dict[int, int] = {}
    for i, (c, level) in enumerate(plan):
        if saturated(ctx):
            break
        n = enumerate_runs(ctx, pin, c, level, i)
        per_mr[c["max_retries"]] = per_mr.get(c["max_retries"], 0) + n
    ctx.note("run_sequences_by_max_retries", per_mr)
    ctx.note("exhaustive_up_to_max_retries", 4 if thorough else (3 if deep else 2))

    # sweeps: every status code, every exception variant, every header spelling
    sweep: list[tuple[dict[str, Any], list[dict[str, Any]]]] = []
    cfgs = [cfg_case(1, 0.5, 30.0, DEFAULT_SET, True, True), cfg_case(1, 0.5, 30.0, [404, 503, 599], True, True),
            cfg_case(2, 1.0, 1.0, [200, 503], False, True)]
    for c in cfgs:
        for code in list(range(100, 600)) + [0, 600, 999]:
            sweep.append((c, [sym_status(code)]))
            if code % 7 == 0 or code in c["retryable"]:
                sweep.append((c, [sym_status(code, "secs", code), sym_exc("connect")]))
    for c in cfgs[:2] + [cfg_case(2, 0.5, 30.0, DEFAULT_SET, False, True)]:
        for kind, n in (("connect", 3), ("timeout", len(TIMEOUT_CLASSES)), ("disconnect", 2), ("other", len(OTHER_EXC))):
            for v in range(n):
                sweep.append((c, [sym_exc(kind, v)]))
                sweep.append((c, [sym_status(503), sym_exc(kind, v)]))
                sweep.append((c, [sym_exc(kind, v), sym_exc(kind, v), sym_exc(kind, v), sym_exc(kind, v)]))
    for c in (cfg_case(1, 0.5, 30.0, DEFAULT_SET, True, True), cfg_case(1, 0.0, 0.25, DEFAULT_SET, True, True),
              cfg_case(1, 1.0, 1e300, DEFAULT_SET, True, False)):
        for cls, entries in RA_CAT.items():
            for i in range(len(entries)):
                for key in range(len(HEADER_KEYS)):
                    sweep.append((c, [sym_status(503, cls, i, key, "dict")]))
                sweep.append((c, [sym_status(429, cls, i, 0, "httpx")]))
    reqs = []
    jits = []
    for k, (c, sc) in enumerate(sweep):
        jit = jitter_for(num_parse(c["backoff_base"]), c["max_retries"] + 2, k)
        jits.append(jit)
        reqs.append(("C38.run", {"cfg": cfg_json(c), "script": [sym_model(s) for s in sc], "jit": jit_json(jit)}))
    models = ctx.driver.batch(reqs) if ctx.driver is not None else [None] * len(reqs)
    for (c, sc), jit, m in zip(sweep, jits, models):
        case = {"part": "run", "cfg": c, "script": sc, "jit": jit_json(jit)}
        obs = exec_run(pin, c, sc, jit)
        ctx.case(case, nontrivial=True, tags=("part:run-sweep",) + run_tags(c, sc, obs)[4:])
        oracle_run(ctx, case, c, sc, obs)
        compare_run(ctx, case, sc, obs, m)

    # every exception class httpx2 exports: classified by the property text, retried iff connect / timeout
    for name in sorted(dir(httpx2)):
        cls = getattr(httpx2, name)
        if not (isinstance(cls, type) and issubclass(cls, Exception)):
            continue
        try:
            exc = cls("boom")
        except Exception:  # noqa: BLE001
            continue
        want_retry = issubclass(cls, (httpx2.ConnectError, httpx2.TimeoutException))
        sends = [0]

        def mk(exc: BaseException = exc) -> Any:
            sends[0] += 1
            raise exc

        case = {"part": "exception-class", "class": name}
        try:
            R._request_with_retry(mk, config=R.HttpRetryConfig(max_retries=2, backoff_base=0.0), method_label="POST", url="/x",
                                  _sleep=lambda d: None)
        except BaseException as e:  # noqa: BLE001
            if e is not exc:
                _fail(ctx, case, f"C38:run:raises:unexpected:{type(e).__name__}", f"{name} turned into {type(e).__name__}")
        ctx.case(case, nontrivial=True, tags=("part:exception-class", "retried" if sends[0] > 1 else "not-retried"))
        if sends[0] > 1 and not want_retry:
            _fail(ctx, case, f"C38:run:resend-after-other:{name}", f"httpx2.{name} is neither a connection error nor a timeout but was re-sent")
        if sends[0] > 3:
            _fail(ctx, case, "C38:run:too-many-sends", f"{sends[0]} transmissions with max_retries=2")
        if want_retry and sends[0] != 3:
            ctx.mismatch(case, {"sends": 3}, {"sends": sends[0]}, f"httpx2.{name} should be retried as connect/timeout")


def replay_run(ctx: Any, pin: Pin, case: dict[str, Any]) -> None:
    c, sc = case["cfg"], case["script"]
    jit = [Fraction(n, d) for n, d in case["jit"]]
    m = ctx.driver.call("C38.run", {"cfg": cfg_json(c), "script": [sym_model(s) for s in sc], "jit": case["jit"]}) if ctx.driver else None
    obs = exec_run(pin, c, sc, jit)
    ctx.case(case, nontrivial=True, tags=run_tags(c, sc, obs))
    oracle_run(ctx, case, c, sc, obs)
    compare_run(ctx, case, sc, obs, m)


# ------------------------------------------------------------------------------------------------ D: call sites


@dataclass
class GenState(ProducerState):
    count: int
    current: int = 0

    def produce(self, out: OutputCollector, ctx: CallContext) -> None:
        if self.current >= self.count:
            out.finish()
            return
        out.emit_pydict({"i": [self.current]})
        self.current += 1


@dataclass
class ScaleState(ExchangeState):
    factor: float

    def exchange(self, input: AnnotatedBatch, out: OutputCollector, ctx: CallContext) -> None:
        out.emit_arrays([pc.multiply(input.batch.column("value"), self.factor)])


class Svc(Protocol):
    def add(self, a: float, b: float) -> float: ...
    def gen(self, count: int) -> Stream[GenState]: ...
    def scale(self, factor: float) -> Stream[ScaleState]: ...


class Impl:
    def add(self, a: float, b: float) -> float:
        return a + b

    def gen(self, count: int) -> Stream[GenState]:
        return Stream(output_schema=pa.schema([("i", pa.int64())]), state=GenState(count))

    def scale(self, factor: float) -> Stream[ScaleState]:
        sch = pa.schema([("value", pa.float64())])
        return Stream(output_schema=sch, state=ScaleState(factor), input_schema=sch)


SITE_URL = {"unary": "/add", "init": "/scale/init", "exchange": "/scale/exchange", "cancel": "/scale/exchange",
            "continuation": "/gen/exchange"}


class FaultClient:
    """Wraps the in-process client; POSTs to the armed URL meet the script, everything else reaches the server."""

    def __init__(self, real: Any, pin: Pin) -> None:
        self.real = real
        self.pin = pin
        self.prefix = getattr(real, "prefix", "")
        self.url: str | None = None
        self.script: list[dict[str, Any]] = []
        self.extra = False
        self.sent = 0
        self.done = False  # the request reached the real server: later POSTs to the URL are other requests
        self.injected: list[BaseException] = []

    def arm(self, url: str, script: list[dict[str, Any]], extra: bool) -> None:
        self.url, self.script, self.extra, self.sent, self.injected, self.done = url, script, extra, 0, [], False

    def disarm(self) -> None:
        self.url = None

    def post(self, url: str, *, content: bytes, headers: dict[str, str]) -> Any:
        if self.url is None or self.done or not url.endswith(self.url):
            return self.real.post(url, content=content, headers=headers)
        i = self.sent
        self.sent += 1
        self.pin.events.append(("send", i))
        if i >= len(self.script) or (self.script[i]["kind"] == "status" and self.script[i]["code"] == 200):
            self.done = True
            return self.real.post(url, content=content, headers=headers)
        s = self.script[i]
        if s["kind"] != "status":
            e = make_exc(s)
            self.injected.append(e)
            raise e
        h = ra_headers(s)
        if s["code"] == 415 and self.extra:
            h["VGI-Supported-Encodings"] = ["", "zstd", "gzip, zstd"][i % 3]
        return _SyncTestResponse(s["code"], b"<html>fault</html>", headers=h)

    def options(self, url: str, **kw: Any) -> Any:
        return self.real.options(url, **kw)

    def close(self) -> None:
        pass


class Sites:
    def __init__(self, pin: Pin) -> None:
        self.pin = pin
        self.server = RpcServer(Svc, Impl())
        self.real = make_sync_client(self.server, token_key=b"k" * 32, max_stream_response_bytes=700)
        self.ext_ok = True
        self._saved = (C._HttpProxy._externalize_request_body, C.HttpStreamSession._externalize_request_body)
        sites = self

        def stub(_self: Any, body: bytes) -> bytes:
            if not sites.ext_ok:
                raise RpcError("RequestTooLarge", "stubbed: server does not advertise upload_url_support", "")
            return body

        C._HttpProxy._externalize_request_body = stub  # type: ignore[method-assign]
        C.HttpStreamSession._externalize_request_body = stub  # type: ignore[method-assign]

    def close(self) -> None:
        C._HttpProxy._externalize_request_body, C.HttpStreamSession._externalize_request_body = self._saved  # type: ignore[method-assign]
        self.real.close()

    def run(self, site: str, c: dict[str, Any] | None, script: list[dict[str, Any]], jit: list[Fraction], extra: bool,
            ext_ok: bool, twice: bool = False) -> dict[str, Any]:
        pin = self.pin
        self.ext_ok = ext_ok
        fc = FaultClient(self.real, pin)
        retry = cfg_obj(c) if c is not None else None
        pin.reset(jit)
        result: Any
        with http_connect(Svc, client=fc, retry=retry) as proxy:  # type: ignore[arg-type]
            try:
                if site == "unary":
                    fc.arm(SITE_URL[site], script, extra)
                    result = ("ok", proxy.add(a=1.0, b=2.0))
                elif site == "init":
                    fc.arm(SITE_URL[site], script, extra)
                    proxy.scale(factor=2.0)
                    result = ("ok", None)
                elif site == "continuation":
                    session = proxy.gen(count=6)
                    pin.reset(jit)
                    fc.arm(SITE_URL[site], script, extra)
                    rows = [b.batch.num_rows for b in session]
                    result = ("ok", sum(rows))
                else:
                    session = proxy.scale(factor=2.0)
                    pin.reset(jit)
                    fc.arm(SITE_URL[site], script, extra)
                    if site == "exchange":
                        out = session.exchange(AnnotatedBatch(batch=pa.record_batch({"value": [1.5]})))
                        result = ("ok", out.batch.to_pydict())
                    else:
                        session.cancel()
                        if twice:
                            session.cancel()
                            with contextlib.suppress(RpcError):
                                session.exchange(AnnotatedBatch(batch=pa.record_batch({"value": [1.5]})))
                        result = ("ok", None)
            except R.HttpTransientError as e:
                result = ("transient", e.status_code)
            except RpcError as e:
                result = ("rpc-error", e.error_type)
            except BaseException as e:  # noqa: BLE001
                if fc.injected and e is fc.injected[-1]:
                    result = ("raised", script[fc.sent - 1]["kind"])
                else:
                    result = ("unexpected", type(e).__name__)
            finally:
                fc.disarm()
        steps, bad = steps_of(pin.events)
        return {"steps": steps, "result": result, "draws": pin.draws, "anomalies": bad, "sends": fc.sent}


def site_alphabet(site: str, c: dict[str, Any] | None, rng: Any) -> list[dict[str, Any]]:
    out = [sym_exc("connect", rng.randrange(3)), sym_exc("timeout", rng.randrange(5)), sym_exc("disconnect", 0),
           sym_exc("other", rng.randrange(len(OTHER_EXC))), sym_status(200), sym_status(400), sym_status(413), sym_status(415),
           sym_status(500), sym_status(502)]
    for cls in ("absent", "secs", "nan", "inf", "date_future", "garbage"):
        out.append(sym_status(503, cls, rng.randrange(50), rng.randrange(3)))
    return out


def expected_result(site: str, ending: Any) -> tuple[str, Any]:
    """Model ending -> what the caller of the client method observes (coarse)."""
    if site == "cancel":
        return ("ok", None)  # best-effort: everything is swallowed
    if ending == "swallowed":
        return ("ok", None)
    if ending == "externalize_failed":
        return ("rpc-error", "RequestTooLarge")
    if "completed" in ending:
        return ("ok", None) if ending["completed"] in (200, None) else ("rpc-error", None)
    o = ending["failed"]
    if "transient" in o:
        return ("transient", o["transient"])
    if "raised" in o:
        return ("raised", o["raised"])
    return ("?", None)


def check_site(ctx: Any, sites: Sites, case: dict[str, Any], model: Any) -> None:
    site, c, sc = case["site"], case["cfg"], case["script"]
    jit = [Fraction(n, d) for n, d in case["jit"]]
    obs = sites.run(site, c, sc, jit, case["extra"], case["ext_ok"], case.get("twice", False))
    n = obs["sends"]
    res = obs["result"]
    ctx.case(case, nontrivial=bool(sc), tags=("part:site", f"site:{site}", f"sends:{n}", f"result:{res[0]}",
                                              "retry:none" if c is None else f"retry:mr{c['max_retries']}"))
    met = [sc[k] if k < len(sc) else None for k in range(n)]
    # ---- O
    if res[0] == "unexpected":
        _fail(ctx, case, f"C38:site:{site}:raises:{res[1]}", f"{site} raised {res[1]}")
    if site == "cancel":
        if n > 1:
            _fail(ctx, case, "C38:site:cancel:sent-more-than-once", f"cancel POSTed {n} times")
    elif site == "exchange":
        first_413 = n >= 1 and met[0] is not None and met[0]["kind"] == "status" and met[0]["code"] == 413
        if n > 2 or (n == 2 and not first_413):
            what = "a plain 200" if met[0] is None else (met[0]["kind"] if met[0]["kind"] != "status" else f"status {met[0]['code']}")
            key = "after-413" if first_413 else ("status" if met[0] is None or met[0]["kind"] == "status" else met[0]["kind"])
            _fail(ctx, case, f"C38:site:exchange:resent:{key}", f"exchange POSTed {n} times; the first transmission met {what}")
        if any(st["has_sleep"] for st in obs["steps"]):
            _fail(ctx, case, "C38:site:exchange:slept", "exchange waited between transmissions: it went through the retry loop")
    else:
        mr = c["max_retries"] if c is not None else 0
        round_len = 1
        for k in range(n - 1):
            s = met[k]
            if c is not None and spec_retryable(c, s):
                if round_len > mr:
                    _fail(ctx, case, f"C38:site:{site}:too-many-sends", f"{round_len + 1} transmissions of one request with max_retries={mr}")
                    break
                round_len += 1
                continue
            code = 200 if s is None else (s["code"] if s["kind"] == "status" else None)
            if code in (413, 415):  # a new request (re-encoded after 415 / externalized after 413), not a retry
                round_len = 1
                continue
            what = f"status {code}" if code is not None else s["kind"]
            _fail(ctx, case, f"C38:site:{site}:resend-after-{'status:' + str(code) if code is not None else s['kind']}",
                     f"{site}: transmission {k + 1} met {what} and was followed by another transmission")
            break
        if c is not None:
            check_waits(ctx, case, c, [st["slept"] for st in obs["steps"] if st["has_sleep"]], f"site:{site}")
        elif any(st["has_sleep"] for st in obs["steps"]):
            _fail(ctx, case, f"C38:site:{site}:slept-without-config", "a wait happened although no retry configuration was given")
    for a in obs["anomalies"]:
        _fail(ctx, case, f"C38:site:{site}:{a}", a)
    # ---- K
    if model is not None:
        flat = [st for rnd in model["rounds"] for st in rnd]
        impl_steps = [{"f": sym_model(sc[st["i"]]) if st["i"] < len(sc) else {"status": 200, "ra": None},
                       "slept": fj(st["slept"]) if st["has_sleep"] else None} for st in obs["steps"]]
        want = expected_result(site, model["ending"])
        got = (res[0], res[1] if res[0] in ("transient", "raised") or (res[0] == "rpc-error" and want[1] is not None) else None)
        if flat != impl_steps or model["draws"] != obs["draws"] or want != got:
            ctx.mismatch(case, {"steps": flat, "draws": model["draws"], "result": want},
                         {"steps": impl_steps, "draws": obs["draws"], "result": got}, f"client {site}: model vs implementation")


def site_request(case: dict[str, Any]) -> tuple[str, Any]:
    c = case["cfg"]
    return ("C38.client", {"site": case["site"], "cfg": None if c is None else cfg_json(c),
                           "script": [sym_model(s) for s in case["script"]], "jit": case["jit"], "extra": case["extra"],
                           "ext_ok": case["ext_ok"]})


def run_sites(ctx: Any, pin: Pin) -> None:
    rng = ctx.rng
    sites = Sites(pin)
    try:
        cfgs: list[dict[str, Any] | None] = [None, cfg_case(1, 0.5, 30.0, DEFAULT_SET, True, True), cfg_case(2, 1.0, 0.25, DEFAULT_SET, True, True),
                                              cfg_case(0, 0.5, 30.0, DEFAULT_SET, True, True), cfg_case(1, 0.5, 30.0, [500, 503], False, True)]
        cases: list[dict[str, Any]] = []
        thorough = ctx.tier == "thorough"
        for site in ("exchange", "cancel", "unary", "init", "continuation"):
            alpha = site_alphabet(site, None, rng)
            # all scripts of length <= 2 (quick) / <= 3 (thorough) for the direct sites, sampled beyond
            maxlen = 3 if thorough else 2
            scripts: list[list[dict[str, Any]]] = [[]]
            for n in range(1, maxlen + 1):
                scripts += [list(t) for t in itertools.product(alpha, repeat=n)]
            budget = ctx.budget(260 if site in ("exchange", "unary") else 150, 6000)
            if len(scripts) > budget:
                head = [s for s in scripts if len(s) <= 1]
                rest = [s for s in scripts if len(s) > 1]
                rng.shuffle(rest)
                scripts = head + rest[: budget - len(head)]
            for k, sc in enumerate(scripts):
                c = cfgs[k % len(cfgs)] if site not in ("exchange", "cancel") else cfgs[(k // 3) % len(cfgs)]
                jit = jitter_for(num_parse(c["backoff_base"]), 4, k) if c is not None else [Fraction(0)]
                extra = (k // 2) % 3 != 0
                ext_ok = (k // 5) % 4 != 0
                cases.append({"part": "site", "site": site, "cfg": c, "script": sc, "jit": jit_json(jit), "extra": extra,
                              "ext_ok": ext_ok, "twice": site == "cancel" and k % 2 == 0})
            # longer 413/415 chains for the retried sites
            if site in ("unary", "init"):
                chain = [sym_status(415), sym_status(413), sym_status(413), sym_status(415), sym_status(503), sym_status(413)]
                for n in range(1, len(chain) + 1):
                    for c in cfgs:
                        for extra, ext_ok in ((True, True), (False, True), (True, False)):
                            jit = jitter_for(num_parse(c["backoff_base"]), 4, n) if c is not None else [Fraction(0)]
                            cases.append({"part": "site", "site": site, "cfg": c, "script": chain[:n], "jit": jit_json(jit),
                                          "extra": extra, "ext_ok": ext_ok})
        models = ctx.driver.batch([site_request(cs) for cs in cases]) if ctx.driver is not None else [None] * len(cases)
        for cs, m in zip(cases, models):
            check_site(ctx, sites, cs, m)
    finally:
        sites.close()


# ------------------------------------------------------------------------------------------------ F: re-entrant API use

# The client API is used from inside its own callbacks: `on_log` runs while `exchange()` / iteration / `next_with_token()`
# / `cancel()` is still reading a response, and may itself call `cancel()` / `close()` on the same session.  POSTs are
# counted per *logical request*: every `session.exchange(batch)` call is one request (data POSTs during it <= 1), and
# the cancel of one stream is one request (POSTs carrying `vgi_rpc.cancel` over the whole life of the session <= 1,
# however often and from wherever `cancel()` is called).

ON_CANCEL_CALLS: list[str] = []


@dataclass
class LogScaleState(ExchangeState):
    factor: float
    cancel_logs: bool = False

    def exchange(self, input: AnnotatedBatch, out: OutputCollector, ctx: CallContext) -> None:
        out.client_log(Level.WARN, "pre-data log")  # dispatched by the client before it stores the new state token
        out.emit_arrays([pc.multiply(input.batch.column("value"), self.factor)])

    def on_cancel(self, ctx: CallContext) -> None:
        ON_CANCEL_CALLS.append("scale")
        if self.cancel_logs:
            ctx.client_log(Level.INFO, "cancelled")  # delivered to on_log while cancel() reads its response


@dataclass
class LogGenState(ProducerState):
    count: int
    cancel_logs: bool = False
    current: int = 0

    def produce(self, out: OutputCollector, ctx: CallContext) -> None:
        if self.current >= self.count:
            out.finish()
            return
        out.client_log(Level.WARN, "pre-data log")
        out.emit_pydict({"i": [self.current]})
        self.current += 1

    def on_cancel(self, ctx: CallContext) -> None:
        ON_CANCEL_CALLS.append("gen")
        if self.cancel_logs:
            ctx.client_log(Level.INFO, "cancelled")


class LogSvc(Protocol):
    def lscale(self, factor: float, cancel_logs: bool) -> Stream[LogScaleState]: ...
    def lgen(self, count: int, cancel_logs: bool) -> Stream[LogGenState]: ...


class LogImpl:
    def lscale(self, factor: float, cancel_logs: bool) -> Stream[LogScaleState]:
        sch = pa.schema([("value", pa.float64())])
        return Stream(output_schema=sch, state=LogScaleState(factor, cancel_logs), input_schema=sch)

    def lgen(self, count: int, cancel_logs: bool) -> Stream[LogGenState]:
        return Stream(output_schema=pa.schema([("i", pa.int64())]), state=LogGenState(count, cancel_logs))


class CountingClient:
    """Pass-through client that attributes every POST to the API operation in progress."""

    def __init__(self, real: Any) -> None:
        self.real = real
        self.prefix = getattr(real, "prefix", "")
        self.op: int | None = None  # index of the outermost API operation in progress
        self.posts: list[dict[str, Any]] = []

    def post(self, url: str, *, content: bytes, headers: dict[str, str]) -> Any:
        self.posts.append({"op": self.op, "exchange_url": url.endswith("/exchange"), "cancel": b"vgi_rpc.cancel" in content})
        return self.real.post(url, content=content, headers=headers)

    def options(self, url: str, **kw: Any) -> Any:
        return self.real.options(url, **kw)

    def close(self) -> None:
        pass


CB_ACTIONS = ["none", "cancel", "close", "cancel2", "cancel_close"]


def exec_reentrant(real: Any, case: dict[str, Any]) -> dict[str, Any]:
    cc = CountingClient(real)
    holder: dict[str, Any] = {"logs": 0, "fired": False}
    cb = case["cb"]
    ON_CANCEL_CALLS.clear()

    def on_log(_msg: Any) -> None:
        holder["logs"] += 1
        sess = holder.get("session")
        if sess is None or holder["fired"] or holder["logs"] < cb["at"] or cb["action"] == "none":
            return
        holder["fired"] = True
        for act in {"cancel": ["c"], "close": ["l"], "cancel2": ["c", "c"], "cancel_close": ["c", "l"]}[cb["action"]]:
            if act == "c":
                sess.cancel()
            else:
                sess.close()

    errors: list[str] = []
    with http_connect(LogSvc, client=cc, on_log=on_log, compression_level=None) as proxy:  # type: ignore[arg-type]
        if case["stream"] == "exchange":
            session = proxy.lscale(factor=2.0, cancel_logs=case["cancel_logs"])
        else:
            session = proxy.lgen(count=6, cancel_logs=case["cancel_logs"])
        holder["session"] = session
        it = None
        for k, op in enumerate(case["ops"]):
            cc.op = k
            try:
                if op == "x":
                    session.exchange(AnnotatedBatch(batch=pa.record_batch({"value": [1.5]})))
                elif op == "n":
                    if it is None:
                        it = iter(session)
                    next(it, None)
                elif op == "t":
                    session.next_with_token()
                elif op == "c":
                    session.cancel()
                elif op == "l":
                    session.close()
            except RpcError:
                pass  # e.g. exchange() on a cancelled stream
            except StopIteration:
                pass
            except Exception as e:  # noqa: BLE001
                errors.append(f"{op}@{k}:{type(e).__name__}")
            finally:
                cc.op = None
    return {"posts": cc.posts, "on_cancel": len(ON_CANCEL_CALLS), "errors": errors, "logs": holder["logs"], "fired": holder["fired"]}


def check_reentrant(ctx: Any, real: Any, case: dict[str, Any]) -> None:
    obs = exec_reentrant(real, case)
    posts = obs["posts"]
    cancels = [p for p in posts if p["cancel"]]
    ctx.case(case, nontrivial=obs["fired"] or "c" in case["ops"],
             tags=("part:reentrant", f"stream:{case['stream']}", f"cb:{case['cb']['action']}", f"cb-fired:{obs['fired']}",
                   f"cancel-posts:{len(cancels)}"))
    if len(cancels) > 1 or obs["on_cancel"] > 1:
        where = "callback" if obs["fired"] and case["cb"]["action"] != "none" else "plain"
        _fail(ctx, case, f"C38:reentrant:cancel-sent-more-than-once:{case['stream']}:{where}",
              f"{len(cancels)} cancel POSTs for one stream (server on_cancel ran {obs['on_cancel']} times); ops {case['ops']}, "
              f"on_log action {case['cb']}")
    for k, op in enumerate(case["ops"]):
        if op == "x":
            n = sum(1 for p in posts if p["op"] == k and p["exchange_url"] and not p["cancel"])
            if n > 1:
                _fail(ctx, case, f"C38:reentrant:exchange-sent-more-than-once:{case['stream']}",
                      f"exchange() number {k} POSTed its batch {n} times without a 413")
    for e in obs["errors"]:
        ctx.tag(f"reentrant-exception:{e.split(':')[-1]}")


class ReentrantClients:
    """Exchange streams: uncapped responses (log + data in one response).  Producer streams: one batch per response
    (`next_with_token` requires it; every `next()` then is a continuation POST whose response starts with a log)."""

    def __init__(self) -> None:
        self.server = RpcServer(LogSvc, LogImpl())
        self.by_stream = {"exchange": make_sync_client(self.server, token_key=b"k" * 32),
                          "producer": make_sync_client(self.server, token_key=b"k" * 32, max_stream_response_bytes=1)}

    def close(self) -> None:
        for c in self.by_stream.values():
            c.close()


def run_reentrant(ctx: Any) -> None:
    rng = ctx.rng
    clients = ReentrantClients()
    real = clients.by_stream
    try:
        cases: list[dict[str, Any]] = []
        # hand-written corpus first: cancel from on_log during an exchange / an iteration, then routine cleanup
        for stream, first in (("exchange", "x"), ("producer", "n"), ("producer", "t")):
            for action in ("cancel", "cancel2"):
                cases.append({"part": "reentrant", "stream": stream, "ops": [first, "c", "c"], "cb": {"action": action, "at": 1},
                              "cancel_logs": False})
        alpha = {"exchange": ["x", "c", "l"], "producer": ["n", "t", "c", "l"]}
        maxlen = 3 if ctx.tier == "thorough" or ctx.deep else 2
        for stream, ops in alpha.items():
            seqs: list[tuple[str, ...]] = []
            for n in range(1, maxlen + 1):
                seqs += list(itertools.product(ops, repeat=n))
            for seq in seqs:
                for action in CB_ACTIONS:
                    for at in (1, 2):
                        if action == "none" and at == 2:
                            continue
                        cases.append({"part": "reentrant", "stream": stream, "ops": list(seq) + ["c", "c"],
                                      "cb": {"action": action, "at": at}, "cancel_logs": rng.random() < 0.5})
        budget = ctx.budget(500, 6000)
        if len(cases) > budget:
            head, rest = cases[:6], cases[6:]
            rng.shuffle(rest)
            cases = head + rest[: budget - 6]
        for cs in cases:
            check_reentrant(ctx, real[cs["stream"]], cs)
    finally:
        clients.close()


# ------------------------------------------------------------------------------------------------ E: real sockets


class _TcpServer:
    def __init__(self, mode: str) -> None:
        self.mode = mode
        self.sock = socket.socket()
        self.sock.bind(("127.0.0.1", 0))
        self.sock.listen(16)
        self.port = self.sock.getsockname()[1]
        self.stop = False
        self.t = threading.Thread(target=self._loop, daemon=True)
        self.t.start()

    def _loop(self) -> None:
        self.sock.settimeout(0.05)
        while not self.stop:
            try:
                conn, _ = self.sock.accept()
            except TimeoutError:
                continue
            except OSError:
                return
            threading.Thread(target=self._serve, args=(conn,), daemon=True).start()

    def _serve(self, conn: socket.socket) -> None:
        conn.settimeout(1.0)
        try:
            data = b""
            while b"\r\n\r\n" not in data:
                d = conn.recv(65536)
                if not d:
                    break
                data += d
            if self.mode == "partial":
                conn.sendall(b"HTTP/1.1 200 OK\r\nContent-Length: 100\r\n\r\nabc")
            elif self.mode == "hang":
                time.sleep(0.25)
        except OSError:
            pass
        finally:
            conn.close()

    def close(self) -> None:
        self.stop = True
        self.sock.close()
        self.t.join(1)


def run_sockets(ctx: Any) -> None:
    """What the installed httpx2 raises for real network events, against the fault alphabet's classification."""
    want = {"close": ("disconnect", 3), "partial": ("other", 1), "hang": ("timeout", 3), "refused": ("connect", 3)}
    for mode, (kind, sends_want) in want.items():
        srv = None
        if mode == "refused":
            s = socket.socket()
            s.bind(("127.0.0.1", 0))
            port = s.getsockname()[1]
            s.close()
        else:
            srv = _TcpServer(mode)
            port = srv.port
        client = httpx2.Client(timeout=0.08)
        sends = [0]

        def mk(client: Any = client, port: int = port) -> Any:
            sends[0] += 1
            return client.post(f"http://127.0.0.1:{port}/x", content=b"payload")

        case = {"part": "socket", "mode": mode}
        exc: BaseException | None = None
        try:
            R._request_with_retry(mk, config=R.HttpRetryConfig(max_retries=2, backoff_base=0.0), method_label="POST", url="/x",
                                  _sleep=lambda d: None)
        except BaseException as e:  # noqa: BLE001
            exc = e
        finally:
            client.close()
            if srv is not None:
                srv.close()
        got_kind = ("connect" if isinstance(exc, httpx2.ConnectError) else "timeout" if isinstance(exc, httpx2.TimeoutException)
                    else "disconnect" if isinstance(exc, httpx2.RemoteProtocolError) and "without sending a response" in str(exc)
                    else "other")
        ctx.case(case, nontrivial=True, tags=("part:socket", f"socket:{mode}:{got_kind}"))
        if sends[0] > 3:
            _fail(ctx, case, "C38:run:too-many-sends", f"{sends[0]} transmissions with max_retries=2 ({mode})")
        if mode == "partial" and sends[0] > 1:
            _fail(ctx, case, "C38:run:resend-after-other:mid-response-disconnect",
                     f"a disconnect after response bytes were received was re-sent {sends[0] - 1} times ({exc!r})")
        if (got_kind, sends[0]) != (kind, sends_want):
            ctx.mismatch(case, {"kind": kind, "sends": sends_want}, {"kind": got_kind, "sends": sends[0], "exc": repr(exc)},
                         "real-socket fault: httpx2's exception is not the class the fault alphabet assumes")


# ------------------------------------------------------------------------------------------------ consts


def check_consts(ctx: Any) -> None:
    if ctx.driver is None:
        return
    k = ctx.driver.call("C38.consts", {})
    d = R.HttpRetryConfig()
    impl = {
        "default_retryable": sorted(R._DEFAULT_RETRYABLE),
        "default_max_retries": d.max_retries,
        "default_backoff_base": list(Fraction(d.backoff_base).as_integer_ratio()),
        "default_backoff_max": list(Fraction(d.backoff_max).as_integer_ratio()),
        "default_retry_on_conn": d.retry_on_connection_error,
        "default_respect_ra": d.respect_retry_after,
        "default_set_is_default": d.retryable_status_codes == R._DEFAULT_RETRYABLE,
        "marker": "without sending a response",
        "except_clauses": [["RemoteProtocolError"], ["ConnectError", "TimeoutException"]],
        "recognised": True,
    }
    case = {"part": "consts"}
    ctx.case(case, nontrivial=False, tags=("part:consts",))
    if k != impl:
        ctx.mismatch(case, k, impl, "extracted constants / shapes vs the imported module")
    if "without sending a response" not in MARKER_TEXT:
        ctx.mismatch(case, k["marker"], MARKER_TEXT, "disconnect marker")


# ------------------------------------------------------------------------------------------------ entry points


def run(ctx: Any) -> None:
    _PER_KEY.clear()
    check_consts(ctx)
    with Pin() as pin:
        run_validation(ctx)
        run_delay(ctx, pin)
        run_loop(ctx, pin)
        run_sites(ctx, pin)
    run_reentrant(ctx)
    run_sockets(ctx)
    ctx.exhaustive = False


def replay(ctx: Any, case: dict[str, Any]) -> None:
    _PER_KEY.clear()
    part = case.get("part")
    with Pin() as pin:
        if part == "validate":
            m = ctx.driver.call("C38.validate", {"cfg": cfg_json(case["cfg"])}) if ctx.driver else None
            check_validation(ctx, case, m)
        elif part == "delay":
            ra = None if case["ra"] is None else fj(num_parse(case["ra"]))
            m = (ctx.driver.call("C38.delay", {"cfg": cfg_json(case["cfg"]), "attempt": case["attempt"], "ra": ra, "r": case["r"]})
                 if ctx.driver else None)
            check_delay(ctx, pin, case, m)
        elif part == "run":
            replay_run(ctx, pin, case)
        elif part == "site":
            sites = Sites(pin)
            try:
                m = ctx.driver.call(*site_request(case)) if ctx.driver else None
                check_site(ctx, sites, case, m)
            finally:
                sites.close()
        elif part == "reentrant":
            clients = ReentrantClients()
            try:
                check_reentrant(ctx, clients.by_stream[case["stream"]], case)
            finally:
                clients.close()
        elif part == "socket":
            run_sockets(ctx)
        else:
            run(ctx)
