"""C28 — shared-memory allocations never overlap or overflow.

K (correspondence): the real `ShmAllocator` (allocate / free / reset / initialize / _read_allocs / _write_allocs), the real
    `_ShmSink` and the real `ShmSegment.allocate_and_write` against the Lean model, step by step: returned value, the
    decoded table *and the raw header bytes* after every operation, the bytes stored for a batch.
O (direct oracle, from the property text): after every operation the table read from the header (by the harness's own
    parser of the documented layout) is sorted, non-overlapping, inside [HEADER, total], lengths > 0, count <= 4094;
    `allocate(n>0)` returns None only if the table is full or every gap < n, otherwise the lowest fitting gap, and adds
    exactly that entry; `free` of an allocated offset removes exactly that entry; a batch write changes no byte of the
    data region outside its own allocation, so every other live batch is byte-identical (and still decodes).
"""

from __future__ import annotations

import inspect
import io
import itertools
import struct
from typing import Any

import pyarrow as pa
from pyarrow import ipc

PROPERTY = "C28"
LEAN_MODULES = ["VgiVerif.Proofs.C28"]
OBLIGATIONS = [
    "VgiVerif.C28.C28_shapes",
    "VgiVerif.C28.alloc_inv",
    "VgiVerif.C28.alloc_unchanged",
    "VgiVerif.C28.free_inv",
    "VgiVerif.C28.free_fails_iff",
    "VgiVerif.C28.alloc_complete",
    "VgiVerif.C28.alloc_firstfit",
    "VgiVerif.C28.C28_histories",
    "VgiVerif.C28.table_codec_rt",
    "VgiVerif.C28.table_write_footprint",
    "VgiVerif.C28.table_write_extent",
    "VgiVerif.C28.header_data_disjoint",
    "VgiVerif.C28.table_read_footprint",
    "VgiVerif.C28.sink_contained",
    "VgiVerif.C28.sink_accepts_fitting",
    "VgiVerif.C28.C28_write",
    "VgiVerif.C28.C28_write_dict",
    "VgiVerif.C28.C28_step",
    "VgiVerif.C28.C28_reachable",
]
TRUSTED = [
    "pyarrow / Arrow C++: what the IPC stream writer passes to sink.write and what get_record_batch_size returns are "
    "*inputs* of the model (measured per case); the theorems assume nothing about them",
    "CPython struct (little-endian pack/unpack), memoryview slice assignment, multiprocessing.shared_memory",
    "struct.error for table values that do not fit <I / <Q is not modelled (unreachable below 2^64-byte segments: C28_reachable)",
    "single active side at a time (the lockstep protocol): no concurrent mutation of the header is modelled; several "
    "handles used in turn are (the model's state is the header bytes only, and extraction pins that ShmAllocator keeps none)",
]
RULE = (
    "exhaustive DFS over all op sequences (alloc of 1..S units, free of every unit-aligned offset, reset) up to depth D on "
    "S-unit data regions, every (header bytes, op) transition checked; random long histories on segments up to 2^64-1 "
    "bytes with boundary-biased sizes (gap, gap+-1, 0, -1, 2^64) and frees of live / dead / shifted offsets; in every "
    "allocator-level run the first 256 data bytes sit behind the header and the bytes of live regions are compared after "
    "each call; tables at MAX-1 / MAX / MAX+1 entries (packed header, three region strides) and real ShmSegments filled to "
    "the limit by genuine calls with a real batch at the start of the data region, every live region's bytes compared "
    "after each allocate / allocate_and_write / free around the limit; whole segment sessions (15-45 calls: writes of a "
    "few recurring batch sizes, frees in any order, raw allocations, resets) through one or two handles on the same segment "
    "(create + attach, incl. peer turns that leave the entry count unchanged), every live batch checked after every call "
    "to lie inside its own table entry and to be unchanged; real ShmSegment writes of generated batches (narrow, 50..2000 columns, 1K..256K schema / field "
    "metadata, dictionary columns, slices) into a hole of exactly the estimated size between two live batches, at the "
    "tight end of a segment, and into an empty segment; raw _ShmSink write sequences incl. after a refusal. A case is "
    "distinct by (total, header bytes, op) resp. (layout, batch description); non-trivial when the op reaches the allocator"
)
PARTIAL = [
    "cross-process visibility of the segment and the C++/Rust peers that share the header format are not exercised",
    "Arrow's own size functions are measured, not modelled (the repaired sink makes containment independent of them)",
]
MANIFEST = {
    "level": "proof",
    "text": "Kernel-checked theorems over an executable byte-level model of vgi_rpc/shm.py: the allocation-table invariant "
            "(sorted, non-overlapping, inside the data region, lengths > 0, <= MAX_ALLOCS) holds after every history of "
            "allocate/free/reset/batch writes of any length and any sizes; allocate is complete and first-fit; the header "
            "codec round-trips and never touches the data region; the bounded sink never changes a byte outside its region "
            "for any caller, and refuses nothing that fits; allocate_and_write alters no live batch. The model is tied to the "
            "source by extraction of every constant, struct layout, guard comparison and the sink / allocate_and_write "
            "shape, and by differential runs against the real allocator, sink and ShmSegment comparing raw header bytes.",
    "note": "Assumes one active side at a time (lockstep), segments below 2^64 bytes, and CPython struct/memoryview semantics.",
    "technique": "Lean 4 proof: structural induction over the table with a recursive well-formedness predicate, refinement of "
                 "the byte-level segment to the table, + extraction + differential correspondence + direct oracle",
}

H = 65536  # data region starts here (module docstring of shm.py: header format)
MAX = 4094  # the entry limit named by the property
FILL = 0xA5



_PER_KEY: dict[str, int] = {}


def report(ctx: Any, case: Any, key: str, what: str) -> None:
    """ctx.fail, keeping at most a few cases per key so that one noisy class cannot crowd out a different violation."""
    _PER_KEY[key] = _PER_KEY.get(key, 0) + 1
    if _PER_KEY[key] <= 4:
        ctx.fail(case, key, what)
    else:
        ctx.note("failures_not_listed", {k: v - 4 for k, v in _PER_KEY.items() if v > 4})


# ------------------------------------------------------------------------------------------ spec, in Python


def parse_header(buf: Any) -> list[tuple[int, int]]:
    """The harness's own reading of the documented header: count (uint32 LE) at 16, (uint64, uint64) LE entries from 24."""
    (n,) = struct.unpack_from("<I", buf, 16)
    n = min(n, (len(buf) - 24) // 16)
    return [struct.unpack_from("<QQ", buf, 24 + 16 * i) for i in range(n)]


def inv_violations(table: list[tuple[int, int]], total: int) -> list[str]:
    bad = []
    if len(table) > MAX:
        bad.append("count")
    for i, (o, l) in enumerate(table):
        if l <= 0:
            bad.append("length")
        if o < H or o + l > total:
            bad.append("bounds")
        if i + 1 < len(table):
            o2 = table[i + 1][0]
            if not o < o2:
                bad.append("sorted")
            if o + l > o2:
                bad.append("overlap")
    return sorted(set(bad))


def gaps(table: list[tuple[int, int]], total: int) -> list[tuple[int, int]]:
    out, prev = [], H
    for o, l in table:
        out.append((prev, o - prev))
        prev = o + l
    out.append((prev, total - prev))
    return out


def check_alloc(ctx: Any, case: Any, pre: list, post: list, total: int, n: int, res: Any) -> None:
    """O for one allocate(n), n > 0, on a table that satisfied the invariant."""
    fitting = [g for g in gaps(pre, total) if g[1] >= n]
    if res is None:
        if len(pre) < MAX and fitting:
            report(ctx, case, "C28:alloc-none-but-gap-fits", f"allocate({n}) returned None with gap {fitting[0]} free and {len(pre)} entries")
        if post != pre:
            report(ctx, case, "C28:alloc-table-change", "allocate returned None but the table changed")
        return
    if len(pre) >= MAX:
        report(ctx, case, "C28:alloc-beyond-limit", f"allocate succeeded on a table of {len(pre)} entries")
        return
    if not fitting:
        report(ctx, case, "C28:alloc-no-gap", f"allocate({n}) returned {res} although no gap fits")
        return
    lowest = min(g[0] for g in fitting)
    if res != lowest:
        report(ctx, case, "C28:alloc-not-first-fit", f"allocate({n}) returned {res}, lowest fitting gap starts at {lowest}")
    if post != sorted(pre + [(res, n)]):
        report(ctx, case, "C28:alloc-table-change", f"table after allocate({n})={res} is not the old table plus ({res},{n})")


def check_inv(ctx: Any, case: Any, post: list, total: int) -> None:
    for clause in inv_violations(post, total):
        report(ctx, case, f"C28:table-invariant:{clause}", f"table {post[:6]}… violates '{clause}' (total {total})")


# ------------------------------------------------------------------------------------------ real allocator on a bare header


WIN = 256  # bytes of data region kept behind the header in allocator-level runs (all 0xA5: what live batches "contain")


class Alloc:
    """The real ShmAllocator on the header plus the first WIN bytes of the data region (total_size is a parameter of the
    allocator).  The window is filled with FILL; allocator calls must leave the bytes of every live region as they are."""

    def __init__(self, total: int) -> None:
        from vgi_rpc.shm import ShmAllocator

        self.total = total
        self.raw = bytearray(H + WIN)
        self.raw[H:] = bytes([FILL]) * WIN
        self.buf = memoryview(self.raw)
        ShmAllocator.initialize(self.buf, total)
        self.a = ShmAllocator(self.buf, total)

    def hdr(self, extra: int = 0) -> bytes:
        (n,) = struct.unpack_from("<I", self.raw, 16)
        return bytes(self.raw[: min(len(self.raw), 24 + 16 * (n + extra))])

    def load(self, hdr: bytes) -> None:
        self.raw[: len(hdr)] = hdr

    def apply(self, op: dict) -> Any:
        try:
            if op["k"] == "alloc":
                return self.a.allocate(op["n"])
            if op["k"] == "free":
                self.a.free(op["x"])
                return "ok"
            if op["k"] == "reset":
                self.a.reset()
                return "ok"
        except ValueError:
            return "ValueError"
        except Exception as e:  # not an outcome the allocator documents
            return f"raised:{type(e).__name__}"
        raise AssertionError(op)


def step_case(ctx: Any, al: Alloc, op: dict, pending: list, tags: tuple[str, ...], stale: int = 0) -> Any:
    """Apply one op on the real allocator, run O, queue the K comparison (pre header carried along)."""
    pre_hdr = al.hdr(stale)
    pre = parse_header(al.raw)
    big = len(pre) > BYTE_LEVEL_MAX_ENTRIES
    # what the model is given for a big table: the header prefix (memory behind it is FILL in the model, as in the data
    # window here), or — when the table comes within 64 bytes of the data region — the whole header and 64 data bytes
    near_end = 24 + 16 * (len(pre) + 2) >= H - 64
    pre_buf = bytes(al.raw[: H + 64]) if big and near_end else pre_hdr
    lo = H - 64 if near_end else H
    res = al.apply(op)
    post = parse_header(al.raw)
    post_hdr = bytes(al.raw[: max(len(pre_hdr), 24 + 16 * len(post))])
    post_win = bytes(al.raw[lo : H + 64])
    data_after = bytes(al.raw[H:])
    al.raw[H:] = bytes([FILL]) * WIN  # later steps are judged on their own
    case = {"kind": "alloc-step", "total": al.total, "header": pre_hdr.hex(), "op": op}
    kind = op["k"]
    ctx.case(case, nontrivial=True, tags=tags + (f"op:{kind}", f"res:{_res_tag(res)}", f"entries:{_bucket(len(pre))}"))
    if isinstance(res, str) and res.startswith("raised:"):
        report(ctx, case, f"C28:allocator-{res}", f"{kind} on a table of {len(pre)} entries {res}")
    elif not inv_violations(pre, al.total):
        check_inv(ctx, case, post, al.total)
        if data_after.strip(bytes([FILL])):
            hit = [(o, l) for o, l in pre if o < H + WIN and data_after[o - H : o - H + l].strip(bytes([FILL]))]
            if hit:
                report(ctx, case, "C28:op-altered-live-batch", f"{kind} on a table of {len(pre)} entries changed bytes of live region(s) {hit[:3]} "
                       f"(data region starts with {data_after[:16].hex()})")
        if kind == "alloc" and op["n"] > 0 and res != "ValueError":
            check_alloc(ctx, case, pre, post, al.total, op["n"], res)
        elif kind == "free" and any(o == op["x"] for o, _ in pre):
            want = [e for e in pre if e[0] != op["x"]]
            if res != "ok" or post != want:
                report(ctx, case, "C28:free-table-change", f"free({op['x']}) -> {res}; table is not the old table minus that entry")
    pending.append((case, pre_buf if big else pre_hdr, op, res, post, post_hdr, big, lo, post_win))
    return res


def _res_tag(res: Any) -> str:
    return "none" if res is None else res if isinstance(res, str) else "offset"


def _bucket(n: int) -> str:
    return "0" if n == 0 else "1-3" if n <= 3 else "4-15" if n <= 15 else "16-255" if n <= 255 else "256+"


BYTE_LEVEL_MAX_ENTRIES = 48  # above this the model's memory (a closure chain) is read in a window only, not the whole header


def flush(ctx: Any, pending: list) -> None:
    """K: model vs implementation for the queued transitions.  Small tables: the whole header byte for byte.  Big tables:
    returned value, table, and the bytes around the header / data boundary (`cwin`)."""
    if ctx.driver is None or not pending:
        pending.clear()
        return
    reqs = []
    for c, h, op, _r, _p, _ph, big, lo, _w in pending:
        if not big:
            reqs.append(("C28.cstep", {"total": c["total"], "header": h.hex(), "op": op}))
        else:
            reqs.append(("C28.cwin", {"total": c["total"], "header": h.hex(), "op": op, "lo": lo, "n": H + 64 - lo}))
    for (case, _h, op, res, post, post_hdr, big, _lo, post_win), m in zip(pending, ctx.driver.batch(reqs)):
        if m["out"] != res or [tuple(e) for e in m["table"]] != post:
            ctx.mismatch(case, {"out": m["out"], "table": m["table"][:8]}, {"out": res, "table": post[:8]}, "allocator step: model vs implementation")
        elif not big and m["header"][: 2 * len(post_hdr)] != post_hdr.hex():
            ctx.mismatch(case, m["header"][:160], post_hdr.hex()[:160], "header bytes after the step: model vs implementation")
        elif big and m["window"] != post_win.hex():
            ctx.mismatch(case, m["window"], post_win.hex(), "bytes around the header/data boundary after the step: model vs implementation")
    pending.clear()


# ------------------------------------------------------------------------------------------ allocator generators


def dfs_exhaustive(ctx: Any, slots: int, depth: int, unit: int = 16) -> int:
    """Every op sequence of length <= depth over {alloc 1..S units, free unit-aligned offset 0..S-1, reset} on an S-unit region."""
    total = H + slots * unit
    al = Alloc(total)
    ops = ([{"k": "alloc", "n": u * unit} for u in range(1, slots + 1)] + [{"k": "free", "x": H + j * unit} for j in range(slots)]
           + [{"k": "reset"}])
    pending: list = []
    count = 0
    keep = 24 + 16 * slots
    tags = (f"gen:exhaustive-S{slots}",)

    def rec(d: int) -> None:
        nonlocal count
        state = bytes(al.raw[:keep])
        for op in ops:
            al.raw[:keep] = state
            step_case(ctx, al, op, pending, tags, stale=slots)
            count += 1
            if len(pending) >= 20000:
                flush(ctx, pending)
            if d + 1 < depth:
                rec(d + 1)
        al.raw[:keep] = state

    rec(0)
    flush(ctx, pending)
    return count


def pick_size(rng: Any, table: list, total: int) -> int:
    g = gaps(table, total)
    r = rng.random()
    if r < 0.45:
        s = rng.choice(g)[1]
        return max(1, s + rng.choice([0, 0, -1, 1, -2, s // 2 - s, 0]))
    if r < 0.55:
        return rng.choice([1, 2, 15, 16, 17, 4096, total - H, total - H + 1, total])
    if r < 0.62:
        return rng.choice([0, -1, -(2**40), 2**63, 2**64 - 1, 2**64, 2**64 + 1, 2**70])
    big = max(1, (total - H) // rng.choice([2, 3, 5, 8, 13, 40, 200]))
    return rng.randint(1, big)


def pick_free(rng: Any, table: list, total: int) -> int:
    r = rng.random()
    if table and r < 0.8:
        return rng.choice(table)[0]
    if table and r < 0.9:
        o, l = rng.choice(table)
        return rng.choice([o + 1, o - 1, o + l, l])
    return rng.choice([0, -1, H, H - 1, total, rng.randint(0, total + 10), 2**64])


def random_history(ctx: Any, rng: Any, n_ops: int, pending: list) -> None:
    total = rng.choice([H + 1, H + 16, H + 100, H + 4096, H + rng.randint(1, 2**20), 2**32 + 5, 2**40, 2**63, 2**64 - 1])
    al = Alloc(total)
    tags = ("gen:random", f"total:{'small' if total < H + 2**21 else 'huge'}")
    p_free = rng.choice([0.2, 0.4, 0.5])
    for _ in range(n_ops):
        table = parse_header(al.raw)
        r = rng.random()
        if r < 0.01:
            op = {"k": "reset"}
        elif r < 0.01 + p_free:
            op = {"k": "free", "x": pick_free(rng, table, total)}
        else:
            op = {"k": "alloc", "n": pick_size(rng, table, total)}
        step_case(ctx, al, op, pending, tags, stale=2)


def near_limit(ctx: Any, rng: Any, pending: list) -> None:
    """Tables at MAX-1 / MAX / MAX+1 entries on the allocator level: the header is packed directly (a reachable state), the
    first regions lie in the data window, so a table write that reaches past the header is seen on live bytes."""
    for unit, stride in ((1, 2), (8, 8), (16, 24)):
        total = H + stride * (MAX + 8)
        al = Alloc(total)
        n0 = MAX - 2
        struct.pack_into("<I", al.raw, 16, n0)
        for i in range(n0):
            struct.pack_into("<QQ", al.raw, 24 + 16 * i, H + stride * i, unit)
        tags = ("gen:near-limit",)
        live = [H + stride * i for i in range(n0)]
        ops = [{"k": "alloc", "n": unit}, {"k": "alloc", "n": unit}, {"k": "alloc", "n": unit}, {"k": "alloc", "n": 5 * unit},
               {"k": "free", "x": rng.choice(live[1:])}, {"k": "alloc", "n": unit}, {"k": "alloc", "n": 1},
               {"k": "free", "x": live[-1]}, {"k": "free", "x": rng.choice(live[1:-1])}, {"k": "alloc", "n": unit},
               {"k": "alloc", "n": unit}, {"k": "alloc", "n": stride * (MAX + 8)}]
        for op in ops:
            res = step_case(ctx, al, op, pending, tags, stale=1)
            ctx.tag(f"limit:{_res_tag(res)}:{len(parse_header(al.raw))}")
        flush(ctx, pending)


def session_case(ctx: Any, seed: int) -> None:
    """A whole life of one real segment: `allocate_and_write` of batches of a few recurring sizes (so holes smaller than an
    estimate but larger than a written stream exist), frees in any order, raw allocations, resets — issued through ONE or
    TWO handles on the same segment (`create` + `attach`), including peer turns (free one + write one) that leave the entry
    count as it was.  After every call: the table invariant; every live batch lies inside a table entry that starts at
    its offset and is byte-identical to what was written; the table's offsets are exactly the live ones.  K: every call
    against the model, whose only state is the header bytes."""
    import random

    from vgi_rpc import shm

    rng = random.Random(seed)
    two = rng.random() < 0.67
    pool = [
        {"seed": 1, "rows": rng.choice([40, 100]), "cols": 2, "types": "int64", "tag": "narrow"},
        {"seed": 2, "rows": rng.choice([300, 500, 1000]), "cols": 2, "types": "int64", "tag": "narrow"},
        {"seed": 3, "rows": rng.choice([5, 60]), "cols": rng.randint(1, 5), "types": "mixed", "tag": "narrow"},
        {"seed": 4, "rows": 20, "cols": 2, "types": "mixed", "dict": 1, "tag": "dict"},
        {"seed": 5, "rows": 2, "cols": rng.choice([90, 200]), "types": "int64", "tag": "wide"},
    ]
    built = [(build_batch(sp), None) for sp in pool]
    meas = [measure(b) for b, _ in built]
    weights = [5, 4, 3, 1, 1]
    size = H + rng.choice([40_000, 90_000, 200_000])
    a = shm.ShmSegment.create(size)
    b = shm.ShmSegment.attach(a.name, a.size, track=False) if two else None
    handles = [a, b] if b is not None else [a]
    case = {"kind": "session", "seed": seed}
    ctx.case(case, nontrivial=True, tags=("k:session", f"handles:{len(handles)}"))
    buf, total = a.buf, a.size
    buf[H:total] = bytes([FILL]) * (total - H)
    live: dict[int, tuple[int, bytes]] = {}  # offset -> (bytes in use, their content)
    pend: list = []
    failed = False
    try:
        n_ops = rng.choice([15, 30, 45])
        script: list[tuple[str, int]] = []
        while len(script) < n_ops:
            r = rng.random()
            h = rng.randrange(len(handles))
            if r < 0.50:
                script.append(("write", h))
            elif r < 0.78:
                script.append(("free", h))
            elif r < 0.90:
                script += [("free", h), ("write", h)]  # a turn of one side that leaves the entry count unchanged
            elif r < 0.97:
                script.append(("alloc", h))
            else:
                script.append(("reset", h))
        for i, (what, h) in enumerate(script):
            seg = handles[h]
            pre = parse_header(buf)
            pre_hdr = bytes(buf[: 24 + 16 * (len(pre) + 2)])
            scase = {"kind": "session", "seed": seed, "step": i, "op": what, "handle": h}
            res: Any
            if what == "write":
                k = rng.choices(range(len(pool)), weights)[0]
                batch, m = built[k][0], meas[k]
                op: dict = {"k": "dict", "data": len(m["data"])} if m["dict"] else {"k": "write", "rb": m["rb"], "chunks": m["sizes"]}
                try:
                    res = seg.allocate_and_write(batch)
                except Exception as e:
                    res = f"raised:{type(e).__name__}"
                if isinstance(res, tuple):
                    off, ln = res
                    clash = [(o, l) for o, (l, _c) in live.items() if o < off + ln and off < o + l]
                    if clash:
                        report(ctx, scase, "C28:write-overlaps-live-batch", f"step {i}: batch written at ({off},{ln}) overlaps live batch {clash[0]}")
                        failed = True
                    live[off] = (ln, bytes(buf[off : off + ln]))
                    if bytes(buf[off : off + ln]) != m["data"]:
                        ctx.mismatch(scase, "stored = bytes handed to the sink", "stored bytes differ", "stored batch bytes: model vs implementation")
                elif isinstance(res, str):
                    report(ctx, scase, "C28:write-raised", f"step {i}: allocate_and_write {res}")
                res = list(res) if isinstance(res, tuple) else res
            elif what == "free":
                if not live:
                    continue
                x = rng.choice(sorted(live))
                op = {"k": "free", "x": x}
                try:
                    seg.free(x)
                    res = "ok"
                except ValueError:
                    res = "ValueError"
                    report(ctx, scase, "C28:free-of-live-batch-refused", f"step {i}: free({x}) of a live allocation raised ValueError (table {pre[:6]})")
                    failed = True
                live.pop(x, None)
            elif what == "alloc":
                g = [gp for gp in gaps(pre, total) if gp[1] > 0]
                n = max(1, rng.choice(g)[1] // rng.choice([1, 2, 3]) + rng.choice([0, 0, 1, -1])) if g else 64
                op = {"k": "alloc", "n": n}
                res = seg.allocator.allocate(n)
                if res is not None:
                    pat = bytes(((res + j) * 131 % 251) + 1 for j in range(min(n, 64)))
                    buf[res : res + len(pat)] = pat
                    live[res] = (len(pat), pat)
                if not inv_violations(pre, total):
                    check_alloc(ctx, scase, pre, parse_header(buf), total, n, res)
            else:
                op = {"k": "reset"}
                seg.reset()
                res = "ok"
                live.clear()
            post = parse_header(buf)
            ctx.case(scase, nontrivial=True, tags=(f"session:{what}:{'h' + str(h)}", f"session-entries:{_bucket(len(post))}"))
            # ---- O ---------------------------------------------------------------------------------
            check_inv(ctx, scase, post, total)
            for o, (l, content) in live.items():
                entry = [el for eo, el in post if eo == o]
                if not entry or entry[0] < l:
                    report(ctx, scase, "C28:live-batch-not-covered", f"step {i} ({what} via handle {h}): live batch ({o},{l}) is not inside a table entry "
                           f"starting at its offset (entries there: {entry}; table {post[:6]})")
                    failed = True
                    break
                if bytes(buf[o : o + l]) != content:
                    report(ctx, scase, "C28:write-altered-live-batch" if what == "write" else "C28:op-altered-live-batch",
                           f"step {i} ({what} via handle {h}): bytes of live batch ({o},{l}) changed")
                    failed = True
                    break
            if not failed and sorted(o for o, _l in post) != sorted(live):
                report(ctx, scase, "C28:table-not-live-set", f"step {i} ({what} via handle {h}): table offsets {[o for o, _ in post][:8]} are not the live "
                       f"allocations {sorted(live)[:8]}")
                failed = True
            hl = 24 + 16 * max(len(pre) + 1, len(post))
            pend.append((scase, pre_hdr, op, res, post, bytes(buf[:hl])))
            if failed:
                break  # everything after the first violation is a consequence
        if ctx.driver is not None and pend:
            reqs = [("C28.cstep", {"total": total, "header": hh.hex(), "op": op}) for _c, hh, op, _r, _p, _h in pend]
            for (scase, _hh, _op, res, post, post_hdr), m in zip(pend, ctx.driver.batch(reqs)):
                if m["out"] != res or [tuple(e) for e in m["table"]] != post:
                    ctx.mismatch(scase, {"out": m["out"], "table": m["table"][:8]}, {"out": res, "table": post[:8]},
                                 "segment session step: model (header bytes only) vs implementation")
                    break
                if m["header"][: 2 * len(post_hdr)] != post_hdr.hex():
                    ctx.mismatch(scase, m["header"][:200], post_hdr.hex()[:200], "header bytes after a session step: model vs implementation")
                    break
    finally:
        del buf
        if b is not None:
            b.close()
        a.close()
        a.unlink()


SMALL = {"seed": 11, "rows": 4, "cols": 1, "types": "int64", "tag": "narrow"}


def limit_segment(ctx: Any, seed: int) -> None:
    """A real ShmSegment driven to its table limit by genuine calls: a real batch at the start of the data region, then
    allocations (each filled with a pattern) up to MAX-2 entries; from there every operation around MAX-1 / MAX / MAX+1
    (allocate, allocate_and_write, free) is followed by a comparison of the bytes of *every* region that was live before it."""
    import logging
    import random

    from vgi_rpc import shm

    rng = random.Random(seed)
    unit = rng.choice([1, 8, 16, 40])
    first = build_batch({"seed": seed, "rows": rng.choice([3, 50]), "cols": rng.choice([1, 3]), "types": "mixed", "tag": "narrow"})
    small = build_batch(SMALL)
    meas_small = measure(small)
    seg = shm.ShmSegment.create(H + (unit + 8) * (MAX + 16) + 4 * meas_small["need"] + 65536)
    case = {"kind": "limit-segment", "seed": seed}
    logger = logging.getLogger("vgi_rpc.shm")
    was_disabled = logger.disabled
    logger.disabled = True  # the 80 %-full warning on every call
    try:
        buf, total = seg.buf, seg.size
        res0 = seg.allocate_and_write(first)
        assert res0 is not None and res0[0] == H
        stored_first = bytes(buf[H : H + res0[1]])
        while seg.allocator.num_allocs < MAX - 2:
            off = seg.allocator.allocate(unit)
            assert off is not None
            buf[off : off + unit] = bytes(((off + j) * 131 % 251) + 1 for j in range(unit))
        if bytes(buf[H : H + res0[1]]) != stored_first:
            report(ctx, case, "C28:op-altered-live-batch", f"the batch at the start of the data region changed while the table grew to {MAX - 2} entries")
        ctx.case(case, nontrivial=True, tags=("k:limit-segment", f"limit-unit:{unit}"))
        steps = ["alloc", "write", "alloc", "write", "free", "alloc", "free", "write", "free", "free", "write", "alloc", "alloc"]
        rng.shuffle(steps)
        steps = ["alloc", "alloc", "alloc"] + steps if rng.random() < 0.5 else ["write", "write", "write"] + steps
        pend: list = []
        for i, st in enumerate(steps):
            pre = parse_header(buf)
            snap = bytes(buf[H:total])
            pre_buf = bytes(buf[: H + 64])
            if st == "alloc":
                op: dict = {"k": "alloc", "n": unit}
                res: Any = seg.allocator.allocate(unit)
            elif st == "write":
                op = {"k": "write", "rb": meas_small["rb"], "chunks": meas_small["sizes"]}
                res = seg.allocate_and_write(small)
            else:
                x = rng.choice(pre[1:])[0]  # never the first batch: it stays live throughout
                op = {"k": "free", "x": x}
                seg.free(x)
                res = "ok"
            post = parse_header(buf)
            after = bytes(buf[H:total])
            scase = {"kind": "limit-segment", "seed": seed, "step": i, "op": st}
            ctx.tag(f"seglimit:{st}:{len(pre)}->{len(post)}")
            check_inv(ctx, scase, post, total)
            if st == "alloc":
                check_alloc(ctx, scase, pre, post, total, unit, res)
            if after != snap:
                for o, l in pre:
                    if after[o - H : o - H + l] != snap[o - H : o - H + l]:
                        report(ctx, scase, "C28:op-altered-live-batch", f"step {i} ({st}) on a table of {len(pre)} entries changed the bytes of the live "
                               f"region ({o},{l}): {snap[o - H : o - H + 8].hex()} -> {after[o - H : o - H + 8].hex()}")
                        break
            pend.append((scase, pre_buf, op, list(res) if isinstance(res, tuple) else res, post, bytes(buf[H - 64 : H + 64])))
        try:
            ok = shm._deserialize_from_shm(seg.read_buffer(H, res0[1]), first.schema).equals(first)
        except Exception:
            ok = False
        if not ok:
            report(ctx, case, "C28:op-altered-live-batch", "the batch at the start of the data region no longer decodes after operations at the table limit")
        if ctx.driver is not None:
            reqs = [("C28.cwin", {"total": total, "header": h.hex(), "op": op, "lo": H - 64, "n": 128}) for _c, h, op, _r, _p, _w in pend]
            for (scase, _h, _op, res, post, win), m in zip(pend, ctx.driver.batch(reqs)):
                if m["out"] != res or [tuple(e) for e in m["table"]] != post:
                    ctx.mismatch(scase, {"out": m["out"], "entries": len(m["table"])}, {"out": res, "entries": len(post)}, "segment at the table limit: model vs implementation")
                elif m["window"] != win.hex():
                    ctx.mismatch(scase, m["window"], win.hex(), "bytes around the header/data boundary at the table limit: model vs implementation")
    finally:
        logger.disabled = was_disabled
        del buf
        seg.close()
        seg.unlink()


def codec_impl(case: dict) -> tuple[str, dict, Any]:
    """(driver fn, args, what the implementation produced) for one codec case."""
    from vgi_rpc.shm import ShmAllocator

    if case["kind"] == "encode":
        table = [tuple(e) for e in case["table"]]
        al = Alloc(H + 10)
        al.raw[:] = bytes(len(al.raw))
        al.a._write_allocs(list(table))
        return "C28.encode", {"table": [list(e) for e in table]}, bytes(al.raw[: 24 + 16 * len(table)]).hex()
    if case["kind"] == "decode":
        hdr = bytes.fromhex(case["header"])
        al = Alloc(H + 10)
        al.raw[: len(hdr)] = hdr
        return "C28.decode", {"header": case["header"]}, [list(e) for e in al.a._read_allocs()]
    b = bytearray(H)
    ShmAllocator.initialize(memoryview(b), case["total"])
    return "C28.init", {"total": case["total"]}, bytes(b[:24]).hex()


def codec_cases(ctx: Any, rng: Any, n: int) -> None:
    """K for _write_allocs / _read_allocs / initialize on arbitrary (also malformed) tables and header bytes."""
    if ctx.driver is None:
        return
    edge = [0, 1, 255, 256, 2**16, 2**32 - 1, 2**32, 2**63, 2**64 - 1, H, H + 1]
    cases: list[dict] = []
    for i in range(n):
        k = rng.choice([0, 1, 1, 2, 3, 5, 9, 40])
        table = [[rng.choice(edge) if rng.random() < 0.4 else rng.getrandbits(rng.choice([8, 33, 64])),
                  rng.choice(edge) if rng.random() < 0.4 else rng.getrandbits(rng.choice([8, 33, 64]))] for _ in range(k)]
        cases.append({"kind": "encode", "table": table})
        cnt = rng.choice([0, 1, 2, 7, 30])
        hdr = bytearray(rng.getrandbits(8) for _ in range(24 + 16 * cnt))
        struct.pack_into("<I", hdr, 16, cnt)
        cases.append({"kind": "decode", "header": bytes(hdr).hex()})
        if i % 10 == 0:
            cases.append({"kind": "init", "total": rng.choice([H + 1, H + 4096, 2**32, 2**40 + 3, 2**64 - 1, H + rng.getrandbits(30)])})
    trip = [codec_impl(c) for c in cases]
    for case, (_fn, _a, want), got in zip(cases, trip, ctx.driver.batch([(fn, a) for fn, a, _w in trip])):
        ctx.case(case, nontrivial=True, tags=(f"k:{case['kind']}",))
        if got != want:
            ctx.mismatch(case, got, want, f"header {case['kind']}: model vs implementation")


# ------------------------------------------------------------------------------------------ the sink


def make_sink(buf: Any, start: int, limit: int) -> Any:
    from vgi_rpc.shm import _ShmSink

    params = list(inspect.signature(_ShmSink.__init__).parameters)
    return _ShmSink(buf, start, limit) if len(params) >= 4 else _ShmSink(buf, start)


def sink_cases(ctx: Any, rng: Any, n: int) -> None:
    """Raw `_ShmSink.write` sequences (also after a refusal, also zero-length, every accepted buffer type)."""
    reqs, obs, cases = [], [], []
    for _ in range(n):
        buflen = rng.choice([64, 100, 256])
        start = rng.randrange(0, buflen - 8)
        limit = rng.randrange(0, min(40, buflen - start) + 1)
        if rng.random() < 0.1:
            limit = buflen - start + rng.choice([0, 1, 5])  # region reaching (or passing) the end of the buffer
        sizes = [rng.choice([0, 1, 2, 3, 4, 7, 8, 16, limit, limit + 1, max(0, limit - 1)]) for _ in range(rng.randint(1, 7))]
        raw = bytearray([FILL]) * buflen
        sink = make_sink(memoryview(raw), start, limit)
        log = []
        for sz in sizes:
            payload = bytes(rng.randrange(1, 0xA0) for _ in range(sz))
            data: Any = rng.choice([lambda b: b, bytearray, lambda b: memoryview(b), lambda b: memoryview(b).cast("b"), pa.py_buffer])(payload)
            try:
                sink.write(data)
                log.append("ok")
            except ValueError:
                log.append("ValueError")
            except Exception as e:  # the sink's own overflow error
                log.append("overflow" if "Overflow" in type(e).__name__ else f"other:{type(e).__name__}")
        case = {"kind": "sink", "buflen": buflen, "start": start, "limit": limit, "sizes": sizes}
        ctx.case(case, nontrivial=True, tags=("k:sink", "sink:refused" if "overflow" in log else "sink:all-ok"))
        outside = bytes(raw[:start]) + bytes(raw[start + limit:])
        if outside.strip(bytes([FILL])):
            report(ctx, case, "C28:sink-wrote-outside-region", f"_ShmSink(start={start}, limit={limit}) changed bytes outside its region (writes {sizes})")
        cases.append(case)
        obs.append((log, sink.bytes_written))
        reqs.append(("C28.sink", {"start": start, "limit": limit, "buflen": buflen, "chunks": sizes}))
    if ctx.driver is None:
        return
    for case, (log, written), got in zip(cases, obs, ctx.driver.batch(reqs)):
        mlog = [g["res"] for g in got]
        mwritten = (got[-1]["pos"] - case["start"]) if got else 0
        if mlog != log or mwritten != written:
            ctx.mismatch(case, {"log": mlog, "written": mwritten}, {"log": log, "written": written}, "_ShmSink.write sequence: model vs implementation")


# ------------------------------------------------------------------------------------------ batches


def build_batch(spec: dict) -> pa.RecordBatch:
    """Deterministic batch from a small description (so a replay file regenerates it)."""
    import random

    rng = random.Random(spec["seed"])
    rows, cols = spec["rows"], spec["cols"]
    arrays, fields = [], []
    for i in range(cols):
        name = f"c{i:04d}" + "x" * spec.get("name_len", 0)
        kind = spec["types"] if spec["types"] != "mixed" else rng.choice(["int64", "float64", "string", "bool", "list", "struct", "null", "int8"])
        if kind == "int64":
            arr = pa.array([rng.randrange(-(2**40), 2**40) for _ in range(rows)], pa.int64())
        elif kind == "int8":
            arr = pa.array([rng.randrange(-100, 100) if rng.random() > 0.2 else None for _ in range(rows)], pa.int8())
        elif kind == "float64":
            arr = pa.array([rng.random() for _ in range(rows)], pa.float64())
        elif kind == "string":
            arr = pa.array(["s" * rng.randrange(0, 12) for _ in range(rows)], pa.string())
        elif kind == "bool":
            arr = pa.array([rng.random() < 0.5 for _ in range(rows)], pa.bool_())
        elif kind == "list":
            arr = pa.array([[rng.randrange(9) for _ in range(rng.randrange(3))] for _ in range(rows)], pa.list_(pa.int32()))
        elif kind == "struct":
            arr = pa.array([{"a": rng.randrange(9), "b": "q" * rng.randrange(4)} for _ in range(rows)], pa.struct([("a", pa.int16()), ("b", pa.string())]))
        else:
            arr = pa.nulls(rows)
        if i < spec.get("dict", 0):
            arr = pa.array([rng.choice(["red", "green", "blue", "a-longer-category"]) for _ in range(rows)]).dictionary_encode()
        md = {b"doc": b"f" * spec["field_meta"]} if spec.get("field_meta") and i == 0 else None
        fields.append(pa.field(name, arr.type, metadata=md))
        arrays.append(arr)
    schema = pa.schema(fields, metadata={b"m": b"s" * spec["schema_meta"]} if spec.get("schema_meta") else None)
    batch = pa.RecordBatch.from_arrays(arrays, schema=schema)
    if spec.get("slice"):
        off, ln = spec["slice"]
        batch = batch.slice(off, ln)
    return batch


class _Rec(io.RawIOBase):
    def __init__(self) -> None:
        super().__init__()
        self.sizes: list[int] = []
        self.data = bytearray()

    def write(self, d: Any) -> int:  # type: ignore[override]
        mv = memoryview(d)
        mv = mv.cast("B") if mv.format != "B" else mv
        self.sizes.append(len(mv))
        self.data += mv
        return len(mv)

    def writable(self) -> bool:
        return True


def measure(batch: pa.RecordBatch) -> dict:
    """What the model takes as input: the estimate's base and what Arrow hands to the sink (sizes + reference bytes)."""
    from vgi_rpc import shm
    from vgi_rpc.utils import new_ipc_stream

    if shm._has_dictionary_columns(batch.schema):
        data = shm._serialize_for_shm(batch).to_pybytes()
        return {"dict": True, "data": data, "need": len(data)}
    rec = _Rec()
    w = new_ipc_stream(rec, batch.schema)
    w.write_batch(batch)
    w.close()
    rb = ipc.get_record_batch_size(batch)
    return {"dict": False, "rb": rb, "sizes": rec.sizes, "data": bytes(rec.data), "need": rb + shm._STREAM_OVERHEAD}


def gen_spec(rng: Any, thorough: bool) -> dict:
    r = rng.random()
    spec: dict = {"seed": rng.getrandbits(32), "rows": rng.choice([1, 2, 3, 10, 100, 1000]), "types": "mixed", "cols": rng.randint(1, 6)}
    if r < 0.30:
        spec["tag"] = "narrow"
    elif r < 0.55:
        spec["tag"] = "wide"
        spec["cols"] = rng.choice([30, 50, 60, 70, 73, 74, 80, 100, 150, 200, 400] + ([800, 2000] if thorough else []))
        spec["types"] = rng.choice(["int64", "int64", "mixed"])
        spec["rows"] = rng.choice([1, 3, 10])
        spec["name_len"] = rng.choice([0, 0, 8, 40])
    elif r < 0.70:
        spec["tag"] = "schema-meta"
        spec["schema_meta"] = rng.choice([100, 3000, 3800, 3900, 3950, 4000, 4096, 5000, 20000, 65536] + ([262144] if thorough else []))
    elif r < 0.80:
        spec["tag"] = "field-meta"
        spec["field_meta"] = rng.choice([100, 3000, 3900, 4000, 4096, 10000, 50000])
    elif r < 0.95:
        spec["tag"] = "dict"
        spec["dict"] = rng.randint(1, 3)
        spec["cols"] = max(spec["dict"], rng.choice([1, 2, 5, 120, 300]))
        spec["types"] = "int64" if spec["cols"] > 10 else "mixed"
        spec["rows"] = rng.choice([1, 5, 50])
        if rng.random() < 0.3:
            spec["schema_meta"] = rng.choice([5000, 30000])
    else:
        spec["tag"] = "slice"
        spec["rows"] = 200
        spec["slice"] = [rng.randrange(0, 100), rng.randrange(1, 100)]
    return spec


NEIGHBOUR = {"seed": 7, "rows": 5, "cols": 2, "types": "int64", "tag": "neighbour"}


def write_scenario(ctx: Any, spec: dict, layout: str) -> None:
    """One real allocate_and_write with live neighbours; O on the bytes, K against the model."""
    from vgi_rpc import shm

    batch = build_batch(spec)
    meas = measure(batch)
    need = meas["need"]
    nb = build_batch(NEIGHBOUR)
    nb_need = measure(nb)["need"]
    size = H + 2 * nb_need + need + 8192
    seg = shm.ShmSegment.create(size)
    try:
        total = seg.size
        buf = seg.buf
        buf[H:total] = bytes([FILL]) * (total - H)
        live: list[tuple[int, int]] = []
        if layout in ("hole", "tight-end"):
            r1 = seg.allocate_and_write(nb)
            assert r1 is not None
            live.append(r1)
        if layout == "tight-end":
            # a filler so that the only gap left is exactly `need` bytes, ending at the end of the segment
            assert seg.allocator.allocate(total - need - (live[0][0] + nb_need)) is not None
        if layout == "hole":
            ph = seg.allocator.allocate(need)  # placeholder of exactly the size the write will ask for
            r2 = seg.allocate_and_write(nb)
            assert ph is not None and r2 is not None
            live.append(r2)
            seg.free(ph)
        pre_table = parse_header(buf)
        pre_hdr = bytes(buf[: 24 + 16 * (len(pre_table) + 1)])
        snap = bytes(buf)
        try:
            res: Any = seg.allocate_and_write(batch)
        except Exception as e:
            res = f"raised:{type(e).__name__}"
        post = bytes(buf)
        post_table = parse_header(buf)
        case = {"kind": "write", "layout": layout, "batch": spec}
        fits = len(meas["data"]) <= need
        ctx.case(case, nontrivial=True, tags=("k:write", f"batch:{spec['tag']}", f"layout:{layout}", "stream:fits" if fits else "stream:exceeds-estimate",
                                              f"res:{'region' if isinstance(res, tuple) else res}"))
        # ---- O ---------------------------------------------------------------------------------------
        check_inv(ctx, case, post_table, total)
        for o, l in pre_table:
            if post[o : o + l] != snap[o : o + l]:
                report(ctx, case, "C28:write-altered-live-batch", f"allocation ({o},{l}) of another live batch changed while writing a {spec['tag']} batch "
                         f"(stream {len(meas['data'])} bytes, allocation asked {need})")
                break
        if isinstance(res, tuple):
            off, ln = res
            mine = [l for o, l in post_table if o == off]
            if not mine or ln > mine[0]:
                report(ctx, case, "C28:write-exceeds-allocation", f"returned region ({off},{ln}) vs table entry {mine}")
            else:
                if post[H:off] != snap[H:off] or post[off + mine[0] :] != snap[off + mine[0] :]:
                    report(ctx, case, "C28:write-outside-allocation", f"bytes outside [{off},{off + mine[0]}) changed (stream {len(meas['data'])} bytes)")
        elif res is None:
            pass  # fell back to inline; the live-batch check above is what the property demands
        else:
            report(ctx, case, "C28:write-raised", f"allocate_and_write raised {res} (stream {len(meas['data'])} bytes, allocation asked {need})")
        for o, l in live:  # the neighbours still decode to what was written
            try:
                ok = shm._deserialize_from_shm(seg.read_buffer(o, l), nb.schema).equals(nb)
            except Exception:
                ok = False
            if not ok:
                report(ctx, case, "C28:write-altered-live-batch", f"neighbour batch at ({o},{l}) no longer decodes to what was written")
                break
        # ---- K ---------------------------------------------------------------------------------------
        if ctx.driver is not None:
            op = ({"k": "dict", "data": len(meas["data"])} if meas["dict"] else {"k": "write", "rb": meas["rb"], "chunks": meas["sizes"]})
            m = ctx.driver.call("C28.cstep", {"total": total, "header": pre_hdr.hex(), "op": op})
            impl_out = list(res) if isinstance(res, tuple) else (None if res is None else "ValueError")
            if m["out"] != impl_out or [tuple(e) for e in m["table"]] != post_table:
                ctx.mismatch(case, {"out": m["out"], "table": m["table"]}, {"out": res, "table": post_table}, "allocate_and_write: model vs implementation")
            elif isinstance(res, tuple) and post[res[0] : res[0] + res[1]] != meas["data"]:
                ctx.mismatch(case, "stored = the bytes handed to the sink", "stored bytes differ from the reference stream",
                             "stored batch bytes: model vs implementation")
            hl = 24 + 16 * max(len(pre_table) + 1, len(post_table))
            if m["header"][: 2 * hl] != post[:hl].hex() and not ctx.mismatches:
                ctx.mismatch(case, m["header"][:200], post[:hl].hex()[:200], "header bytes after allocate_and_write: model vs implementation")
    finally:
        del buf
        seg.close()
        seg.unlink()


def stored_case(ctx: Any, spec: dict) -> None:
    from vgi_rpc import shm

    batch = build_batch(spec)
    meas = measure(batch)
    seg = shm.ShmSegment.create(H + 65536)
    try:
        hdr = bytes(seg.buf[:40])
        res = seg.allocate_and_write(batch)
        stored = bytes(seg.buf[res[0] : res[0] + res[1]]) if res else None
        total = seg.size
    finally:
        seg.close()
        seg.unlink()
    if meas["dict"]:
        op = {"k": "dict", "data": meas["data"].hex()}
    else:
        chunks, pos = [], 0
        for sz in meas["sizes"]:
            chunks.append(meas["data"][pos : pos + sz].hex())
            pos += sz
        op = {"k": "write", "rb": meas["rb"], "chunks": chunks}
    m = ctx.driver.call("C28.cstep", {"total": total, "header": hdr.hex(), "op": op, "stored": True})
    case = {"kind": "stored", "batch": spec}
    ctx.case(case, nontrivial=True, tags=("k:stored-bytes",))
    if m["stored"] != (stored.hex() if stored is not None else None) or m["out"] != (list(res) if res else None):
        ctx.mismatch(case, {"out": m["out"], "stored": (m["stored"] or "")[:80]}, {"out": res, "stored": (stored or b"").hex()[:80]},
                     "bytes stored by allocate_and_write: model vs implementation")


def small_stored_cases(ctx: Any, rng: Any, n: int) -> None:
    """K at byte level for the data region: real chunk bytes go to the model, the stored region comes back."""
    if ctx.driver is None:
        return
    for _ in range(n):
        stored_case(ctx, {"seed": rng.getrandbits(32), "rows": rng.choice([1, 2, 5]), "cols": rng.randint(1, 3), "types": "mixed",
                          "tag": "narrow", "dict": rng.choice([0, 0, 1])})


def pointer_case(ctx: Any, seg: Any, seed: int) -> None:
    """The public path (`maybe_write_to_shm` / `resolve_shm_batch`) with several live batches: none is altered by later writes."""
    import random

    from vgi_rpc import shm

    rng = random.Random(seed)
    seg.reset()
    written: list = []
    for _j in range(rng.randint(2, 5)):
        wide = rng.random() < 0.5
        spec = {"seed": rng.getrandbits(32), "rows": rng.choice([2100, 4000]) if wide else 20000, "cols": rng.choice([80, 150]) if wide else 2,
                "types": "int64", "tag": "wide-large" if wide else "large"}
        b = build_batch(spec)
        pb, cm = shm.maybe_write_to_shm(b, None, seg)
        written.append((b, pb, cm))
        if rng.random() < 0.3:
            # release one in the middle so later writes land in holes
            b0, pb0, cm0 = written.pop(rng.randrange(len(written)))
            if shm.is_shm_pointer_batch(pb0, cm0):
                seg.free(int(cm0.get(b"vgi_rpc.shm_offset")))  # what the release callback of resolve_shm_batch does
    case = {"kind": "pointer", "seed": seed}
    ctx.case(case, nontrivial=True, tags=("k:pointer-path",))
    check_inv(ctx, case, parse_header(seg.buf), seg.size)
    for b, pb, cm in written:
        if shm.is_shm_pointer_batch(pb, cm):
            ctx.tag("pointer:shm")
            try:
                got, _cm, _rel = shm.resolve_shm_batch(pb, cm, seg)
                same = got.equals(b)
                del got
            except Exception:  # the stored bytes are no longer a readable stream
                same = False
            if not same:
                report(ctx, case, "C28:write-altered-live-batch", "a live batch no longer resolves to what was written after later writes")
                break
        else:
            ctx.tag("pointer:inline")


def pointer_roundtrip(ctx: Any, seeds: list[int]) -> None:
    from vgi_rpc import shm

    seg = shm.ShmSegment.create(H + 8 * 1024 * 1024)
    try:
        for sd in seeds:
            pointer_case(ctx, seg, sd)
    finally:
        seg.close()
        seg.unlink()


# ------------------------------------------------------------------------------------------ run / replay

SESSION_CORPUS = [1, 2, 3, 4, 5, 6, 7, 8]  # fixed seeds that run first

CORPUS_WRITES = [
    ({"seed": 1, "rows": 3, "cols": 400, "types": "int64", "tag": "wide"}, "hole"),       # DESIGN §7.1 witness
    ({"seed": 1, "rows": 3, "cols": 400, "types": "int64", "tag": "wide"}, "tight-end"),
    ({"seed": 1, "rows": 3, "cols": 400, "types": "int64", "tag": "wide"}, "empty"),
    ({"seed": 2, "rows": 3, "cols": 74, "types": "int64", "tag": "wide"}, "hole"),        # around the 4096-byte boundary
    ({"seed": 2, "rows": 3, "cols": 73, "types": "int64", "tag": "wide"}, "hole"),
    ({"seed": 3, "rows": 2, "cols": 2, "types": "int64", "schema_meta": 20000, "tag": "schema-meta"}, "hole"),
    ({"seed": 4, "rows": 2, "cols": 2, "types": "int64", "field_meta": 9000, "tag": "field-meta"}, "hole"),
    ({"seed": 5, "rows": 9, "cols": 3, "types": "mixed", "dict": 2, "tag": "dict"}, "hole"),
    ({"seed": 6, "rows": 9, "cols": 300, "types": "int64", "dict": 1, "schema_meta": 30000, "tag": "dict"}, "hole"),
    ({"seed": 8, "rows": 1, "cols": 1, "types": "int64", "tag": "narrow"}, "tight-end"),
]


def run(ctx: Any) -> None:
    from vgi_rpc import shm

    _PER_KEY.clear()

    rng = ctx.rng
    thorough = ctx.tier == "thorough"
    if ctx.driver is not None:
        c = ctx.driver.call("C28.consts", {})
        impl = {"headerSize": shm.HEADER_SIZE, "maxAllocs": shm.MAX_ALLOCS, "streamOverhead": shm._STREAM_OVERHEAD,
                "tableBase": shm._HEADER_STRUCT.size, "entrySize": shm._ALLOC_STRUCT.size, "ipcEosLen": len(shm._IPC_EOS)}
        case = {"kind": "consts"}
        ctx.case(case, nontrivial=False, tags=("k:consts",))
        if {k: c[k] for k in impl} != impl:
            ctx.mismatch(case, c, impl, "extracted constants vs the imported module")
    if shm.HEADER_SIZE != H or shm.MAX_ALLOCS > MAX:
        report(ctx, {"kind": "consts"}, "C28:limit-constants", f"HEADER_SIZE={shm.HEADER_SIZE}, MAX_ALLOCS={shm.MAX_ALLOCS}: not the documented layout / the 4094-entry limit")
    # ---- allocator: exhaustive small spaces ---------------------------------------------------------
    plans = [(2, 6), (3, 5), (4, 4)] if not thorough and not ctx.deep else [(2, 8), (3, 7), (4, 6), (5, 4), (6, 4)]
    n = 0
    for slots, depth in plans:
        n += dfs_exhaustive(ctx, slots, depth)
    ctx.note("exhaustive_transitions", n)
    ctx.note("exhaustive_plans", [f"S={s},depth<={d}" for s, d in plans])
    ctx.exhaustive = False  # the small spaces are complete; the property's space is not finite
    # ---- allocator: random long histories, the entry limit ------------------------------------------
    pending: list = []
    for _ in range(ctx.budget(60, 1500)):
        random_history(ctx, rng, rng.choice([10, 30, 80, 200]), pending)
        if len(pending) > 5000:
            flush(ctx, pending)
    flush(ctx, pending)
    near_limit(ctx, rng, pending)
    for _ in range(ctx.budget(2, 10)):
        limit_segment(ctx, rng.getrandbits(32))
    for sd in SESSION_CORPUS + [rng.getrandbits(32) for _ in range(ctx.budget(60, 1500))]:
        session_case(ctx, sd)
    codec_cases(ctx, rng, ctx.budget(300, 5000))
    sink_cases(ctx, rng, ctx.budget(500, 20000))
    # ---- real segments ------------------------------------------------------------------------------
    for spec, layout in CORPUS_WRITES:
        write_scenario(ctx, spec, layout)
    for _ in range(ctx.budget(260, 5000)):
        write_scenario(ctx, gen_spec(rng, thorough), rng.choice(["hole", "hole", "hole", "tight-end", "empty"]))
    small_stored_cases(ctx, rng, ctx.budget(40, 400))
    pointer_roundtrip(ctx, [rng.getrandbits(32) for _ in range(ctx.budget(6, 60))])


def replay(ctx: Any, case: dict) -> None:
    kind = case.get("kind")
    if kind == "alloc-step":
        al = Alloc(case["total"])
        hdr = bytes.fromhex(case["header"])
        al.load(hdr)
        pending: list = []
        (n,) = struct.unpack_from("<I", hdr, 16)
        step_case(ctx, al, case["op"], pending, ("replay",), stale=max(0, (len(hdr) - 24) // 16 - n))
        flush(ctx, pending)
    elif kind == "write":
        write_scenario(ctx, case["batch"], case["layout"])
    elif kind == "sink":
        raw = bytearray([FILL]) * case["buflen"]
        sink = make_sink(memoryview(raw), case["start"], case["limit"])
        log = []
        for sz in case["sizes"]:
            try:
                sink.write(bytes([1]) * sz)
                log.append("ok")
            except ValueError:
                log.append("ValueError")
            except Exception as e:
                log.append("overflow" if "Overflow" in type(e).__name__ else f"other:{type(e).__name__}")
        ctx.case(case)
        outside = bytes(raw[: case["start"]]) + bytes(raw[case["start"] + case["limit"]:])
        if outside.strip(bytes([FILL])):
            report(ctx, case, "C28:sink-wrote-outside-region", "bytes outside the sink's region changed")
        if ctx.driver is not None:
            got = ctx.driver.call("C28.sink", {"start": case["start"], "limit": case["limit"], "buflen": case["buflen"], "chunks": case["sizes"]})
            if [g["res"] for g in got] != log:
                ctx.mismatch(case, [g["res"] for g in got], log, "_ShmSink.write sequence: model vs implementation")
    elif kind == "limit-segment":
        limit_segment(ctx, case["seed"])
    elif kind == "session":
        session_case(ctx, case["seed"])
    elif kind == "pointer":
        pointer_roundtrip(ctx, [case["seed"]])
    elif kind == "stored":
        if ctx.driver is not None:
            stored_case(ctx, case["batch"])
    elif kind in ("encode", "decode", "init"):
        fn, a, want = codec_impl(case)
        ctx.case(case)
        if ctx.driver is not None and ctx.driver.call(fn, a) != want:
            ctx.mismatch(case, ctx.driver.call(fn, a), want, f"header {kind}: model vs implementation")
    else:
        run(ctx)
