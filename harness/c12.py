"""C12 — stream state tokens are unforgeable, identity-bound and opaque.

Real crypto (pycryptodome XChaCha20-Poly1305), real tokens minted by generated streams through ``falcon.testing``.

O (direct oracle, exactly the property): a continuation / exchange / cancel is served (200, hooks run) only if the
    presented cursor text is byte-identical to a cursor token minted under the serving worker's key for the presenting
    identity and still within the TTL — and, when the server has to consult it (call-state cache miss), the call text is
    byte-identical to the call token of the same stream, same identity, within the TTL.  Everything else must be HTTP 400
    with one canonical body for all failure classes, with no state deserialisation and no ``process`` / ``rehydrate`` /
    ``bind_call_state`` / ``on_cancel`` call.  Plaintext markers of the state never occur in token bytes.
K (model vs implementation): `_compute_aad` / `_compute_call_aad` / `_CallStateCache._identity`, the payload framing
    (`_seal_*` / `_open_*` on crafted plaintexts), base64 strictness, and the full `_unpack_and_recover_state` decision
    for every HTTP request of the campaign (the request is abstracted to the model's symbolic terms by the seal recorder).
"""

import base64
import hashlib
import struct
from typing import Any

from harness.common import tokens as T
from harness.common.lean import b2j, s2j

PROPERTY = "C12"
LEAN_MODULES = ["VgiVerif.Proofs.C12"]
EXTRACTORS = ["gen_c12"]
OBLIGATIONS = [
    "VgiVerif.C12.shape_repaired",
    "VgiVerif.C12.sites_as_modelled",
    "VgiVerif.C12.order_as_modelled",
    "VgiVerif.C12.aad_injective",
    "VgiVerif.C12.call_aad_injective",
    "VgiVerif.C12.aad_kinds_disjoint",
    "VgiVerif.C12.nulFree_of_no_nul_char",
    "VgiVerif.C12.frame_roundtrip_cursor",
    "VgiVerif.C12.frame_roundtrip_call",
    "VgiVerif.C12.expired_rejected",
    "VgiVerif.C12.unpack_total",
    "VgiVerif.C12.open_total",
    "VgiVerif.C12.C12_unforgeable",
    "VgiVerif.C12.C12_cross_identity_rejected",
    "VgiVerif.C12.C12_order",
    "VgiVerif.C12.C12_uniform",
    "VgiVerif.C12.C12_opaque",
]
TRUSTED = [
    "XChaCha20-Poly1305 (pycryptodome) is an ideal AEAD: symbolic (Dolev-Yao) envelope in the model; os.urandom call ids do not repeat",
    "python-zstandard decompress(compress(p)) = p; CPython base64 / struct as mirrored (base64 and struct layouts compared differentially on every run)",
    "pyarrow / dataclass (de)serialisation of state and schemas is an abstract predicate of the model",
    "the harness's abstraction bytes -> symbolic term (recorder around crypto.seal_bytes); Falcon / falcon.testing",
]
RULE = (
    "real tokens of generated streams (producer / exchange / union / call-state methods, several identities) x mutation "
    "classes {every bit of the first/last envelope bytes + sampled middle, text substitutions, truncations, extensions, "
    "base64 re-encodings incl. all non-canonical trailing bits, cursor<->call swaps, cross-stream, foreign keys of "
    "lengths 0/1/31/32/33/64, genuine tokens replayed at every other method's endpoint, cross-identity incl. colliding concatenations, clock offsets around the TTL, streams kept alive with gaps < TTL "
    "and presented after the call token's expiry} x "
    "{warm, cold worker} x {continue, cancel}; a case is distinct by (stream, mutation, presentation) and non-trivial "
    "when the presented pair differs from the minted pair or the identity / clock differs"
)
PARTIAL = [
    "AEAD security itself (assumed; the harness only observes that every tampered envelope it tried was rejected)",
    "`.decode()` of the type-name / stream-id segments of an authentic call token (server-encoded str) is not modelled",
    "on a call-state cache hit the call token's text is not consulted by design (a garbled call token next to a genuine "
    "cursor is then served); its TTL still binds: the cache entry's deadline is the token's created_at + ttl (proved and checked)",
]
MANIFEST = {
    "level": "proof",
    "text": "Lean theorems over a transliteration of the token path (byte-exact framing, concrete AAD with injectivity for "
            "NUL-free domains, symbolic AEAD): every accepted request presents texts byte-identical to tokens minted under "
            "the server key for the requesting identity, unexpired; rejection precedes any state decode or hook; all 17 "
            "token checks answer identically; plus a differential campaign with real crypto against the running code.",
    "note": "ideal AEAD, zstd/base64 round trips, fresh call ids; domains NUL-free",
    "technique": "Lean 4 proof: invariant over all histories of the token system + extraction of layout/shape constants + "
                 "correspondence and direct oracle through falcon.testing with real XChaCha20-Poly1305",
}

ALPHABET = b"ABCDEFGHIJKLMNOPQRSTUVWXYZabcdefghijklmnopqrstuvwxyz0123456789+/"


def fail(ctx: Any, case: Any, key: str, what: str) -> None:
    """ctx.fail, at most 3 times per key (one class of failing input must not crowd out the others)."""
    n = ctx.notes.setdefault("failure_counts_by_key", {})
    n[key] = n.get(key, 0) + 1
    if n[key] <= 3:
        ctx.fail(case, key, what)

MAIN_KEY = b"k" * 32
T0 = 1_700_000_000
TTL = 50

SERVICE = [
    {"name": "gena", "kind": "producer", "states": ["SA"]},
    {"name": "exc", "kind": "exchange", "states": ["SB"]},
    {"name": "uni", "kind": "producer", "states": ["SU1", "SU2"]},
    {"name": "cs", "kind": "producer", "states": ["SD"], "call_state": True},
]
KIND = {m["name"]: m["kind"] for m in SERVICE}

IDENTS: list[tuple[Any, ...] | None] = [
    None,
    ("user", "", "anonymous"),          # collides with anonymous in `_CallStateCache._identity`, not in the AAD
    ("user", "ab", "c"),
    ("user", "a", "bc"),                # same concatenation as ("ab","c")
    ("user", "a", "b\x00c"),            # NUL in the principal (allowed)
    ("user", "aé", "é"),
    ("user", None, None),               # ("", "")
    ("user", "d", "alice"),
    ("user", "d", "bob"),
    ("user", "D", "alice"),
    ("unauth", "d", "alice"),           # authenticated=False -> anonymous
    ("user", "anonymous", ""),
    ("user", "\U0001f600", "x"),
]


# ------------------------------------------------------------------------------------------ environment


class Env:
    """Service, workers (by key), minted streams — rebuilt from case descriptors, cached during a run."""

    def __init__(self, ttl: int = TTL, service: list[dict[str, Any]] | None = None) -> None:
        self.ttl = ttl
        self.patches = T.Patches(float(T0))
        self.service = service if service is not None else SERVICE
        self.kind = {m["name"]: m["kind"] for m in self.service}
        self.server = T.make_service(self.service)
        self.workers: dict[tuple[bytes, str], T.Worker] = {}
        self.streams: dict[str, dict[str, Any]] = {}
        self.bodies: dict[bytes, list[str]] = {}

    def close(self) -> None:
        self.patches.close()

    def worker(self, key: bytes, kind: str) -> T.Worker:
        k = (key, kind)
        if k not in self.workers:
            self.workers[k] = T.Worker(self.server, key, self.ttl, cache_entries=0 if kind == "cold" else 4096)
        return self.workers[k]

    def mint(self, spec: dict[str, Any]) -> dict[str, Any]:
        """spec: {"method","n","ident","turns","key"(hex),"t"[,"gap"]} -> {"cursors":[…], "ctimes":[…], "call": b, "cid": b}

        `gap` (default 0) is the clock advance before each turn: a stream kept alive by a client, whose cursor is
        re-minted (fresh) every turn while its call token ages.
        """
        sk = T_canon(spec)
        if sk in self.streams:
            return self.streams[sk]
        key = bytes.fromhex(spec["key"])
        ident = tuple(spec["ident"]) if spec["ident"] is not None else None
        w = self.worker(key, "warm")
        self.patches.clock.now = float(spec["t"])
        r = w.init(spec["method"], spec["n"], ident)
        cur, call = T.tokens_of(r)
        if r.status_code != 200 or cur is None or call is None:
            raise RuntimeError(f"init failed: {r.status_code} {T.error_message(r)}")
        cursors = [cur]
        ctimes = [int(spec["t"])]
        for i in range(spec.get("turns", 0)):
            self.patches.clock.now = float(spec["t"]) + (i + 1) * spec.get("gap", 0)
            r = w.exchange(spec["method"], cursors[-1], call, ident, kind=self.kind[spec["method"]])
            c2, _ = T.tokens_of(r)
            if r.status_code != 200 or c2 is None:
                raise RuntimeError(f"turn failed: {r.status_code} {T.error_message(r)}")
            cursors.append(c2)
            ctimes.append(int(self.patches.clock.now))
        st = {"cursors": cursors, "ctimes": ctimes, "call": call, "spec": spec}
        # the five call-token segments (for the model's cache rows) and the call id
        rec = self.patches.rec.by_raw.get(base64.b64decode(call))
        if rec is not None:
            plain = _untag(rec[3])
            if plain is not None:
                cid, segs = _split_call(plain)
                st["cid"] = cid
                self.bodies[cid] = [b2j(s) for s in segs]
        self.streams[sk] = st
        return st


def T_canon(o: Any) -> str:
    import json

    return json.dumps(o, sort_keys=True, default=str)


def _untag(payload: bytes) -> bytes | None:
    import zstandard

    if payload[:1] == b"\x00":
        return payload[1:]
    if payload[:1] == b"\x01":
        try:
            return zstandard.ZstdDecompressor().decompress(payload[1:], max_output_size=64 << 20)
        except zstandard.ZstdError:
            return None
    return None


def _split_call(plain: bytes) -> tuple[bytes, list[bytes]]:
    cid = plain[8:24]
    pos = 24
    segs = []
    for _ in range(5):
        (n,) = struct.unpack_from("<I", plain, pos)
        segs.append(plain[pos + 4 : pos + 4 + n])
        pos += 4 + n
    return cid, segs


# ------------------------------------------------------------------------------------------ mutations


def apply_mutation(mut: dict[str, Any], tok: bytes, other: bytes | None = None) -> bytes | None:
    """Deterministic text transformation described by `mut` (positions relative to the token's own length)."""
    op = mut["op"]
    if op == "none":
        return tok
    if op == "absent":
        return None
    if op == "replace_with_other":
        return other
    raw = base64.b64decode(tok)
    if op == "flip_raw":  # one bit of the envelope, re-encoded canonically
        i = mut["pos"] if mut["pos"] >= 0 else len(raw) + mut["pos"]
        if not 0 <= i < len(raw):
            return tok
        b = bytearray(raw)
        b[i] ^= 1 << mut["bit"]
        return base64.b64encode(bytes(b))
    if op == "sub_raw":
        i = mut["pos"] % len(raw)
        b = bytearray(raw)
        b[i] = mut["val"]
        return base64.b64encode(bytes(b))
    if op == "sub_text":
        i = mut["pos"] if mut["pos"] >= 0 else len(tok) + mut["pos"]
        if not 0 <= i < len(tok):
            return tok
        return tok[:i] + bytes([mut["val"]]) + tok[i + 1 :]
    if op == "trunc_text":
        return tok[: mut["len"]] if mut["len"] >= 0 else tok[mut["len"] :]
    if op == "trunc_raw":
        n = mut["len"]
        return base64.b64encode(raw[:n] if n >= 0 else raw[-n:])
    if op == "extend_raw":
        ext = bytes.fromhex(mut["hex"])
        return base64.b64encode(ext + raw if mut.get("front") else raw + ext)
    if op == "extend_text":
        ext = bytes.fromhex(mut["hex"])
        return ext + tok if mut.get("front") else tok + ext
    if op == "insert_text":
        i = mut["pos"] % (len(tok) + 1)
        return tok[:i] + bytes.fromhex(mut["hex"]) + tok[i:]
    if op == "reencode":
        how = mut["how"]
        if how == "urlsafe":
            return tok.replace(b"+", b"-").replace(b"/", b"_")
        if how == "strip_padding":
            return tok.rstrip(b"=")
        if how == "mime":
            return base64.encodebytes(raw)
        if how == "mime_crlf":
            return b"\r\n".join(tok[i : i + 76] for i in range(0, len(tok), 76))
        if how == "double":
            return base64.b64encode(tok)
        if how == "hex":
            return raw.hex().encode()
        if how == "b32":
            return base64.b32encode(raw)
        if how == "b85":
            return base64.b85encode(raw)
        if how == "swapcase":
            return tok.swapcase()
        if how == "str_repr":
            return repr(tok).encode()
        if how == "trailing_bits":  # same envelope, different spelling of the last quantum (needs padding)
            pad = len(tok) - len(tok.rstrip(b"="))
            if pad == 0:
                return tok
            i = len(tok) - pad - 1
            v = ALPHABET.index(tok[i])
            free = 4 if pad == 2 else 2  # unused low bits
            alt = (v & ~((1 << free) - 1)) | (mut["k"] % (1 << free))
            return tok[:i] + bytes([ALPHABET[alt]]) + tok[i + 1 :]
        raise ValueError(how)
    raise ValueError(op)


def mutation_list(ctx: Any, tok: bytes, full: bool) -> list[dict[str, Any]]:
    """Mutation descriptors for one token.  `full` = every bit / position (thorough); otherwise ends + sampled middle."""
    rng = ctx.rng
    raw = base64.b64decode(tok)
    n, m = len(raw), len(tok)
    muts: list[dict[str, Any]] = []
    edge = n if full else ctx.budget(16, 64)
    pos = list(range(n)) if edge >= n else sorted(set(list(range(edge)) + [-(i + 1) for i in range(edge)]))
    if not full:
        pos += [rng.randrange(edge, max(edge + 1, n - edge)) for _ in range(ctx.budget(6, 40))] if n > 2 * edge else []
    for p in pos:
        for bit in range(8):
            muts.append({"op": "flip_raw", "pos": p, "bit": bit})
    for _ in range(ctx.budget(6, 60)):
        muts.append({"op": "sub_raw", "pos": rng.randrange(n), "val": rng.randrange(256)})
    # text level: other alphabet characters and non-alphabet bytes
    tpos = list(range(m)) if full else sorted(set([0, 1, 2, 3, m - 1, m - 2, m - 3, m - 4] + [rng.randrange(m) for _ in range(ctx.budget(8, 60))]))
    for p in tpos:
        for val in {ALPHABET[rng.randrange(64)], ALPHABET[(ALPHABET.index(tok[p]) ^ 1) if tok[p] in ALPHABET else 0]}:
            muts.append({"op": "sub_text", "pos": p, "val": val})
        if full or rng.random() < 0.3:
            muts.append({"op": "sub_text", "pos": p, "val": rng.choice([0x21, 0x20, 0x0A, 0x2D, 0x5F, 0x3D, 0x00, 0xFF, 0x2E])})
    # truncations
    tl = list(range(m)) if full else sorted(set([0, 1, 2, 3, 4, 40, 52, 53, 54, 55, 56, m - 1, m - 2, m - 3, m - 4, m - 5, m - 8] + [rng.randrange(m) for _ in range(ctx.budget(6, 40))]))
    for ln in tl:
        if 0 <= ln < m:
            muts.append({"op": "trunc_text", "len": ln})
    for ln in (list(range(n)) if full else sorted(set([0, 1, 24, 25, 40, 41, 42, n - 1, n - 2, n - 16, n - 17] + [rng.randrange(n) for _ in range(ctx.budget(4, 30))]))):
        if 0 <= ln < n:
            muts.append({"op": "trunc_raw", "len": ln})
    muts += [{"op": "trunc_text", "len": -(m - 4)}, {"op": "trunc_raw", "len": -(n - 1)}]
    # extensions
    for hx in ("00", "41", "0000", "ff" * 16, "00" * 41):
        muts.append({"op": "extend_raw", "hex": hx})
        muts.append({"op": "extend_raw", "hex": hx, "front": True})
    for hx in ("41", "41414141", "3d", "3d3d", "3d3d3d3d", "0a", "20", "0d0a", "00", "09"):
        muts.append({"op": "extend_text", "hex": hx})
        muts.append({"op": "extend_text", "hex": hx, "front": True})
    for _ in range(ctx.budget(3, 20)):
        muts.append({"op": "insert_text", "pos": rng.randrange(m + 1), "hex": rng.choice(["0a", "20", "41", "3d", "0d0a"])})
    # re-encodings
    for how in ("urlsafe", "strip_padding", "mime", "mime_crlf", "double", "hex", "b32", "b85", "swapcase", "str_repr"):
        muts.append({"op": "reencode", "how": how})
    for k in range(16):
        muts.append({"op": "reencode", "how": "trailing_bits", "k": k})
    return muts


# ------------------------------------------------------------------------------------------ one case


def _same_envelope(a: bytes | None, b: bytes | None) -> bool:
    """Both texts base64-decode (validate=True) to the same envelope bytes."""
    if a is None or b is None:
        return a is b
    try:
        return base64.b64decode(a, validate=True) == base64.b64decode(b, validate=True)
    except Exception:
        return False


def message_class(resp: Any) -> str:
    if resp.status_code == 200:
        return "ok" if resp.headers.get("x-vgi-rpc-error") is None else "in-band-error"
    msg = T.error_message(resp) or ""
    if resp.status_code == 400:
        if "Missing call token" in msg:
            return "missing_call"
        if "Missing state token" in msg:
            return "missing_cursor"
        if msg.startswith("RuntimeError: Failed to deserialize") or "declares call-state type" in msg:
            return "decode_error"
        return "reject"
    return f"status-{resp.status_code}"


def run_case(ctx: Any, env: Env, case: dict[str, Any], uniform: dict[str, Any], pending: list[Any]) -> None:
    """Execute one presentation and evaluate O; queue the K comparison."""
    st = env.mint(case["stream"])
    spec = case["stream"]
    present = case["present"]
    mut = case["mutation"]
    other = env.mint(case["other"]) if case.get("other") else None
    cur0 = st["cursors"][case.get("cursor_index", -1)]
    call0 = st["call"]
    cursor: bytes | None = cur0
    call: bytes | None = call0
    tgt = mut.get("target", "none")
    if tgt == "cursor":
        cursor = apply_mutation(mut, cur0, other["cursors"][-1] if other else None)
    elif tgt == "call":
        call = apply_mutation(mut, call0, other["call"] if other else None)
    elif tgt == "swap":
        cursor, call = call0, cur0
    elif tgt == "cursor_as_call":
        call = cur0
    elif tgt == "call_as_cursor":
        cursor = call0
    elif tgt == "both_other":
        assert other is not None
        cursor, call = other["cursors"][-1], other["call"]
    ident = tuple(present["ident"]) if present["ident"] is not None else None
    serving_key = bytes.fromhex(present.get("key", spec["key"]))
    w = env.worker(serving_key, present["worker"])
    now = float(present["now"])
    env.patches.clock.now = now
    method = present["method"]
    cancel = present.get("op") == "cancel"

    # ---- the model's view, captured BEFORE the request (the request may change the cache)
    rec = env.patches.rec
    model_req = None
    if ctx.driver is not None and cursor is not None:
        model_req = {
            "key": rec.key_id(serving_key), "ttl": env.ttl, "who": T.ident_model(ident), "method": s2j(method),
            "now": int(now), "cursor": rec.obs(cursor), "call": rec.obs(call),
            "cache": w.cache_rows(now, env.bodies), "zstd": rec.zstd_rows([cursor, call]),
        }
    # the minted stream (under the serving key, for the presenting identity) whose cursor text is presented, if any
    matched = None
    for s in env.streams.values():
        sp = s["spec"]
        if rec.key_id(bytes.fromhex(sp["key"])) != rec.key_id(serving_key):
            continue
        if T.ident_key(tuple(sp["ident"]) if sp["ident"] is not None else None) != T.ident_key(ident):
            continue
        if cursor is not None and cursor in s["cursors"]:
            matched = s
            break
    live_hit = False
    if matched is not None and matched.get("cid") is not None:
        key_ident = w.app._call_state_cache._identity(T.auth_of(ident))
        ent = w.app._call_state_cache._entries.get((matched["cid"], key_ident))
        live_hit = ent is not None and ent[0] > now

    resp = w.exchange(method, cursor, call, ident, kind=env.kind[method], cancel=cancel)
    hooks = T.hook_calls()
    log = list(T.LOG)
    cls = message_class(resp)

    # ---- O: the property, stated directly --------------------------------------------------------------------------
    def fresh(t_mint: float) -> bool:
        return env.ttl == 0 or int(now) - int(t_mint) <= env.ttl

    same_key = rec.key_id(serving_key) == rec.key_id(bytes.fromhex(spec["key"]))
    same_ident = T.ident_key(ident) == T.ident_key(tuple(spec["ident"]) if spec["ident"] is not None else None)

    # "within the token TTL": the presented cursor (stamped when its turn minted it) and the stream's call token
    # (stamped at /init) — the latter whether or not the server has to open it (a cached call must not outlive its token)
    cur_ok = matched is not None and fresh(matched["ctimes"][matched["cursors"].index(cursor)])
    call_fresh = matched is not None and fresh(matched["spec"]["t"])
    call_ok = matched is not None and call == matched["call"]
    consulted = not live_hit
    want_served = cur_ok and call_fresh and (call_ok or not consulted) and method == matched["spec"]["method"]
    nontrivial = not (cursor == cur0 and call == call0 and same_ident and same_key and int(now) == int(spec["t"]))
    tags = [f"mut:{tgt}:{mut.get('op')}" + (f":{mut.get('how')}" if mut.get("how") else ""), f"worker:{present['worker']}",
            f"op:{'cancel' if cancel else 'continue'}", f"method:{method}", f"outcome:{cls}",
            "want:served" if want_served else "want:rejected"]
    if mut.get("how") == "trailing_bits" and (cursor != cur0 or call != call0):
        tags.append("trailing-bits:respelled")
    if not consulted and tgt in ("call", "swap", "cursor_as_call") and want_served:
        tags.append("call-not-consulted(warm)")
    ctx.case(case, nontrivial=nontrivial, tags=tags)

    mkey = mut.get("how") or mut.get("op")
    if want_served:
        if cls != "ok":
            fail(ctx, case, f"C12:genuine-rejected:{present['worker']}:{cls}", f"a genuine unexpired token pair was refused: {cls} {T.error_message(resp)}")
    else:
        if cls in ("ok", "in-band-error", "decode_error") or resp.status_code != 400:
            if cls == "decode_error" and resp.status_code == 400:
                # refused, but only after the token checks were passed and a decode was attempted — and with its own text
                key = f"C12:rejected-after-decode-attempt:{'cache-hit' if live_hit else 'cache-miss'}"
            elif cur_ok and matched is not None and method != matched["spec"]["method"]:
                key = f"C12:cross-method-served:{cls}"  # C13's subject; reported here only if it shows up
            elif cur_ok and not call_fresh and (call_ok or not consulted):
                key = f"C12:expired-call-token-served:{'cache-hit' if live_hit else 'cache-miss'}"
            elif matched is not None and not cur_ok and cursor == cur0 and call == call0:
                key = f"C12:expired-cursor-served:{'cache-hit' if live_hit else 'cache-miss'}"
            elif _same_envelope(cursor, cur0) and _same_envelope(call, call0) and (cursor != cur0 or call != call0):
                key = f"C12:noncanonical-base64-accepted:{'cursor' if cursor != cur0 else 'call'}"
            elif matched is None and any(cursor in s_["cursors"] and s_["spec"]["key"] != serving_key.hex() for s_ in env.streams.values()):
                key = f"C12:foreign-key-token-accepted:{cls}"
            else:
                key = f"C12:forged-accepted:{tgt}:{mkey}:{cls}"
            why = ("the stream's call token is older than the TTL "
                   f"(age {int(now) - int(matched['spec']['t'])}s > {env.ttl}s; cursor age {int(now) - matched['ctimes'][matched['cursors'].index(cursor)]}s) but the request was served"
                   if key.startswith("C12:expired-call-token-served") and matched is not None else
                   f"refused with a message of its own ({T.error_message(resp)!r}) after a state decode was attempted — not the uniform token rejection"
                   if key.startswith("C12:rejected-after-decode-attempt") else
                   "a text that is not a minted token for this key/identity/clock was not rejected with 400")
            fail(ctx, case, key, f"{why}: status {resp.status_code} {cls}; hooks {hooks[:3]}")
        else:
            if hooks:
                where = "cache-hit" if live_hit else "cache-miss"
                fail(ctx, case, f"C12:hook-before-rejection:{hooks[0][0]}:{where}",
                     f"rejected with {resp.status_code} ({cls}) but state decode / hooks ran first: {hooks[:4]}"
                     + (f" — tokens of {matched['spec']['method']!r} presented at /{method}/exchange" if matched is not None and method != matched["spec"]["method"] else ""))
            if cls == "reject":
                body = T.canon_error(resp)
                if "body" not in uniform:
                    uniform["body"] = body
                    uniform["case"] = case
                elif body != uniform["body"]:
                    slug = "-".join((T.error_message(resp) or "").lower().replace(":", " ").split())[:60]
                    fail(ctx, case, f"C12:distinguishable-rejection:{slug}",
                             f"rejection body differs from another token rejection: {T.error_message(resp)!r} vs {uniform['body']}")
            elif cls == "missing_call":
                if call is not None:
                    fail(ctx, case, "C12:missing-call-message-for-present-token", "a present call token was answered 'Missing call token'")
            elif cls == "missing_cursor":
                if cursor is not None:
                    fail(ctx, case, "C12:missing-cursor-message-for-present-token", "a present cursor was answered 'Missing state token'")
    # opaqueness on everything presented or minted here
    for tok in (cur0, call0):
        raw = base64.b64decode(tok)
        for marker in (b"PLAINTEXT-MARKER", b"CALLSTATE-SECRET", spec["method"].encode() + b"-"):
            if marker in raw or marker in tok:
                fail(ctx, case, "C12:plaintext-visible-in-token", f"{marker!r} visible in token bytes")

    # ---- K ----------------------------------------------------------------------------------------------------------
    if model_req is not None:
        observed = {
            "class": cls,
            "state": next((e[2] for e in log if e[0] == "state_bytes"), None),
            "opened_call": any(e[0] == "open_call_token" for e in log),
            "decode": [e[0] for e in log if e[0] in ("state_deserialize", "bind_call_state", "rehydrate")],
        }
        # the deadline the cache now holds for this stream (model: `cacheDeadline`, i.e. `_call_cache_birth` + `put`)
        if matched is not None and matched.get("cid") is not None and env.ttl > 0:
            import math

            ent = w.app._call_state_cache._entries.get((matched["cid"], w.app._call_state_cache._identity(T.auth_of(ident))))
            if ent is not None:
                observed["deadline"] = math.ceil(ent[0])
                observed["deadline_req"] = {"ttl": env.ttl, "created": int(matched["spec"]["t"]), "now": int(now)}
        pending.append((case, model_req, observed))


def flush_k(ctx: Any, pending: list[Any]) -> None:
    if ctx.driver is None or not pending:
        pending.clear()
        return
    res = ctx.driver.batch([("Token.recover", m) for _c, m, _o in pending])
    dl = [(c, o) for c, _m, o in pending if "deadline" in o]
    for (case, obs), want in zip(dl, ctx.driver.batch([("Token.cacheDeadline", o["deadline_req"]) for _c, o in dl])):
        if want != obs["deadline"]:
            ctx.mismatch(case, {"deadline": want}, {"deadline": obs["deadline"], **obs["deadline_req"]},
                         "call-state cache entry deadline (created_at + ttl): model vs implementation")
    for (case, _m, obs), r in zip(pending, res):
        result = r["result"]
        if isinstance(result, dict) and "ok" in result:
            mcls = "ok"
        elif isinstance(result, dict) and "reject" in result:
            mcls = "reject"
        else:
            mcls = result
        icls = obs["class"]
        if mcls != icls:
            ctx.mismatch(case, r, obs, "recover: model class vs implementation")
            continue
        if mcls == "ok":
            acc = result["ok"]
            if acc["state"] != obs["state"]:
                ctx.mismatch(case, acc["state"], obs["state"], "recover: state bytes handed to the decoder")
            if (not acc["hit"]) != obs["opened_call"]:
                ctx.mismatch(case, {"hit": acc["hit"]}, {"opened_call": obs["opened_call"]}, "recover: cache hit vs call token opened")
            want = [e for e in r["effects"] if e != "cache_put"]
            got = ["state_decode" if e == "state_deserialize" else e for e in obs["decode"]]
            if want != got:
                ctx.mismatch(case, want, got, "recover: decode / hook order")
        else:
            if r["effects"] or obs["decode"]:
                ctx.mismatch(case, r["effects"], obs["decode"], "recover: effects of a rejected request")
    pending.clear()


# ------------------------------------------------------------------------------------------ K: pure functions


def k_identity(ctx: Any) -> None:
    from vgi_rpc.http.server._state_token import _CallStateCache, _compute_aad, _compute_call_aad

    rng = ctx.rng
    idents = list(IDENTS)
    pool = ["", "a", "b", "ab", "c", "bc", "anonymous", "\x00", "a\x00", "d", "é", "\U0001f600", "A", "x" * 40]
    for _ in range(ctx.budget(150, 3000)):
        d = rng.choice(pool + [None]) if rng.random() < 0.8 else "".join(rng.choice("ab\x00cé") for _ in range(rng.randrange(4)))
        p = rng.choice(pool + [None]) if rng.random() < 0.8 else "".join(rng.choice("ab\x00cé") for _ in range(rng.randrange(5)))
        idents.append((rng.choice(["user", "user", "user", "unauth"]), d, p))
    methods = ["gena", "genb", "g", "", "exc", "méthode", "a" * 30, "a" * 32, "a" * 33, "b" * 32 + "1", "b" * 32 + "2", "é" * 16 + "x",
               "c" * 64, "c" * 65, "d" * 300]
    reqs = []
    impl = []
    for i, idt in enumerate(idents):
        m = methods[i % len(methods)]
        a = T.auth_of(idt)
        try:
            call_aad = _compute_call_aad(a, m)
        except TypeError:  # a tree whose call AAD does not take the method
            call_aad = _compute_call_aad(a)
        impl.append((_compute_aad(a), call_aad, _CallStateCache._identity(a)))
        reqs += [("Token.aad", {"who": T.ident_model(idt)}), ("Token.callAad", {"who": T.ident_model(idt), "method": s2j(m)}),
                 ("Token.cacheIdent", {"who": T.ident_model(idt)})]
    res = ctx.driver.batch(reqs) if ctx.driver is not None else None
    seen: dict[bytes, Any] = {}
    seen_call: dict[bytes, Any] = {}
    for i, idt in enumerate(idents):
        case = {"kind": "aad", "ident": list(idt) if idt else None, "method": methods[i % len(methods)]}
        ctx.case(case, nontrivial=True, tags=("k:aad", "ident:anon" if T.ident_key(idt) is None else "ident:user"))
        a, c, ci = impl[i]
        if res is not None:
            ma, mc, mci = res[3 * i], res[3 * i + 1], res[3 * i + 2]
            if ma != a.hex() or mc != c.hex():
                ctx.mismatch(case, [ma, mc], [a.hex(), c.hex()], "AAD bytes: model vs implementation")
            if "".join(chr(x) for x in mci) != ci:
                ctx.mismatch(case, mci, [ord(ch) for ch in ci], "cache identity: model vs implementation")
        # O: identity binding — distinct identities (NUL-free domains) never share an AAD; kinds never collide
        k = T.ident_key(idt)
        if k is not None and "\x00" in k[0]:
            continue
        if a in seen and seen[a] != k:
            fail(ctx, case, "C12:aad-collision", f"identities {seen[a]!r} and {k!r} share cursor AAD {a!r}")
        seen[a] = k
        if c in seen_call and seen_call[c] != k:
            fail(ctx, case, "C12:call-aad-collision", f"identities {seen_call[c]!r} and {k!r} share call AAD {c!r}")
        seen_call[c] = k
    if set(seen) & set(seen_call):
        fail(ctx, {"kind": "aad-kinds"}, "C12:aad-kinds-collide", "a cursor AAD equals a call AAD")


def k_framing(ctx: Any) -> None:
    """pack: the payload the sealers hand to seal_bytes; unpack: the openers on crafted (authentic) plaintexts."""
    import zstandard

    from vgi_rpc import crypto
    from vgi_rpc.http._common import _RpcHttpError
    from vgi_rpc.http.server import _state_token as st

    rng = ctx.rng
    key = b"f" * 32
    aad = st._compute_aad(None)
    caad = st._compute_call_aad(None)
    captured: list[bytes] = []
    orig = crypto.seal_bytes

    def spy(payload: bytes, k: bytes, *, aad: bytes, version: int = 1) -> bytes:
        captured.append(payload)
        return orig(payload, k, aad=aad, version=version)

    def rb(n: int) -> bytes:
        return bytes(rng.randrange(256) for _ in range(n))

    reqs: list[tuple[str, Any]] = []
    meta: list[Any] = []
    crypto.seal_bytes = spy  # type: ignore[assignment]
    try:
        for _ in range(ctx.budget(60, 1500)):
            t = rng.choice([0, 1, 255, 256, T0, 2**32 - 1, 2**32, 2**63, 2**64 - 1, rng.randrange(2**64)])
            cid = rb(16)
            state = rng.choice([b"", b"s", rb(rng.randrange(40)), b"A" * rng.randrange(300), rb(300)])
            captured.clear()
            st._seal_cursor_token(state, cid, key, aad, t)
            plain = _untag(captured[0])
            reqs.append(("Token.packCursor", {"t": t, "cid": b2j(cid), "st": b2j(state)}))
            meta.append(("packCursor", {"t": t, "cid": cid.hex(), "st": state.hex()}, plain.hex() if plain is not None else None))
            segs = [rng.choice([b"", rb(rng.randrange(20)), b"B" * rng.randrange(200)]) for _ in range(5)]
            tname = rng.choice(["", "T", "CallSecret", "é"])
            sid = rng.choice(["", "sid", "0123456789abcdef" * 2])
            captured.clear()
            st._seal_call_token(segs[0], tname, segs[2], segs[3], cid, sid, key, caad, t)
            plain = _untag(captured[0])
            body = [segs[0], tname.encode(), segs[2], segs[3], sid.encode()]
            reqs.append(("Token.packCall", {"t": t, "cid": b2j(cid), "body": [b2j(x) for x in body]}))
            meta.append(("packCall", {"t": t, "cid": cid.hex()}, plain.hex() if plain is not None else None))
    finally:
        crypto.seal_bytes = orig  # type: ignore[assignment]

    # crafted plaintexts: well-formed ones with local damage, sealed authentically under the raw codec tag
    def craft_cursor() -> bytes:
        p = struct.pack("<Q", rng.choice([0, T0, 2**64 - 1])) + rb(16)
        s = rb(rng.choice([0, 1, 5, 30]))
        p += struct.pack("<I", rng.choice([len(s), len(s), len(s), len(s) + 1, max(0, len(s) - 1), 0, 2**32 - 1, 2**31])) + s
        r = rng.random()
        if r < 0.2:
            p = p[: rng.randrange(len(p) + 1)]
        elif r < 0.35:
            p += rb(rng.randrange(1, 5))
        return p

    def craft_call() -> bytes:
        p = struct.pack("<Q", rng.choice([0, T0])) + rb(16)
        for i in range(5):
            s = rng.choice([b"", b"ab", rb(rng.randrange(12))])
            ln = len(s) if rng.random() < 0.85 else rng.choice([len(s) + 1, max(0, len(s) - 1), 2**32 - 1, 0])
            p += struct.pack("<I", ln) + s
        r = rng.random()
        if r < 0.2:
            p = p[: rng.randrange(len(p) + 1)]
        elif r < 0.3:
            p += rb(rng.randrange(1, 4))
        return p

    def canon_exc(e: Exception) -> str:
        if isinstance(e, _RpcHttpError):
            return "reject" if int(e.status_code) == 400 else f"http-{int(e.status_code)}"
        return f"crash:{type(e).__name__}"

    for _ in range(ctx.budget(300, 6000)):
        for kind in ("cursor", "call"):
            p = craft_cursor() if kind == "cursor" else craft_call()
            if kind == "call" and rng.random() < 0.5:
                # keep the str segments decodable: `.decode()` of an authentic token's segments is outside the model
                pass
            tag = rng.choice([0, 0, 0, 0, 1, 2, 0x7F, 0xFF, None])
            if tag is None:
                payload = b""
            elif tag == 1:
                payload = b"\x01" + (zstandard.ZstdCompressor().compress(p) if rng.random() < 0.7 else p)
            else:
                payload = bytes([tag]) + p
            try:
                if kind == "cursor":
                    tok = base64.b64encode(crypto.seal_bytes(payload, key, aad=aad, version=st._CURSOR_TOKEN_VERSION))
                    got: Any = list(st._open_cursor_token(tok, key, aad, 0))
                    got = {"ok": [got[0].hex(), got[1].hex()]}
                else:
                    tok = base64.b64encode(crypto.seal_bytes(payload, key, aad=caad, version=st._CALL_TOKEN_VERSION))
                    r = st._open_call_token(tok, key, caad, 0)
                    got = {"ok": [r[4].hex(), [r[0].hex(), r[1].encode().hex(), r[2].hex(), r[3].hex(), r[5].encode().hex()]]}
            except UnicodeDecodeError:
                continue  # PARTIAL: `.decode()` of str segments (authentic tokens only)
            except Exception as e:  # noqa: BLE001
                got = canon_exc(e)
            zrows = []
            if payload[:1] == b"\x01":
                try:
                    zrows = [[b2j(payload[1:]), b2j(zstandard.ZstdDecompressor().decompress(payload[1:], max_output_size=64 << 20))]]
                except zstandard.ZstdError:
                    zrows = [[b2j(payload[1:]), None]]
            obs = {"dec": {"key": 1, "aad": b2j(aad if kind == "cursor" else caad),
                           "ver": st._CURSOR_TOKEN_VERSION if kind == "cursor" else st._CALL_TOKEN_VERSION,
                           "nonce": 0, "payload": b2j(payload)}, "canonical": True}
            reqs.append((f"Token.open{'Cursor' if kind == 'cursor' else 'Call'}",
                         {"obs": obs, "key": 1, "aad": b2j(aad if kind == "cursor" else caad), "ttl": 0, "now": T0, "zstd": zrows}))
            meta.append((f"open-{kind}", {"payload": payload.hex()}, got))
    res = ctx.driver.batch(reqs) if ctx.driver is not None else [None] * len(reqs)
    for (what, case, impl), m in zip(meta, res):
        case = {"kind": what, **case}
        if what.startswith("pack"):
            ctx.case(case, nontrivial=True, tags=(f"k:{what}",))
            if m is not None and m != impl:
                ctx.mismatch(case, m, impl, f"{what}: plaintext framing")
        else:
            cls = "ok" if isinstance(impl, dict) else impl
            ctx.case(case, nontrivial=True, tags=(f"k:{what}", f"frame:{cls}"))
            if isinstance(impl, str) and impl.startswith("crash"):
                fail(ctx, case, f"C12:opener-raised:{impl}", f"{what} let {impl} escape on an authentic payload")
            if m is not None:
                mm = m if not (isinstance(m, dict) and "reject" in m) else "reject"
                if mm != impl:
                    ctx.mismatch(case, m, impl, f"{what}: model vs implementation")


def k_keys(ctx: Any) -> None:
    """`crypto.normalize_key` against its documented contract (32 bytes: itself; otherwise SHA-256 of the *whole* key), and
    the property it serves: two different operator keys never derive the same AEAD key (short of the documented
    `K` / `sha256(K)` identification, which the spec function makes too)."""
    from vgi_rpc import crypto

    rng = ctx.rng
    stems = [b"k" * 32, bytes(range(32)), b"\x00" * 32, hashlib.sha256(b"s").digest()]
    keys: list[bytes] = [b"", b"\x00", b"k" * 16, b"k" * 31, b"k" * 33, b"k" * 64]
    for st in stems:
        keys += [st, st[:16], st[:31], st[1:], st + b"\x00", st + b"a", st + b"b", st + b"-eu-west", st + b"-us-east", b"a" + st,
                 st * 2, st + st[::-1], st[:31] + b"x"]
    for _ in range(ctx.budget(100, 3000)):
        st = rng.choice(stems)
        n = rng.choice([0, 1, 15, 16, 17, 31, 32, 33, 48, 63, 64, 65, 100])
        k = (st * 4)[:n]
        if rng.random() < 0.5 and k:
            j = rng.randrange(len(k))
            k = k[:j] + bytes([k[j] ^ (1 << rng.randrange(8))]) + k[j + 1 :]
        keys.append(k)
    derived: dict[bytes, bytes] = {}
    for k in dict.fromkeys(keys):
        got = crypto.normalize_key(k)
        want = T.spec_key(k)
        case = {"kind": "key", "key": k.hex()}
        ctx.case(case, nontrivial=True, tags=("k:normalize_key", f"keylen:{'<32' if len(k) < 32 else '32' if len(k) == 32 else '>32'}"))
        if got != want:
            ctx.mismatch(case, want.hex(), got.hex(), "normalize_key: documented derivation vs implementation")
        if len(got) != 32:
            fail(ctx, case, "C12:derived-key-length", f"normalize_key returned {len(got)} bytes")
        if got in derived and T.spec_key(derived[got]) != want:
            fail(ctx, {**case, "other": derived[got].hex()}, "C12:key-derivation-collision",
                 f"operator keys {derived[got]!r} and {k!r} derive the same AEAD key: a token sealed under one opens under the other")
        derived.setdefault(got, k)


def k_base64(ctx: Any) -> None:
    from vgi_rpc.http.server import _state_token as st

    rng = ctx.rng
    strict_fn = getattr(st, "_decode_token", None)
    texts: list[bytes] = [b"", b"=", b"==", b"A", b"AA", b"AAA", b"AAAA", b"QQ==", b"QR==", b"QQ=", b"QQ", b"QQ===", b"QQ==\n", b" QQ==",
                          b"QUI=", b"QUJ=", b"QUI", b"QUJD", b"QUJD=", b"====", b"Q===", b"QQ=A", b"Q=Q=", b"QQ==QQ==", b"-_-_", b"+/+/",
                          b"QQ\n==", b"QUJDRA==", b"QUJDRB==", b"QUJDRP==", b"\xff\xff\xff\xff", b"QQ==\x00"]
    for _ in range(ctx.budget(400, 20000)):
        raw = bytes(rng.randrange(256) for _ in range(rng.randrange(0, 12)))
        t = bytearray(base64.b64encode(raw))
        for _ in range(rng.choice([0, 0, 1, 1, 2])):
            op = rng.choice(["sub", "ins", "del"])
            if op == "sub" and t:
                t[rng.randrange(len(t))] = rng.choice(list(ALPHABET) + [0x3D, 0x0A, 0x20, 0x2D])
            elif op == "ins":
                t.insert(rng.randrange(len(t) + 1), rng.choice(list(ALPHABET) + [0x3D, 0x0A]))
            elif op == "del" and t:
                del t[rng.randrange(len(t))]
        texts.append(bytes(t))
    res = ctx.driver.batch([("Token.b64dec", {"w": b2j(t)}) for t in texts] + [("Token.b64strict", {"w": b2j(t)}) for t in texts]) \
        if ctx.driver is not None else None
    for i, t in enumerate(texts):
        try:
            d = base64.b64decode(t, validate=True).hex()
        except Exception:
            d = None
        s = None
        if strict_fn is not None:
            try:
                s = strict_fn(t).hex()
            except Exception:
                s = None
        case = {"kind": "b64", "text": t.hex()}
        ctx.case(case, nontrivial=True, tags=("k:b64", "b64:ok" if d is not None else "b64:error"))
        if res is not None:
            if res[i] != d:
                ctx.mismatch(case, res[i], d, "b64decode(validate=True): model vs CPython")
            if strict_fn is not None and res[len(texts) + i] != s:
                ctx.mismatch(case, res[len(texts) + i], s, "_decode_token: model vs implementation")
        # O: the opener's decode accepts exactly one spelling per envelope
        if strict_fn is not None and s is not None and base64.b64encode(bytes.fromhex(s)) != t:
            fail(ctx, case, "C12:noncanonical-base64-accepted:decode", f"_decode_token accepted the non-canonical text {t!r}")


def k_response(ctx: Any, uniform: dict[str, Any]) -> None:
    """The single rejection body the campaign saw is the one the model's extracted raise sites give."""
    if ctx.driver is None or "body" not in uniform:
        return
    sites = ["_open_cursor_token#0", "_open_cursor_token#1", "_open_cursor_token#4", T._OPEN_CALL + "#1", "_unpack_plaintext#1",
             "_read_segment#0", "_resolve_call_from_token#1", "_unpack_and_recover_state#0"]
    res = ctx.driver.batch([("Token.response", {"site": s}) for s in sites])
    seen = None
    for item in uniform["body"].get("body", []):
        if isinstance(item, dict):
            seen = item["md"].get("vgi_rpc.log_message")
    for s, r in zip(sites, res):
        case = {"kind": "response", "site": s}
        ctx.case(case, nontrivial=True, tags=("k:response",))
        if r is None or seen != "RuntimeError: " + r[1] or uniform["body"]["status"] != 400:
            ctx.mismatch(case, r, {"message": seen, "status": uniform["body"]["status"]}, "response of a token rejection: model vs implementation")


# ------------------------------------------------------------------------------------------ campaign


def stream_spec(method: str, n: int, ident: Any, turns: int = 1, key: bytes = MAIN_KEY, t: int = T0, gap: int = 0) -> dict[str, Any]:
    d = {"method": method, "n": n, "ident": list(ident) if ident is not None else None, "turns": turns, "key": key.hex(), "t": t}
    if gap:
        d["gap"] = gap
    return d


def present(worker: str, ident: Any, method: str, now: float = T0 + 1, op: str = "continue", key: bytes | None = None) -> dict[str, Any]:
    d = {"worker": worker, "ident": list(ident) if ident is not None else None, "method": method, "now": now, "op": op}
    if key is not None:
        d["key"] = key.hex()
    return d


def campaign(ctx: Any, env: Env, uniform: dict[str, Any]) -> None:
    rng = ctx.rng
    pending: list[Any] = []
    full = ctx.tier == "thorough" or ctx.deep
    alice = ("user", "d", "alice")

    def go(case: dict[str, Any]) -> None:
        run_case(ctx, env, case, uniform, pending)
        if len(pending) >= 1500:
            flush_k(ctx, pending)

    # 0. positive controls: every method, warm and cold, continue and cancel, several identities
    for m in KIND:
        for idt in (None, alice, ("user", "", "anonymous")):
            sp = stream_spec(m, 3, idt, turns=1)
            for wk in ("warm", "cold"):
                for op in ("continue", "cancel"):
                    go({"stream": sp, "mutation": {"target": "none", "op": "none"}, "present": present(wk, idt, m, op=op)})
                go({"stream": sp, "cursor_index": 0, "mutation": {"target": "none", "op": "none"}, "present": present(wk, idt, m)})

    # 1. mutations of cursor and call tokens
    n_streams = ctx.budget(4, 40)
    methods = list(KIND)
    for si in range(n_streams):
        m = methods[si % len(methods)]
        idt = [alice, None, ("user", "ab", "c")][si % 3]
        sp = stream_spec(m, 10 + si, idt, turns=si % 3)
        st = env.mint(sp)
        for target, tok in (("cursor", st["cursors"][-1]), ("call", st["call"])):
            muts = mutation_list(ctx, tok, full and si < ctx.budget(1, 400))
            for mu in muts:
                workers = ("warm", "cold") if (target == "cursor" and rng.random() < 0.25) else ("cold",)
                for wk in workers:
                    op = "cancel" if rng.random() < 0.1 else "continue"
                    go({"stream": sp, "mutation": {"target": target, **mu}, "present": present(wk, idt, m, op=op)})
            # the call token on the warm worker is not consulted: a few, to measure it
            if target == "call":
                for mu in muts[:: max(1, len(muts) // 12)]:
                    go({"stream": sp, "mutation": {"target": target, **mu}, "present": present("warm", idt, m)})
        for tgt in ("swap", "cursor_as_call", "call_as_cursor"):
            for wk in ("warm", "cold"):
                go({"stream": sp, "mutation": {"target": tgt, "op": "swap"}, "present": present(wk, idt, m)})
        for wk in ("warm", "cold"):
            go({"stream": sp, "mutation": {"target": "call", "op": "absent"}, "present": present(wk, idt, m)})
            go({"stream": sp, "mutation": {"target": "cursor", "op": "absent"}, "present": present(wk, idt, m)})
    flush_k(ctx, pending)

    # 1b. non-canonical spellings of the last quantum: needs tokens whose envelope length is not a multiple of 3
    need = {("cursor", 1), ("cursor", 2), ("call", 1), ("call", 2)}
    for j in range(ctx.budget(40, 200)):
        if not need:
            break
        m = methods[j % len(methods)]
        sp = stream_spec(m, 800 + j, alice, turns=j % 2)
        st = env.mint(sp)
        for target, tok in (("cursor", st["cursors"][-1]), ("call", st["call"])):
            pad = len(tok) - len(tok.rstrip(b"="))
            if (target, pad) in need:
                need.discard((target, pad))
                for k in range(16):
                    for wk in ("warm", "cold"):
                        go({"stream": sp, "mutation": {"target": target, "op": "reencode", "how": "trailing_bits", "k": k},
                            "present": present(wk, alice, m)})
    ctx.note("padding_shapes_not_found", sorted(need))

    # 2. cross-stream pairs (same identity, same method; and other method's stream of the same identity)
    for i in range(ctx.budget(6, 80)):
        m = methods[i % len(methods)]
        a = stream_spec(m, 100 + i, alice, turns=i % 2)
        b = stream_spec(m, 200 + i, alice, turns=(i + 1) % 2)
        for wk in ("warm", "cold"):
            go({"stream": a, "other": b, "mutation": {"target": "call", "op": "replace_with_other"}, "present": present(wk, alice, m)})
            go({"stream": a, "other": b, "mutation": {"target": "cursor", "op": "replace_with_other"}, "present": present(wk, alice, m)})

    # 3. foreign keys (server keys of every length), incl. the same identity and method
    #    — and keys that *share bytes* with the server key (prefix / suffix / extension / rotation suffix), on both sides:
    #    a token sealed under any other operator key must be refused whatever the key derivation does with the bytes
    long_a, long_b = MAIN_KEY + b"-eu-west", MAIN_KEY + b"-us-east"
    pairs: list[tuple[bytes, bytes]] = [(MAIN_KEY, fk) for fk in (
        b"", b"\x01", b"k" * 31, b"K" * 32, b"k" * 33, b"k" * 64, hashlib.sha256(b"x").digest(),
        MAIN_KEY[:16], MAIN_KEY[:31], MAIN_KEY[:31] + b"x", b"x" + MAIN_KEY[1:], MAIN_KEY + b"\x00", MAIN_KEY + b"1",
        b"x" + MAIN_KEY, MAIN_KEY * 2, long_a)]
    pairs += [(long_a, long_b), (long_a, MAIN_KEY), (b"s" * 16, b"s" * 16 + b"\x00" * 16), (b"r" * 33, b"r" * 34), (b"q" * 64, b"q" * 63),
              (b"p" * 40 + b"v1", b"p" * 40 + b"v2")]
    for i, (ok, fk) in enumerate(pairs):
        m = methods[i % len(methods)]
        theirs = stream_spec(m, 300 + i, alice, turns=1, key=fk)
        ours = stream_spec(m, 300 + i, alice, turns=1, key=ok)
        for wk in ("warm", "cold"):
            # their tokens at our server
            go({"stream": theirs, "mutation": {"target": "none", "op": "none"}, "present": present(wk, alice, m, key=ok)})
            # our call token with their cursor, and the reverse
            go({"stream": ours, "other": theirs, "mutation": {"target": "cursor", "op": "replace_with_other"}, "present": present(wk, alice, m)})
            go({"stream": ours, "other": theirs, "mutation": {"target": "call", "op": "replace_with_other"}, "present": present(wk, alice, m)})
            # our tokens at their server
            go({"stream": ours, "mutation": {"target": "none", "op": "none"}, "present": present(wk, alice, m, key=fk)})
            # keys of any length serve their own tokens
            go({"stream": theirs, "mutation": {"target": "none", "op": "none"}, "present": present(wk, alice, m)})
            go({"stream": theirs, "mutation": {"target": "cursor", "op": "flip_raw", "pos": -1, "bit": 0}, "present": present(wk, alice, m)})
    flush_k(ctx, pending)

    # 4. identity pairs: tokens minted for A presented by B (all ordered pairs)
    for i, a in enumerate(IDENTS):
        m = methods[i % len(methods)]
        sp = stream_spec(m, 400 + i, a, turns=1)
        for b in IDENTS:
            for wk in ("warm", "cold"):
                if not full and rng.random() < 0.5 and a is not b:
                    continue
                go({"stream": sp, "mutation": {"target": "none", "op": "none"}, "present": present(wk, b, m)})
    # identity pairs with B's own call token and A's cursor (and reverse), same method
    for i in range(ctx.budget(10, 120)):
        a, b = rng.sample(IDENTS, 2)
        m = methods[i % len(methods)]
        sa, sb = stream_spec(m, 500 + i, a, turns=1), stream_spec(m, 500 + i, b, turns=1)
        for wk in ("warm", "cold"):
            go({"stream": sb, "other": sa, "mutation": {"target": "cursor", "op": "replace_with_other"}, "present": present(wk, b, m)})
            go({"stream": sb, "other": sa, "mutation": {"target": "call", "op": "replace_with_other"}, "present": present(wk, b, m)})
    flush_k(ctx, pending)

    # 5. clock offsets around the TTL (cursor minted at T0 + 7 by a later turn is still stamped … see spec["t"])
    for i, m in enumerate(methods):
        for idt in (alice, None):
            sp = stream_spec(m, 600 + i, idt, turns=0, t=T0 + 1000 * (i + 1))
            t0 = sp["t"]
            for d in (0, 0.999, env.ttl - 1, env.ttl - 0.001, env.ttl, env.ttl + 0.999, env.ttl + 1, env.ttl + 1.5, env.ttl + 2, 10 * env.ttl, 10**6, -1, -1000):
                for wk in ("warm", "cold"):
                    for op in ("continue", "cancel"):
                        go({"stream": sp, "mutation": {"target": "none", "op": "none"}, "present": present(wk, idt, m, now=t0 + d, op=op)})
    flush_k(ctx, pending)

    # 6. streams kept alive across the TTL: turns every `gap` seconds re-mint the cursor (always fresh) while the call
    #    token ages; once the call token is older than the TTL the stream must be refused on every worker — the warm
    #    one (its cache entry must not outlive the token) exactly like a cold one
    base_t = T0 + 100_000
    for i, gap in enumerate([10, 24, 25, 49, 50, 17, 7, 33][: ctx.budget(5, 8)]):
        for j, m in enumerate(methods if full else [methods[i % len(methods)], methods[(i + 1) % len(methods)]]):
            idt = alice if (i + j) % 2 == 0 else None
            turns = env.ttl // gap
            sp = stream_spec(m, 900 + 10 * i + j, idt, turns=turns, t=base_t + 1000 * (8 * i + j), gap=gap)
            last = sp["t"] + turns * gap          # when the presented cursor was minted
            for age in sorted({env.ttl - 1, env.ttl, env.ttl + 1, env.ttl + gap // 2, env.ttl + gap - 1, last - sp["t"] + env.ttl,
                               last - sp["t"] + env.ttl + 1, 2 * env.ttl}):
                if sp["t"] + age < last:
                    continue
                for wk in ("warm", "cold"):
                    for op in ("continue", "cancel"):
                        go({"stream": sp, "mutation": {"target": "none", "op": "none"},
                            "present": present(wk, idt, m, now=sp["t"] + age, op=op)})
    flush_k(ctx, pending)

    # 7. genuine tokens of one stream method replayed at another method's /exchange (a cross-stream presentation whose
    #    tokens are authentic for key, identity and clock): must be refused *before* the foreign state class is decoded
    #    or any hook runs — on the worker that minted them (cache hit), on a cold worker (AAD), and on a second worker
    #    whose cache was filled by a genuine turn
    for i, a in enumerate(methods):
        for j, b in enumerate(methods):
            if a == b:
                continue
            idt = alice if (i + j) % 2 else None
            sp = stream_spec(a, 1000 + 10 * i + j, idt, turns=1 + (i + j) % 2)
            st = env.mint(sp)
            # fill the second worker's cache through a genuine turn at the minting method
            go({"stream": sp, "mutation": {"target": "none", "op": "none"}, "present": present("second", idt, a)})
            for ci in range(len(st["cursors"])):
                for wk in ("warm", "cold", "second"):
                    for op in ("continue", "cancel"):
                        go({"stream": sp, "cursor_index": ci, "mutation": {"target": "none", "op": "none"},
                            "present": present(wk, idt, b, op=op)})
            # … also with the call token missing / garbled (the hit path never looks at it)
            for wk in ("warm", "second"):
                go({"stream": sp, "mutation": {"target": "call", "op": "absent"}, "present": present(wk, idt, b)})
                go({"stream": sp, "mutation": {"target": "call", "op": "flip_raw", "pos": -1, "bit": 0}, "present": present(wk, idt, b)})
    flush_k(ctx, pending)


def campaign_ttl0(ctx: Any, uniform: dict[str, Any]) -> None:
    """token_ttl = 0 disables expiry."""
    env = Env(ttl=0)
    pending: list[Any] = []
    try:
        for i, m in enumerate(KIND):
            sp = stream_spec(m, 700 + i, ("user", "d", "alice"), turns=1)
            for d in (0, 3600, 10**8):
                for wk in ("warm", "cold"):
                    run_case(ctx, env, {"ttl": 0, "stream": sp, "mutation": {"target": "none", "op": "none"},
                                        "present": present(wk, ("user", "d", "alice"), m, now=T0 + d)}, uniform, pending)
            run_case(ctx, env, {"ttl": 0, "stream": sp, "mutation": {"target": "cursor", "op": "flip_raw", "pos": 30, "bit": 3},
                                "present": present("cold", ("user", "d", "alice"), m, now=T0 + 10**8)}, uniform, pending)
        flush_k(ctx, pending)
    finally:
        env.close()


def run(ctx: Any) -> None:
    uniform: dict[str, Any] = {}
    if ctx.driver is not None:
        sh = ctx.driver.call("Token.shape", {})
        ctx.note("model_shape", sh)
    k_identity(ctx)
    k_keys(ctx)
    k_framing(ctx)
    k_base64(ctx)
    env = Env()
    try:
        campaign(ctx, env, uniform)
    finally:
        env.close()
    campaign_ttl0(ctx, uniform)
    k_response(ctx, uniform)
    ctx.note("uniform_rejection_body", uniform.get("body"))
    ctx.note("call_token_not_consulted_on_cache_hit", ctx.tags.get("call-not-consulted(warm)", 0))


def replay(ctx: Any, case: dict[str, Any]) -> None:
    kind = case.get("kind")
    if kind in ("aad", "aad-kinds"):
        k_identity(ctx)
        return
    if kind == "key":
        k_keys(ctx)
        return
    if kind in ("b64",):
        k_base64(ctx)
        return
    if kind is not None:
        k_framing(ctx)
        return
    env = Env(ttl=case.get("ttl", TTL))
    uniform: dict[str, Any] = {}
    pending: list[Any] = []
    try:
        # a reference rejection first, so that a deviating body is recognised on a single case
        ref = {"stream": case["stream"], "mutation": {"target": "cursor", "op": "flip_raw", "pos": -1, "bit": 0},
               "present": present("cold", case["stream"]["ident"], case["stream"]["method"])}
        run_case(ctx, env, ref, uniform, pending)
        run_case(ctx, env, case, uniform, pending)
        flush_k(ctx, pending)
    finally:
        env.close()
