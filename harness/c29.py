"""C29 — shared-memory transfer is transparent and releases every region.

Generated programs (unary / producer / exchange; plain, dictionary-encoded, zero-column and mixed batches; sized results and
requests; exchange inputs of several kinds incl. ones the server refuses) are run with generated client histories (partial
iteration, close / cancel, `release()` of held batches in any order incl. twice, a C++-style pointer request) over a shm-pipe
with segment sizes from `HEADER+1` upward and `SHM_MIN_BATCH_BYTES` set so that batch sizes straddle it.

K: after EVERY client operation the delivered events, the inputs the server's user code saw, the allocation table
   (`ShmAllocator._read_allocs()`: offsets and lengths) and the held-batch list (id, offset, released) equal the Lean model
   `C29.step` run on the same program with the sizes the code computes (`nbytes`, requested bytes).
O: (transparency) events, server-seen inputs and full delivered contents equal those of the same program over a plain pipe;
   (accounting) whenever no stream is open the allocated offsets are exactly those referenced by unreleased held batches, and
   after the caller releases everything the table is empty; (no reuse) every unreleased held zero-copy batch still reads as it
   was delivered after every later operation, and no two unreleased batches share an offset.
"""

import json
from typing import Any

import pyarrow as pa

from harness.common import shmsvc, svcgen
from harness.common.lean import s2j
from harness.common.shmsvc import RunCfg
from harness.c01 import dexc, dlog, dstep, gen_exc, gen_logs, model_ev

PROPERTY = "C29"
LEAN_MODULES = ["VgiVerif.Proofs.C29"]
OBLIGATIONS = [
    "VgiVerif.C29.C29_shapes",
    "VgiVerif.C29.C29_transparent",
    "VgiVerif.C29.C29_unary_refines",
    "VgiVerif.C29.C29_producer_refines",
    "VgiVerif.C29.C29_exchange_refines",
    "VgiVerif.C29.C29_invariant",
    "VgiVerif.C29.C29_accounting",
    "VgiVerif.C29.C29_released_all",
    "VgiVerif.C29.C29_no_reuse",
    "VgiVerif.C29.C29_held_intact",
    "VgiVerif.C29.firstFit_laws",
]
EXTRACTORS = ["gen_c29"]
TRUSTED = [
    "Arrow IPC bytes, `_serialize_for_shm` / `_deserialize_from_shm`, the pipe and the mmap are abstracted in the model (a wire "
    "item is one classified batch; a region holds the batch last written to it); they are exercised for real by the "
    "correspondence run, which compares full delivered contents with inline transfer",
    "the allocator is abstract in the theorems (contract `AllocLaws`: alloc returns a region disjoint from every live one and "
    "adds exactly it; free removes exactly the region at that offset) — C28 owns the allocator's own invariants and write "
    "containment (bytes written <= bytes allocated); `firstFit` (transliteration of ShmAllocator) is proved to satisfy the contract",
    "schemas are abstracted in the model: the delivered schema (types incl. nested children, nullability, field and schema "
    "metadata) is compared with inline delivery by the oracle, and the decode shape of `_deserialize_from_shm` is extracted",
    "batch sizes (`nbytes`, requested bytes) are measured by the harness with the code's own formulas and passed to the model",
    "the C++-style client that offers its request batch to the segment is emulated in the harness (`call_via_shm_request`)",
]
PARTIAL = [
    "a client that writes an exchange input whose schema differs from its own earlier inputs fails in its own `write_batch` "
    "after the region was allocated (TransportError, connection unusable): that region is not reclaimed; excluded from the "
    "generated histories (the session's inputs share one schema)",
    "`on_log` callbacks that raise, and dynamic (per-request attach) segments, are not generated",
]
RULE = (
    "program = 2-5 methods (unary int/bytes results of 0-300 payload bytes; producer/exchange with okind int/dict/zero/mix, dictA/dictB/dictC "
    "(schemas equal for pyarrow but with different field / schema metadata, used in one process) or ndl/nds/ndm (dictionary "
    "nested in list / struct / map), "
    "0-5 steps, rows chosen so nbytes straddles the threshold, optional header / init failure / early input release) x history "
    "(calls with 0-200 padding bytes std or pointer-request; sessions ticked 0..len+2 times then close/cancel; exchange inputs "
    "int/dict/int32/renamed/extra; release(k) anywhere, repeated) x threshold in {0,1,8,16,64,100,4096,131072} x segment size in "
    "{H+1, H+4000, H+4272, H+4400, H+9000, H+13000, H+30000, 1 MiB}; a case = (program, history, threshold, segment); "
    "non-trivial when at least one batch went through the segment; distinct by canonical JSON"
)
MANIFEST = {
    "level": "proof",
    "text": "Lean theorems over an executable model of the shm side channel, for ALL allocators satisfying the contract, thresholds, "
            "size functions and client histories: the observations equal those of inline transfer (and of Engine.Sem), the live "
            "regions are exactly those referenced by unreleased batches (none after release-all), no allocation overlaps a "
            "referenced region and every held batch still reads as written; per-operation correspondence ties the model "
            "(events, allocation table, held list) to the real ShmPipeTransport",
    "note": "Arrow serialisation and the allocator internals are abstracted (C28); sizes are measured; three leaks / one double-free "
            "found on the pinned tree are fixed in the code and the repaired code is what is modelled",
    "technique": "Lean 4 proof (simulation to an inline machine + Engine refinement; inductive invariant over histories with an "
                 "abstract allocator contract) + generated-program differential correspondence on the allocation table",
}

H = shmsvc.shm_mod.HEADER_SIZE
THRS = [0, 0, 1, 1, 8, 8, 16, 16, 64, 64, 100, 100, 4096, 131072]          # weighted: small thresholds route more
SEGS = [H + 1, H + 4000, H + 4272, H + 4272, H + 4400, H + 4400, H + 9000, H + 9000, H + 13000, H + 13000, H + 30000, H + 30000,
        1 << 20, 1 << 20, 1 << 20]
OKINDS = ["int", "int", "dict", "zero", "mix", "dictA", "dictB", "dictC", "ndl", "nds", "ndm"]
PER_ROW = {"int": 8, "dict": 4, "dictA": 4, "dictB": 4, "dictC": 4, "zero": 1, "mix": 20, "ndl": 16, "nds": 16, "ndm": 22}
SIBLINGS = {"dictA": ["dictB", "dictC"], "dictB": ["dictA", "dictC"], "dictC": ["dictA", "dictB"], "dict": ["dictA"]}


# ------------------------------------------------------------------------------------------ generators


class Ids:
    def __init__(self) -> None:
        self.n = 10

    def next(self) -> int:
        self.n += 1
        return self.n


def rows_near(rng: Any, thr: int, per_row: int) -> int:
    base = max(1, thr // max(1, per_row))
    return max(0, rng.choice([base - 1, base, base + 1, 1, 2, 0 if rng.random() < 0.15 else 3, base * 2]))


def gen_batch(rng: Any, ids: Ids, thr: int, kind: str) -> dict[str, Any]:
    meta = {}
    if rng.random() < 0.3:
        meta[rng.choice(["a", "app.key", "z"])] = rng.choice(["b", "", "ü", "1"])
    per = PER_ROW[kind]
    rows = rows_near(rng, thr, per)
    if kind == "zero" and rows > 2000:
        rows = 2000
    return {"id": ids.next(), "rows": min(rows, 40000), "meta": meta}


def gen_steps(rng: Any, ids: Ids, thr: int, kind: str, exchange: bool) -> list[dict[str, Any]]:
    n = rng.choice([0, 1, 2, 3, 4, 5])
    steps = []
    for k in range(n):
        last = k == n - 1
        r = rng.random()
        if not exchange and last and r < 0.4:
            act: Any = rng.choice(["finish", {"emit_finish": gen_batch(rng, ids, thr, kind)}])
        elif last and r < 0.55:
            act = rng.choice([{"raise": gen_exc(rng)}, "nothing"])
        elif exchange and last and r < 0.62:
            act = "finish"
        else:
            act = {"emit": gen_batch(rng, ids, thr, kind)}
        emits = isinstance(act, dict) and ("emit" in act or "emit_finish" in act)
        steps.append({"logs": gen_logs(rng, 2), "act": act, "post": gen_logs(rng, 1) if emits else []})
    return steps


def gen_service(rng: Any, ids: Ids, thr: int) -> dict[str, Any]:
    methods = []
    for i in range(rng.choice([2, 3, 4, 5])):
        kind = rng.choice(["unary", "producer", "producer", "exchange", "exchange"])
        if kind == "unary":
            rk = rng.choice(["int", "bytes"])
            if rng.random() < 0.8:
                out: dict[str, Any] = {"ok": ids.next(), "n": rng.choice([0, 1, max(0, thr - 9), thr, thr + 1, 50, 300]) if rk == "bytes" else 0}
                out["n"] = min(out["n"], 200000)
            else:
                out = {"raise": gen_exc(rng)}
            methods.append({"name": f"u{i}", "kind": "unary", "rk": rk, "logs": gen_logs(rng, 2), "out": out})
        else:
            okind = rng.choice(OKINDS)
            init: Any = "ok" if rng.random() < 0.88 else {"raise": gen_exc(rng)}
            methods.append({"name": f"{kind[0]}{i}", "kind": kind, "okind": okind, "ikind": rng.choice(["int", "int", "dict"]),
                            "early": kind == "exchange" and rng.random() < 0.25, "header": rng.random() < 0.3,
                            "hdr": rng.randrange(100), "init_logs": gen_logs(rng, 2), "init": init,
                            "steps": gen_steps(rng, ids, thr, okind, kind == "exchange")})
    # schemas that pyarrow considers equal but that carry different metadata, used in ONE process
    for m in list(methods):
        if m["kind"] != "unary" and m.get("okind") in SIBLINGS and rng.random() < 0.7:
            ok = rng.choice(SIBLINGS[m["okind"]])
            methods.append({"name": f"s{len(methods)}", "kind": "producer", "okind": ok, "ikind": "int", "early": False,
                            "header": rng.random() < 0.2, "hdr": 1, "init_logs": [], "init": "ok",
                            "steps": gen_steps(rng, ids, thr, ok, False)})
    if not any(m["kind"] != "unary" for m in methods):
        methods.append({"name": "px", "kind": "producer", "okind": "int", "ikind": "int", "early": False, "header": False, "hdr": 0,
                        "init_logs": [], "init": "ok", "steps": gen_steps(rng, ids, thr, "int", False)})
    return {"methods": methods}


def gen_script(rng: Any, ids: Ids, thr: int, desc: dict[str, Any]) -> list[list[Any]]:
    script: list[list[Any]] = []
    nheld = 0

    def maybe_release() -> None:
        while rng.random() < 0.35:
            script.append(["release", rng.randrange(nheld + 2)])

    for _ in range(rng.choice([2, 3, 4, 6, 8])):
        m = rng.choice(desc["methods"])
        if m["kind"] == "unary":
            pad = min(rng.choice([0, 0, 1, max(0, thr - 17), thr, thr + 1, 200]), 200000)
            script.append(["call", m["name"], ids.next(), pad, rng.choice(["std", "std", "shmreq"])])
        elif m["kind"] == "producer":
            script.append(["open", m["name"], 1])
            for _k in range(rng.choice([0, 1, 2, len(m["steps"]), len(m["steps"]) + 1, len(m["steps"]) + 2])):
                script.append(["tick"])
                nheld += 1
                maybe_release()
            script.append([rng.choice(["close", "close", "cancel"])])
        else:
            script.append(["open", m["name"], 1])
            variant = m["ikind"] if rng.random() < 0.8 else rng.choice(["int32", "renamed", "extra"])
            per = 8 if variant != "dict" else 4
            for _k in range(rng.choice([0, 1, 2, len(m["steps"])]) if m["steps"] else rng.choice([0, 1])):
                if _k >= len(m["steps"]) and m["steps"]:
                    break
                script.append(["send", ids.next(), max(1, rows_near(rng, thr, per)), variant])
                nheld += 1
                maybe_release()
            script.append([rng.choice(["close", "close", "cancel"])])
        maybe_release()
    # equal-looking schemas (metadata variants) are all exercised in this one process, one after the other
    sib = [m for m in desc["methods"] if m["kind"] == "producer" and m.get("okind") in SIBLINGS and m.get("init", "ok") == "ok"]
    if len(sib) >= 2:
        for m in sib + [sib[0]]:
            script.append(["open", m["name"], 1])
            for _k in range(rng.choice([1, 2])):
                script.append(["tick"])
                nheld += 1
            script.append(["close"])
            maybe_release()
    return script


# ------------------------------------------------------------------------------------------ program → model


def coerce_exn(m: dict[str, Any], variant: str, ident: int, rows: int) -> dict[str, Any] | None:
    """What `_coerce_input_batch` does with this input (None: accepted / cast)."""
    target = shmsvc.IN_SCHEMAS[m.get("ikind", "int")]
    b = shmsvc.mk_in(variant, ident, rows)
    if b.schema == target:
        return None
    if set(b.schema.names) != set(target.names):
        return {"type": s2j("TypeError"), "text": s2j(f"Input schema mismatch: expected {target}, got {b.schema}"), "kind": None}
    try:
        b.cast(target)
    except (pa.ArrowInvalid, pa.ArrowNotImplementedError, ValueError):
        return {"type": s2j("TypeError"), "text": s2j(f"Input schema mismatch: expected {target}, got {b.schema}"), "kind": None}
    return None


def to_model(desc: dict[str, Any], script: list[list[Any]]) -> dict[str, Any]:
    """Model ops + size table + per-script-op plan: ("m", model index, prefix events) or ("fixed", events)."""
    P, _impl = shmsvc.build(desc)
    by = {m["name"]: m for m in desc["methods"]}
    sizes: dict[tuple[int, int], tuple[int, int]] = {}

    def reg(ident: int, rows: int, batch: pa.RecordBatch) -> None:
        sizes[(ident, rows)] = shmsvc.sizes_of(batch)

    ops: list[Any] = []
    plan: list[Any] = []
    cur: dict[str, Any] | None = None      # method of the open session (None: no session object)
    live_model_session = False
    for op in script:
        k = op[0]
        if k == "call":
            m = by[op[1]]
            a, padlen, via = op[2], op[3], op[4]
            out = m["out"]
            d: dict[str, Any] = {"logs": [dlog(x) for x in m["logs"]],
                                 "out": {"ok": out["ok"]} if "ok" in out else {"raise": dexc(out["raise"])}, "req": None}
            if "ok" in out:
                val = out["ok"] if m.get("rk", "int") == "int" else shmsvc.payload(out["ok"], out.get("n", 0))
                reg(out["ok"], 1, shmsvc.result_batch(P, m["name"], val))
            if via == "shmreq":
                d["req"] = {"id": a, "rows": 1}
                reg(a, 1, shmsvc.request_batch(P, m["name"], a, shmsvc.payload(a, padlen)))
            ops.append(["call", d])
            plan.append(("m", len(ops) - 1, []))
        elif k == "open":
            m = by[op[1]]
            init = m.get("init", "ok")
            hdr = bool(m.get("header"))
            cur = m
            for st in m["steps"]:
                act = st["act"]
                if isinstance(act, dict) and ("emit" in act or "emit_finish" in act):
                    b = act.get("emit") or act.get("emit_finish")
                    reg(b["id"], b.get("rows", 1), shmsvc.mk_out(m.get("okind", "int"), b["id"], b.get("rows", 1)))
            if hdr and init != "ok":
                # the error is read in place of the header: open() raises, no session object, nothing on the wire afterwards
                # (the logs the method emitted before it raised are flushed in front of the error)
                ev = svcgen.exc_view(init["raise"])
                pre = [["log", x["level"], x["text"], sorted([list(i) for i in x.get("extra", {}).items()])] for x in m["init_logs"]]
                plan.append(("fixed", pre + [["error", ev["type"], f"{ev['type']}: {ev['text']}", ev["kind"]]]))
                cur = None
                live_model_session = False
                continue
            pre = []
            if hdr:
                pre = [["log", x["level"], x["text"], sorted([list(i) for i in x.get("extra", {}).items()])] for x in m["init_logs"]]
                pre.append(["header", m.get("hdr", 0)])
            ops.append(["open", {"exch": m["kind"] == "exchange", "early": bool(m.get("early")),
                                 "init": None if init == "ok" else dexc(init["raise"]),
                                 "init_logs": [] if hdr else [dlog(x) for x in m["init_logs"]],
                                 "steps": [dstep(s) for s in m["steps"]]}])
            plan.append(("m", len(ops) - 1, pre))
            live_model_session = True
        elif k == "release":
            ops.append(["release", op[1]])
            plan.append(("m", len(ops) - 1, []))
        elif cur is None or not live_model_session:
            plan.append(("fixed", [["nosession"]]))
        elif k == "tick":
            ops.append(["tick"])
            plan.append(("m", len(ops) - 1, []))
        elif k == "send":
            ident, rows, variant = op[1], op[2], op[3]
            reg(ident, rows, shmsvc.mk_in(variant, ident, rows))
            ops.append(["send", {"id": ident, "rows": rows}, coerce_exn(cur, variant, ident, rows)])
            plan.append(("m", len(ops) - 1, []))
        elif k in ("close", "cancel"):
            ops.append([k])
            plan.append(("m", len(ops) - 1, []))
        else:
            raise ValueError(k)
    return {"ops": ops, "plan": plan, "sizes": [[i, r, nb, nd] for (i, r), (nb, nd) in sorted(sizes.items())]}


def canon_ev(e: list[Any]) -> list[Any] | None:
    k = e[0]
    if k in ("log", "data"):
        return [k, e[1], e[2], sorted([list(x) for x in e[3].items()])]
    if k == "error":
        return ["error", e[1], e[2], e[3]]
    if k in ("value", "header"):
        return [k, e[1]]
    if k in ("end", "nosession"):
        return [k]
    if k in ("opened", "closed", "cancelled"):
        return None
    return list(e)


def impl_trace(trace: list[list[Any]]) -> list[list[Any]]:
    return [[x for x in (canon_ev(e) for e in evs) if x is not None] for evs in trace]


def srv_seen(events: list[tuple[Any, ...]]) -> list[Any]:
    """What the server's user code was handed, in order: request args and exchange inputs."""
    out = []
    for e in events:
        if e[0] == "invoke":
            out.append(["invoke", e[1], e[2], e[3], e[4]])
        elif e[0] == "process" and e[3] is not None:
            out.append(["input", e[1], e[3], e[4], e[5]])
    return out


# ------------------------------------------------------------------------------------------ one case


def check_one(ctx: Any, desc: dict[str, Any], script: list[list[Any]], thr: int, seg: int) -> None:
    case = {"service": desc, "script": script, "thr": thr, "seg": seg}
    tm = to_model(desc, script)
    # ---- model
    model = None
    total = None
    if ctx.driver is not None:
        # the segment's actual size is only known once created (page rounding); Linux keeps the requested size
        total = seg
        model = ctx.driver.call("C29.run", {"total": total, "shm": True, "thr": thr, "sizes": tm["sizes"], "ops": tm["ops"]})
    expect_tables: list[Any] | None = None
    if model is not None:
        expect_tables = []
        last: list[Any] = []
        for p in tm["plan"]:
            if p[0] == "m":
                last = model[p[1]]["live"]
            expect_tables.append(last)
    # ---- implementation: shm-pipe and plain pipe
    r = shmsvc.run_script(desc, script, RunCfg("shm", seg, thr), expect_tables=expect_tables)
    r0 = shmsvc.run_script(desc, script, RunCfg("pipe", 0, thr))
    routed = any(h[1] is not None for hs in r["held"] for h in hs) or any(t for t in r["tables"] if t)
    tags = [f"thr:{thr}", f"seg:{'H+' + str(seg - H) if seg < (1 << 20) else '1MiB'}", "routed" if routed else "all-inline"]
    for m in desc["methods"]:
        if m["kind"] != "unary":
            tags.append(f"okind:{m.get('okind')}")
    if any(op[0] == "release" for op in script):
        tags.append("release")
    if any(op[0] == "call" and op[4] == "shmreq" for op in script):
        tags.append("pointer-request")
    ctx.case(case, nontrivial=routed, tags=tuple(sorted(set(tags))))
    if r["hung"] or r0["hung"] or len(r["trace"]) != len(script) or len(r0["trace"]) != len(script):
        ctx.fail(case, f"C29:hung:{'shm' if r['hung'] or len(r['trace']) != len(script) else 'pipe'}",
                 f"script did not complete (ops done shm {len(r['trace'])}/{len(script)}, pipe {len(r0['trace'])}/{len(script)})")
        return
    if r["total"] != seg and model is not None:
        ctx.note("segment_size_rounded", [seg, r["total"]])
    it, it0 = impl_trace(r["trace"]), impl_trace(r0["trace"])

    # ---- O1 transparency: identical to inline transfer
    for i, (a, b) in enumerate(zip(it, it0)):
        if a != b:
            what = "data" if [e for e in a if e[0] == "data"] != [e for e in b if e[0] == "data"] else (
                "value" if [e for e in a if e[0] == "value"] != [e for e in b if e[0] == "value"] else "events")
            ctx.fail(dict(case, op_index=i), f"C29:transparency:{script[i][0]}:{what}",
                     f"op {i} {script[i]}: over shm {json.dumps(a)[:300]} but inline {json.dumps(b)[:300]}")
            return
    if r["contents"] != r0["contents"]:
        i = next(i for i, (a, b) in enumerate(zip(r["contents"], r0["contents"])) if a != b) if len(r["contents"]) == len(r0["contents"]) else -1
        what, detail = "content", ""
        if i >= 0:
            ca, cb = json.loads(r["contents"][i]), json.loads(r0["contents"][i])
            what = "schema" if ca["schema"] != cb["schema"] else "values"
            detail = f": over shm {ca[what][:300]} but inline {cb[what][:300]}"
        ctx.fail(dict(case, batch_index=i), f"C29:transparency:{what}",
                 f"delivered batch #{i} differs from inline delivery in its {what} (schema = names, types, nullability, field and "
                 f"schema metadata){detail}")
        return
    if srv_seen(r["events"]) != srv_seen(r0["events"]):
        ctx.fail(case, "C29:transparency:server-input", "the server's user code saw different requests / inputs over shm than inline: "
                 f"{json.dumps(srv_seen(r['events']))[:300]} vs {json.dumps(srv_seen(r0['events']))[:300]}")
        return
    for e in srv_seen(r["events"]):
        if e[0] == "invoke" and e[4] is not True:
            ctx.fail(case, "C29:transparency:request", f"request padding arrived altered: {e}")
            return

    # ---- O2 no reuse: held zero-copy batches still read as delivered; unreleased batches never share an offset
    for i, can in enumerate(r["canary"]):
        if not all(can):
            ctx.fail(dict(case, op_index=i), f"C29:reuse:held-batch-overwritten:after-{script[i][0]}",
                     f"after op {i} {script[i]} an unreleased held batch no longer reads as it was delivered")
            return
        offs = [h[1] for h in r["held"][i] if h[1] is not None and not h[2]]
        if len(offs) != len(set(offs)):
            ctx.fail(dict(case, op_index=i), f"C29:reuse:offset-handed-out-twice:after-{script[i][0]}",
                     f"after op {i} {script[i]} two unreleased batches reference the same offset: {sorted(offs)}")
            return

    # ---- O3 accounting: no open stream => allocated offsets == offsets of unreleased held batches; release-all => empty
    ft = r["final_table"] or []
    if sorted(x[0] for x in ft) != r["final_refs"]:
        leaked = sorted(set(x[0] for x in ft) - set(r["final_refs"]))
        dangling = sorted(set(r["final_refs"]) - set(x[0] for x in ft))
        kind = "leak" if leaked else "freed-while-referenced"
        # name the operation after which the surplus region first appears and never goes away
        ctx.fail(case, f"C29:accounting:{kind}:{blame(script, r, leaked or dangling)}",
                 f"after the last call: allocated {ft}, referenced by unreleased batches {r['final_refs']} "
                 f"(leaked {leaked}, dangling {dangling})")
        return
    if r["after_release_all"]:
        ctx.fail(case, "C29:accounting:leak:after-release-all", f"after releasing every held batch the table still holds {r['after_release_all']}")
        return

    # ---- K: model vs implementation, after every operation
    if model is None:
        return
    for i, p in enumerate(tm["plan"]):
        ccase = dict(case, op_index=i)
        if p[0] == "fixed":
            if it[i] != p[1]:
                ctx.mismatch(ccase, p[1], it[i], f"op {i} {script[i]}: events (no model op)")
                return
            continue
        mo = model[p[1]]
        mev = p[2] + [model_ev(e) for e in mo["evs"]]
        if it[i] != mev:
            ctx.mismatch(ccase, mev, it[i], f"op {i} {script[i]}: delivered events")
            return
        if r["tables"][i] != mo["live"]:
            ctx.mismatch(ccase, mo["live"], r["tables"][i], f"op {i} {script[i]}: allocation table after the operation")
            return
        mh = [[h[0], h[1], h[2]] for h in mo["held"]]
        if r["held"][i] != mh:
            ctx.mismatch(ccase, mh, r["held"][i], f"op {i} {script[i]}: held batches (id, offset, released)")
            return
    # inputs the server's user code saw, in order
    i_in = [[e[2], e[3]] for e in srv_seen(r["events"]) if e[0] == "input"]
    m_in_streams = [x for p in tm["plan"] if p[0] == "m" and tm["ops"][p[1]][0] == "send" for x in model[p[1]]["srv"]]
    if i_in != m_in_streams:
        ctx.mismatch(case, m_in_streams, i_in, "exchange inputs as seen by process()")


def blame(script: list[list[Any]], r: dict[str, Any], offs: list[int]) -> str:
    """Kind of the first operation after which a surplus offset is in the table for good."""
    if not offs:
        return "?"
    o = offs[0]
    first = None
    for i in range(len(script) - 1, -1, -1):
        t = r["tables"][i] or []
        if any(x[0] == o for x in t):
            first = i
        else:
            break
    if first is None:
        return "end"
    op = script[first]
    return f"{op[0]}" + (f":{op[3]}" if op[0] == "send" else "")


# ------------------------------------------------------------------------------------------ corpus


def _corpus() -> list[tuple[dict[str, Any], list[list[Any]], int, int]]:
    L = lambda t, lvl="INFO", **x: {"level": lvl, "text": t, "extra": x}  # noqa: E731
    E = lambda c, a: {"raise": {"cls": c, "arg": a}}  # noqa: E731
    S = lambda act, logs=(), post=(): {"logs": list(logs), "act": act, "post": list(post)}  # noqa: E731
    d1 = {"methods": [
        {"name": "p", "kind": "producer", "okind": "int", "header": False, "init_logs": [L("i")], "init": "ok",
         "steps": [S({"emit": {"id": 101, "rows": 4}}, [L("a")], [L("z")]), S({"emit": {"id": 102, "rows": 4}}),
                   S({"emit": {"id": 103, "rows": 4}}), S({"emit_finish": {"id": 104, "rows": 9, "meta": {"a": "b"}}}, [], [L("pz")])]},
        {"name": "pd", "kind": "producer", "okind": "dict", "header": True, "hdr": 7, "init_logs": [L("hi")], "init": "ok",
         "steps": [S({"emit": {"id": 111, "rows": 5}}), S({"emit": {"id": 112, "rows": 0}}), S(E("ValueError", "mid"), [L("lost")])]},
        {"name": "pz", "kind": "producer", "okind": "zero", "header": False, "init_logs": [], "init": "ok",
         "steps": [S({"emit": {"id": 121, "rows": 3}}), S({"emit": {"id": 122, "rows": 1, "meta": {"k": "v"}}}), S("finish")]},
        {"name": "x", "kind": "exchange", "okind": "mix", "ikind": "int", "early": False, "header": False, "init_logs": [L("xi")], "init": "ok",
         "steps": [S({"emit": {"id": 131, "rows": 2}}, [L("e0")], [L("after0")]), S({"emit": {"id": 132, "rows": 2}}), S("nothing")]},
        {"name": "xe", "kind": "exchange", "okind": "int", "ikind": "dict", "early": True, "header": False, "init_logs": [], "init": "ok",
         "steps": [S({"emit": {"id": 141, "rows": 2}}), S({"emit": {"id": 142, "rows": 2}}), S({"emit": {"id": 143, "rows": 2}})]},
        {"name": "xf", "kind": "exchange", "okind": "int", "ikind": "int", "early": False, "header": False, "init_logs": [L("lost")],
         "init": E("CustomError", "initfail"), "steps": []},
        {"name": "u", "kind": "unary", "rk": "int", "logs": [L("ul", k="v")], "out": {"ok": 5}},
        {"name": "ub", "kind": "unary", "rk": "bytes", "logs": [], "out": {"ok": 6, "n": 300}},
        {"name": "ue", "kind": "unary", "rk": "int", "logs": [L("before")], "out": E("KindedError", "k")},
    ]}
    # double release of a batch whose offset was handed out again (the witness of the fixed double-free)
    s_double = [["open", "p", 1], ["tick"], ["release", 0], ["tick"], ["release", 0], ["tick"], ["tick"], ["tick"], ["close"]]
    # an input the server refuses, routed through the segment (witness of the fixed coercion leak)
    s_coerce = [["open", "x", 1], ["send", 201, 3, "renamed"], ["close"], ["call", "u", 202, 0, "std"],
                ["open", "x", 1], ["send", 203, 3, "extra"], ["close"], ["open", "x", 1], ["send", 204, 3, "int32"], ["close"]]
    # first input of a stream whose init failed (witness of the fixed drain leak)
    s_initfail = [["open", "xf", 1], ["send", 211, 3, "int"], ["close"], ["call", "u", 212, 0, "std"], ["open", "xf", 1], ["close"]]
    s_mixed = [["call", "u", 221, 0, "std"], ["call", "ub", 222, 120, "shmreq"], ["call", "ue", 223, 40, "shmreq"],
               ["open", "pd", 1], ["tick"], ["tick"], ["tick"], ["close"],
               ["open", "pz", 1], ["tick"], ["tick"], ["tick"], ["tick"], ["close"],
               ["open", "x", 1], ["send", 224, 2, "int"], ["release", 3], ["send", 225, 50, "int"], ["send", 226, 2, "int"], ["close"],
               ["open", "xe", 1], ["send", 227, 6, "dict"], ["send", 228, 6, "dict"], ["cancel"], ["release", 0], ["release", 1]]
    s_partial = [["open", "p", 1], ["tick"], ["cancel"], ["open", "p", 1], ["tick"], ["tick"], ["close"], ["release", 1],
                 ["open", "x", 1], ["send", 231, 2, "int"], ["close"]]
    # schema shapes: equal-looking dictionary schemas with different metadata in one process; nested dictionary children
    P = lambda name, kind, base, n=2, rows=6: {"name": name, "kind": "producer", "okind": kind, "header": False, "init_logs": [],  # noqa: E731
                                               "init": "ok", "steps": [S({"emit": {"id": base + k, "rows": rows}}) for k in range(n)]}
    d2 = {"methods": [P("da", "dictA", 301), P("db", "dictB", 311), P("dc", "dictC", 321), P("nl", "ndl", 331), P("ns", "nds", 341),
                      P("nm", "ndm", 351, 2, 9),
                      {"name": "xn", "kind": "exchange", "okind": "ndl", "ikind": "dict", "early": False, "header": False, "init_logs": [],
                       "init": "ok", "steps": [S({"emit": {"id": 361 + k, "rows": 5}}) for k in range(2)]},
                      {"name": "u", "kind": "unary", "rk": "int", "logs": [], "out": {"ok": 5}}]}
    run_p = lambda n, k=2: [["open", n, 1]] + [["tick"]] * k + [["close"]]  # noqa: E731
    s_meta = run_p("da") + run_p("db") + run_p("da", 1) + run_p("dc") + run_p("db", 1) + [["release", 0], ["release", 3]]
    s_nested = (run_p("nl") + [["call", "u", 371, 0, "std"]] + run_p("ns") + run_p("nm") + [["open", "xn", 1], ["send", 372, 4, "dict"],
                ["send", 373, 4, "dict"], ["close"], ["call", "u", 374, 0, "shmreq"], ["release", 1]])
    out = []
    for s in (s_meta, s_nested):
        for thr, seg in ((0, 1 << 20), (16, H + 30000)):
            out.append((d2, s, thr, seg))
    for s in (s_double, s_coerce, s_initfail, s_mixed, s_partial):
        for thr, seg in ((0, 1 << 20), (1, H + 13000), (16, H + 4400), (0, H + 1), (131072, 1 << 20)):
            out.append((d1, s, thr, seg))
    return out


def _exhaustive_small(ctx: Any) -> int:
    """Every history of length 5 over {tick / send, release 0, release 1} on a 3-batch producer and a 3-step exchange whose
    batches all request the same number of bytes (so freed offsets are handed out again at once), for two segment sizes."""
    import itertools

    S = lambda act: {"logs": [], "act": act, "post": []}  # noqa: E731
    desc = {"methods": [
        {"name": "p", "kind": "producer", "okind": "int", "header": False, "init_logs": [], "init": "ok",
         "steps": [S({"emit": {"id": 501 + k, "rows": 4}}) for k in range(4)]},
        {"name": "x", "kind": "exchange", "okind": "int", "ikind": "int", "early": False, "header": False, "init_logs": [], "init": "ok",
         "steps": [S({"emit": {"id": 511 + k, "rows": 4}}) for k in range(4)]},
    ]}
    n = 0
    for meth in ("p", "x"):
        for seq in itertools.product("T01", repeat=5):
            script: list[list[Any]] = [["open", meth, 1]]
            k = 0
            for ch in seq:
                if ch == "T":
                    script.append(["tick"] if meth == "p" else ["send", 600 + k, 4, "int"])
                    k += 1
                else:
                    script.append(["release", int(ch)])
            script.append(["close"])
            for seg in (H + 3 * 4272, 1 << 20):
                check_one(ctx, desc, script, 1, seg)
                n += 1
    return n


def run(ctx: Any) -> None:
    rng = ctx.rng
    if ctx.tier == "thorough":
        ctx.note("exhaustive_small_histories", _exhaustive_small(ctx))
    corpus = _corpus()
    if ctx.tier != "thorough" and not ctx.deep:
        corpus = corpus[:4] + corpus[4::2] + corpus[5:10:2]
    for desc, script, thr, seg in corpus:
        check_one(ctx, desc, script, thr, seg)
    for _ in range(ctx.budget(110, 1800)):
        thr = rng.choice(THRS)
        ids = Ids()
        desc = gen_service(rng, ids, thr)
        script = gen_script(rng, ids, thr, desc)
        seg = rng.choice(SEGS)
        check_one(ctx, desc, script, thr, seg)


def replay(ctx: Any, case: dict[str, Any]) -> None:
    check_one(ctx, case["service"], case["script"], case["thr"], case["seg"])
