"""C23 — proof nonces cannot be replayed within the window (vgi_rpc/http/_replay.py, NonceCache).

K (correspondence)
  K0  constructor validation and DEFAULT_CAPACITY vs the model / the extracted constants.
  K1  sequential: generated + exhaustively enumerated op lists (clock readings non-monotone included) run on the
      real `NonceCache` (injected clock) and on the Lean model: result, the whole `_entries` dict in order with
      expiries, `_evicted`, `_replays`, `len()` and `stats()` after EVERY operation.
  K2  concurrent: the real `NonceCache` (default clock = the module's `time.monotonic`) under the deterministic
      scheduler (`harness/common/detsched.py`: `threading` / `time` substituted in the module object, optional
      line-level preemption inside `check_and_add` / `_sweep`), 2–3 threads with overlapping nonce sequences and
      clock advances, capacities 1..4.  Every trace must be a run of the Lean transition system (`C23.accepts`,
      trace inclusion with the internal critical-section steps inserted by the model), the model's linearised
      history must equal the one read off the trace (lock-acquisition order, real results), and the model's final
      cache must equal the real `_entries`.
O (direct oracle, Python, from the property text; cross-checked against the Lean spec's executable monitor)
  replay safety of the real results in lock-acquisition order (clock readings; and, when the clock is monotone,
  true time: a call that RETURNS inside the window of an accepted nonce must have been rejected), an order-free variant that needs no lock events, and size <= capacity at every observation
  (after each call, at the end, and — observer thread — in the middle of other threads' critical sections).
"""

from __future__ import annotations

import itertools
from typing import Any

from harness.common.detsched import DetSched

PROPERTY = "C23"
LEAN_MODULES = ["VgiVerif.Proofs.C23"]
OBLIGATIONS = [
    "VgiVerif.C23.C23_shape",
    "VgiVerif.C23.nc_validate",
    "VgiVerif.C23.nc_size",
    "VgiVerif.C23.nc_nodup",
    "VgiVerif.C23.nc_replay",
    "VgiVerif.C23.nc_calls_results",
    "VgiVerif.C23.C23_linearizable",
    "VgiVerif.C23.C23_mutex",
    "VgiVerif.C23.C23_ret",
    "VgiVerif.C23.C23_size_always",
    "VgiVerif.C23.C23_concurrent_readings",
    "VgiVerif.C23.C23_reading_le_acquire",
    "VgiVerif.C23.C23_concurrent",
    "VgiVerif.C23.C23_observe_sound",
]
TRUSTED = [
    "CPython threading.Lock provides mutual exclusion and OrderedDict keeps insertion order (the model's Lock / assoc list)",
    "str hashing/equality of nonces is abstracted to equality of identifiers; float clock values are exact multiples of a "
    "quantum (the theorems' window hypothesis is stated on the stored expiry `now + ttl`, whatever its rounding)",
    "harness/common/detsched.py: one real OS thread runs at a time; scheduling points at every fake threading/time "
    "operation and (optionally) every source line of check_and_add/_sweep",
]
PARTIAL = [
    "preemption inside a single bytecode / C call (e.g. within OrderedDict.popitem) is not explored: the scheduler "
    "preempts at fake-primitive operations and source lines",
]
RULE = (
    "K1: corpus + all op lists up to length 3 (quick) / 4 (thorough) over 3 nonces x 4 clock values x cap,ttl in {1,2} "
    "(exhaustive) + random op lists (cap 1..5, ttl 1..6, pool cap-1..cap+2, monotone / jittering / constant / jumping "
    "clocks); K2/O: hand-written + random thread programs (2-3 threads, overlapping nonces, ticks, cap 1..4), every "
    "schedule with <= 2 (quick) / 3 (thorough) preemptions at lock/clock granularity (capped), capped exploration "
    "with line-level preemption (every method of the class; constructing a lock inside a call is a scheduling point too) and an unlocked size observer, first-use programs (fresh cache, the first overlapping calls present the same nonce) explored with line-level preemption, then PCT/random-walk schedules. A concurrent case is "
    "non-trivial when at least two threads executed a call; distinct by (programs, cap, ttl, mode, schedule)"
)
MANIFEST = {
    "level": "proof",
    "text": "Kernel-checked theorems about an executable model of NonceCache: size <= capacity and distinct keys in every "
            "reachable state (mid-critical-section included), the replay theorem for all histories with non-monotone "
            "clock readings, and linearizability of every interleaving of readClock;acquire;sweep;test;insert;release "
            "threads to the sequential cache in lock-acquisition order, hence replay safety in true time. The model is "
            "tied to the code by extraction of the comparison operators and shape facts and by differential runs, "
            "sequential and under a deterministic scheduler.",
    "note": "Assumes threading.Lock mutual exclusion and OrderedDict order; schedules explored up to a preemption bound.",
    "technique": "Lean 4 proof: invariants + refinement of a fine-grained lock-protocol transition system; "
                 "correspondence: sequential differential testing + trace inclusion of deterministic-scheduler runs",
}

STOP_AFTER = 25  # failing inputs after which a run stops searching (the verdict is VIOLATION anyway)
Q = 0.5  # time quantum of the harness: every clock value and ttl is a multiple (exact in binary floating point)


def nonce_str(i: int) -> str:
    return f"nonce-{i:04d}"


def nonce_id(s: str) -> int:
    return int(s.rsplit("-", 1)[1])


def units(x: float) -> int:
    u = x / Q
    if u != int(u):
        raise AssertionError(f"time {x!r} is not a multiple of the quantum")
    return int(u)


def _mod() -> Any:
    import vgi_rpc.http._replay as R

    return R


# ------------------------------------------------------------------------------------------ oracle (Python)


def replay_violations(cap: int, ttl: int, hist: list[dict[str, Any]], rt: bool) -> list[list[int]]:
    """Pairs (i, j) violating the property, read directly from its text.  hist entries: now, nonce, res, time."""
    bad = []
    for i, a in enumerate(hist):
        if not a["res"]:
            continue
        others: set[int] = set()
        in_window = True
        for j in range(i + 1, len(hist)):
            b = hist[j]
            in_window = in_window and b["now"] < a["now"] + ttl
            if b["nonce"] == a["nonce"]:
                cond = (b["time"] < a["now"] + ttl) if rt else in_window
                if cond and len(others) < cap and b["res"]:
                    bad.append([i, j])
            else:
                others.add(b["nonce"])
    return bad


def order_free_violations(cap: int, ttl: int, calls: list[dict[str, Any]]) -> list[int]:
    """Needs no linearisation: if nothing can have expired during the whole run and fewer than cap distinct nonces
    occur at all, each nonce may be accepted at most once."""
    if not calls:
        return []
    latest = max(max(c["now"], c["time"]) for c in calls)
    bad = []
    for n in sorted({c["nonce"] for c in calls}):
        acc = [c for c in calls if c["nonce"] == n and c["res"]]
        if len(acc) < 2:
            continue
        others = {c["nonce"] for c in calls if c["nonce"] != n}
        if len(others) < cap and latest < min(c["now"] for c in acc) + ttl:
            bad.append(n)
    return bad


# ------------------------------------------------------------------------------------------ sequential


def snapshot(c: Any) -> dict[str, Any]:
    return {"entries": [[nonce_id(k), units(v)] for k, v in c._entries.items()], "evicted": c._evicted, "replays": c._replays}


def seq_impl(R: Any, cap: int, ttl: int, ops: list[list[int]]) -> tuple[list[dict[str, Any]], list[str]]:
    cur = [0.0]
    c = R.NonceCache(ttl_seconds=ttl * Q, capacity=cap, clock=lambda: cur[0])
    out, api = [], []
    for now, n in ops:
        cur[0] = now * Q
        r = c.check_and_add(nonce_str(n))
        st = snapshot(c)
        out.append({"r": bool(r), "st": st})
        s = c.stats()
        if not (len(c) == len(st["entries"]) == s["size"] and s["capacity"] == cap
                and s["replays_rejected"] == st["replays"] and s["overflow_evictions"] == st["evicted"]):
            api.append(f"len()/stats() disagree with the internal state after op {len(out) - 1}: {s} vs {st}")
    return out, api


def check_seq(ctx: Any, R: Any, cases: list[dict[str, Any]]) -> None:
    models: list[Any] = [None] * len(cases)
    if ctx.driver is not None:
        models = ctx.driver.batch([("C23.seq", {"cap": c["cap"], "ttl": c["ttl"], "ops": c["ops"]}) for c in cases])
    for c, m in zip(cases, models):
        cap, ttl, ops = c["cap"], c["ttl"], c["ops"]
        impl, api = seq_impl(R, cap, ttl, ops)
        case = {"seq": c}
        res = [x["r"] for x in impl]
        evicted = impl[-1]["st"]["evicted"] if impl else 0
        nonmono = any(ops[i][0] > ops[i + 1][0] for i in range(len(ops) - 1))
        ctx.case(case, nontrivial=len(ops) >= 2, tags=(
            "k:seq", f"seq:cap{min(cap, 5)}", "seq:nonmono" if nonmono else "seq:mono",
            "seq:evicting" if evicted else "seq:no-evict", "seq:has-reject" if not all(res) else "seq:all-accept",
            f"seq:src:{c.get('src', 'gen')}"))
        # O
        hist = [{"now": o[0], "nonce": o[1], "res": r, "time": o[0]} for o, r in zip(ops, res)]
        bad = replay_violations(cap, ttl, hist, rt=False)
        if bad:
            ctx.fail(case, "C23:replay-accepted:seq", f"accepted replay inside the window: positions {bad[0]} of {hist}")
        over = [i for i, x in enumerate(impl) if len(x["st"]["entries"]) > cap]
        if over:
            ctx.fail(case, "C23:size-over-capacity:seq", f"cache holds {len(impl[over[0]]['st']['entries'])} > capacity {cap} after op {over[0]}")
        for msg in api:
            ctx.fail(case, "C23:public-size-disagrees", msg)
        # K
        if m is not None and m != impl:
            k = next(i for i in range(len(impl)) if m[i] != impl[i])
            ctx.mismatch(case, m[k], impl[k], f"sequential step {k}: model vs implementation")


SEQ_CORPUS: list[dict[str, Any]] = [
    {"cap": 2, "ttl": 10, "ops": [[0, 1], [1, 2], [5, 1], [10, 1]]},
    {"cap": 1, "ttl": 10, "ops": [[0, 1], [1, 2], [2, 1]]},  # overflow evicts: the replay is (legitimately) accepted
    {"cap": 2, "ttl": 10, "ops": [[5, 1], [0, 1]]},  # non-monotone reading inside the window
    {"cap": 3, "ttl": 2, "ops": [[0, 1], [5, 2], [1, 1], [6, 1]]},  # clock goes back: an old entry hides behind a live one
    {"cap": 3, "ttl": 2, "ops": [[5, 1], [0, 2], [2, 3], [2, 2], [6, 2]]},  # expiry order != insertion order
    {"cap": 2, "ttl": 1, "ops": [[0, 1], [1, 1], [1, 1], [2, 1]]},  # boundary: expires_at == now is expired
    {"cap": 4, "ttl": 3, "ops": [[0, 1], [0, 2], [0, 3], [0, 4], [0, 5], [0, 1], [2, 2], [3, 3]]},
    {"cap": 1, "ttl": 1, "ops": [[0, 1]] * 5},
    {"cap": 5, "ttl": 6, "ops": [[i, i % 7] for i in range(20)]},
]


def gen_seq(rng: Any) -> dict[str, Any]:
    cap = rng.choice([1, 1, 2, 2, 3, 3, 4, 5])
    ttl = rng.choice([1, 2, 2, 3, 4, 6])
    pool = max(1, cap + rng.choice([-1, 0, 1, 1, 2]))
    n = rng.choice([2, 3, 4, 6, 8, 10, 14])
    mode = rng.choice(["mono", "mono", "jitter", "const", "jump"])
    t = rng.choice([0, 0, 3, 10])
    ops = []
    for _ in range(n):
        if mode == "mono":
            t += rng.choice([0, 0, 1, 1, 2, ttl - 1, ttl])
        elif mode == "jitter":
            t += rng.choice([-2, -1, 0, 1, 1, 2, ttl])
        elif mode == "jump":
            t = rng.choice([0, 1, ttl - 1, ttl, ttl + 1, 2 * ttl, 3 * ttl])
        ops.append([t, rng.randrange(pool)])
    return {"cap": cap, "ttl": ttl, "ops": ops, "src": mode}


def enum_seq(length: int) -> list[dict[str, Any]]:
    out = []
    alphabet = [[t, n] for t in range(4) for n in range(3)]
    for cap in (1, 2):
        for ttl in (1, 2):
            for k in range(1, length + 1):
                for ops in itertools.product(alphabet, repeat=k):
                    out.append({"cap": cap, "ttl": ttl, "ops": [list(o) for o in ops], "src": "enum"})
    return out


# ------------------------------------------------------------------------------------------ concurrent


def worker(ds: DetSched, cache: Any, prog: list[list[Any]]) -> None:
    for item in prog:
        if item[0] == "tick":
            ds.advance(item[1] * Q)
        else:
            n = item[1]
            ds.emit("call", n)
            r = cache.check_and_add(nonce_str(n))
            ds.emit("ret", n, bool(r), len(cache._entries))


def observer(ds: DetSched, cache: Any, k: int) -> None:
    for _ in range(k):
        ds.point(what="observe size")
        ds.emit("size", len(cache._entries))  # unlocked read: may land in the middle of another thread's critical section


def make_setup(R: Any, cfg: dict[str, Any]) -> Any:
    def setup(ds: DetSched) -> Any:
        cache = R.NonceCache(ttl_seconds=cfg["ttl"] * Q, capacity=cfg["cap"])
        for prog in cfg["progs"]:
            ds.spawn(worker, ds, cache, prog)
        if cfg.get("observer"):
            ds.spawn(observer, ds, cache, cfg["observer"])
        return cache

    return setup


def make_sched(R: Any, cfg: dict[str, Any]) -> DetSched:
    # creation_points: building a Lock INSIDE a call (a lazily created lock) is a scheduling point between the
    # construction and the store; on a cache whose lock is made in __init__ (harness thread) it adds nothing
    ds = DetSched(step_limit=5000, wall_limit=20.0, creation_points=True)
    ds.patch(R, "threading", "time")
    if cfg.get("lines"):
        ds.preempt_lines(R.NonceCache)  # every method of the class, helpers a call goes through included
    return ds


def analyse(cfg: dict[str, Any], run: Any) -> dict[str, Any]:
    """Read the linearised history (lock-acquisition order, real results) and the model events off a trace."""
    clock = 0
    mono = True
    pending: dict[int, dict[str, Any]] = {}
    hist: list[dict[str, Any]] = []
    calls: list[dict[str, Any]] = []
    events: list[list[Any]] = []
    sizes: list[int] = []
    locks: set[str] = set()
    anomalies: list[str] = []
    overlap_same = False
    for ev in run.trace:
        k, tid = ev[0], ev[1]
        if k == "tick":
            d = units(ev[2])
            clock += d
            mono = mono and d >= 0
            events.append(["tick", d])
        elif k == "call":
            if any(p["nonce"] == ev[2] for p in pending.values()):
                overlap_same = True
            pending[tid] = {"tid": tid, "nonce": ev[2], "now": None, "lin": None}
            events.append(["call", tid, ev[2]])
        elif k == "clock":
            v = units(ev[2])
            p = pending.get(tid)
            if p is None or p["now"] is not None:
                anomalies.append("clock read outside the expected place")
            else:
                p["now"] = v
                if p["lin"] is not None:
                    p["lin"]["now"] = v
            events.append(["clock", tid, v])
        elif k == "acq":
            locks.add(ev[2])
            p = pending.get(tid)
            if p is not None and p["lin"] is None:
                # tacq: true time of the lock acquisition (the model's linearisation time); time: true time at which
                # the call returned — the oracle only demands rejection of calls that END inside the window
                p["lin"] = {"tid": tid, "now": p["now"], "nonce": p["nonce"], "res": None, "tacq": clock, "time": clock}
                hist.append(p["lin"])
            events.append(["acq", tid])
        elif k == "rel":
            events.append(["rel", tid])
        elif k == "ret":
            p = pending.pop(tid, None)
            sizes.append(ev[4])
            if p is None:
                anomalies.append("return without call")
            else:
                if p["lin"] is not None:
                    p["lin"]["res"] = ev[3]
                    p["lin"]["time"] = clock
                calls.append({"tid": tid, "now": p["now"] if p["now"] is not None else clock, "nonce": p["nonce"], "res": ev[3],
                              "time": clock, "locked": p["lin"] is not None})
            events.append(["ret", tid, ev[3]])
        elif k == "size":
            sizes.append(ev[2])
        elif k == "new":
            anomalies.append(f"synchronisation primitive {ev[2]} created inside a call (thread {tid})")
        elif k in ("exc", "tick-auto", "line"):
            pass
        else:
            anomalies.append(f"unexpected event {k}")
    if len(locks) > 1:
        anomalies.append(f"more than one lock: {sorted(locks)}")
    complete = all(c["locked"] for c in calls) and all(h["res"] is not None and h["now"] is not None for h in hist) and not pending
    return {"hist": hist, "calls": calls, "events": events, "sizes": sizes, "mono": mono, "complete": complete,
            "anomalies": anomalies, "overlap_same": overlap_same, "clock": clock}


def judge(ctx: Any, R: Any, cfg: dict[str, Any], run: Any, an: dict[str, Any], model: Any, monitor: Any) -> None:
    cap, ttl = cfg["cap"], cfg["ttl"]
    case = {"conc": cfg, "schedule": list(run.schedule)}
    calls = an["calls"]
    nthreads = len({c["tid"] for c in calls})
    acc = sum(1 for c in calls if c["res"])
    final = snapshot(run.value)
    ctx.case(case, nontrivial=nthreads >= 2, tags=(
        "k:conc", f"conc:{run.kind}", f"conc:pre{min(run.preemptions, 4)}", f"conc:cap{cap}",
        "conc:lines" if cfg.get("lines") else "conc:ops-only", "conc:observer" if cfg.get("observer") else "conc:no-observer",
        "conc:same-nonce-in-flight" if an["overlap_same"] else "conc:no-overlap-same",
        "conc:mono" if an["mono"] else "conc:nonmono", "conc:evicting" if final["evicted"] else "conc:no-evict",
        "conc:has-reject" if acc < len(calls) else "conc:all-accept", f"conc:src:{cfg.get('src', 'gen')}"))
    # ---- O
    if run.status != "ok":
        ctx.fail(case, f"C23:{run.status}", f"run ended with {run.status}: blocked {run.blocked}")
        return
    if run.errors:
        e = next(iter(run.errors.values()))
        ctx.fail(case, f"C23:exception:{type(e).__name__}", f"check_and_add raised {e!r}")
        return
    if run.diverged:
        ctx.mismatch(case, "schedule", "diverged", "replayed schedule is not executable (non-determinism)")
    sizes = an["sizes"] + [len(final["entries"])]
    if max(sizes) > cap:
        ctx.fail(case, "C23:size-over-capacity:conc", f"cache observed holding {max(sizes)} > capacity {cap}")
    free = order_free_violations(cap, ttl, calls)
    if free:
        ctx.fail(case, "C23:replay-accepted:order-free",
                 f"nonce {free[0]} accepted more than once although nothing could expire or overflow: {calls}")
    bad = bad_rt = None
    if an["complete"]:
        bad = replay_violations(cap, ttl, an["hist"], rt=False)
        if bad:
            ctx.fail(case, "C23:replay-accepted:conc", f"accepted replay inside the window (lock order): {bad[0]} of {an['hist']}")
        if an["mono"]:
            bad_rt = replay_violations(cap, ttl, an["hist"], rt=True)
            if bad_rt:
                ctx.fail(case, "C23:replay-accepted:conc-truetime",
                         f"accepted replay inside the window (true time): {bad_rt[0]} of {an['hist']}")
    # ---- K
    if an["anomalies"] or not an["complete"]:
        ctx.mismatch(case, "readClock; acquire; …; release per call, one lock", an["anomalies"] or "a call took no lock",
                     "trace shape: the implementation no longer follows the modelled lock protocol")
    if model is None:
        return
    if not model["ok"]:
        idx = model.get("reject")
        ctx.mismatch(case, {"rejected_event": an["events"][idx] if idx is not None and idx < len(an["events"]) else idx},
                     an["events"], "trace is not a run of the Lean transition system")
        return
    want = [[h["tid"], h["now"], h["nonce"], h["res"], h["tacq"]] for h in an["hist"]]
    if model["hist"] != want:
        ctx.mismatch(case, model["hist"], want, "linearised history: model vs trace")
    if model["st"] != final:
        ctx.mismatch(case, model["st"], final, "final cache: model vs implementation")
    if model["locked"]:
        ctx.mismatch(case, "locked", "all threads finished", "model ends with the lock held")
    if monitor is not None and an["complete"]:
        if monitor["seq"] != bad or (an["mono"] and monitor["rt"] != bad_rt):
            ctx.mismatch(case, monitor, {"seq": bad, "rt": bad_rt}, "monitor: Lean spec vs Python oracle")


CONC_CORPUS: list[dict[str, Any]] = [
    # two racers on one nonce
    {"cap": 1, "ttl": 4, "progs": [[["op", 1]], [["op", 1]]]},
    {"cap": 2, "ttl": 4, "progs": [[["op", 1], ["op", 1]], [["op", 1], ["op", 2]]]},
    # expiry by ticks in another thread
    {"cap": 2, "ttl": 2, "progs": [[["op", 1], ["tick", 1], ["op", 1]], [["tick", 1], ["op", 1]]]},
    {"cap": 2, "ttl": 1, "progs": [[["op", 1], ["tick", 1], ["op", 1]], [["op", 2], ["tick", 1], ["op", 2]]]},
    # overflow: capacity 1, two nonces
    {"cap": 1, "ttl": 8, "progs": [[["op", 1], ["op", 1]], [["op", 2]]]},
    {"cap": 2, "ttl": 8, "progs": [[["op", 1], ["op", 2], ["op", 1]], [["op", 3], ["op", 1]]]},
    # stale clock reading taken before another thread's tick + insert (the reading is older than entries it meets)
    {"cap": 3, "ttl": 2, "progs": [[["op", 1], ["op", 2]], [["tick", 2], ["op", 1], ["tick", 1], ["op", 2]]]},
    # three threads
    {"cap": 2, "ttl": 3, "progs": [[["op", 1], ["op", 2]], [["op", 2], ["op", 1]], [["tick", 1], ["op", 1]]]},
    {"cap": 4, "ttl": 2, "progs": [[["op", 1], ["tick", 1], ["op", 2]], [["op", 2], ["tick", 1], ["op", 3]], [["op", 3], ["op", 1]]]},
    # clock stepping backwards (an injected non-monotone clock source)
    {"cap": 2, "ttl": 2, "progs": [[["tick", 3], ["op", 1], ["tick", -2], ["op", 1]], [["op", 2], ["tick", 1], ["op", 1]]]},
]


# FIRST USE of a fresh cache: the very first calls overlap and present the same nonce (whatever the cache sets up
# lazily on first use — its lock included — is set up under contention).  Small programs, line-level preemption,
# no observer, explored to exhaustion within the preemption bound.
FIRST_USE: list[dict[str, Any]] = [
    {"cap": 1, "ttl": 4, "progs": [[["op", 1]], [["op", 1]]]},
    {"cap": 2, "ttl": 4, "progs": [[["op", 1]], [["op", 1]], [["op", 1]]]},
    {"cap": 2, "ttl": 4, "progs": [[["op", 1], ["op", 2]], [["op", 1]]]},
    {"cap": 1, "ttl": 4, "progs": [[["op", 1]], [["op", 2], ["op", 1]]]},
]


def gen_first_use(rng: Any) -> dict[str, Any]:
    cap = rng.choice([1, 2, 3])
    n = rng.randrange(cap + 1)
    progs: list[list[list[Any]]] = [[["op", n]], [["op", n]]]
    if rng.random() < 0.4:
        progs.append([["op", rng.randrange(cap + 1)]])
    elif rng.random() < 0.5:
        progs[rng.randrange(2)].append(["op", rng.randrange(cap + 1)])
    return {"cap": cap, "ttl": rng.choice([2, 4]), "progs": progs}


def gen_conc(rng: Any, threads: int) -> dict[str, Any]:
    cap = rng.choice([1, 2, 2, 3, 4])
    ttl = rng.choice([1, 2, 2, 3, 4])
    pool = max(1, cap + rng.choice([-1, 0, 0, 1]))
    nonmono = rng.random() < 0.15
    progs = []
    for _ in range(threads):
        prog: list[list[Any]] = []
        for _ in range(rng.choice([2, 3, 3] if threads == 2 else [1, 2, 2])):
            if rng.random() < 0.35:
                prog.append(["tick", rng.choice([1, 1, ttl, -1] if nonmono else [1, 1, 2, ttl])])
            prog.append(["op", rng.randrange(pool)])
        progs.append(prog)
    return {"cap": cap, "ttl": ttl, "progs": progs, "src": "gen"}


def explore_cfg(ctx: Any, R: Any, cfg: dict[str, Any], dfs: int, bound: int, rnd: int) -> int:
    ds = make_sched(R, cfg)
    setup = make_setup(R, cfg)
    batch: list[tuple[Any, dict[str, Any]]] = []
    n = 0

    def flush() -> None:
        if not batch:
            return
        models: list[Any] = [None] * len(batch)
        mons: list[Any] = [None] * len(batch)
        if ctx.driver is not None:
            reqs = []
            for _run, an in batch:
                reqs.append(("C23.accepts", {"mono": an["mono"], "cap": cfg["cap"], "ttl": cfg["ttl"], "events": an["events"]}))
            models = ctx.driver.batch(reqs)
            mreqs = []
            idx = []
            for i, (_run, an) in enumerate(batch):
                if an["complete"]:
                    calls = [[h["now"], h["nonce"], h["res"], h["time"]] for h in an["hist"]]
                    mreqs.append(("C23.monitor", {"cap": cfg["cap"], "ttl": cfg["ttl"], "rt": False, "calls": calls}))
                    mreqs.append(("C23.monitor", {"cap": cfg["cap"], "ttl": cfg["ttl"], "rt": True, "calls": calls}))
                    idx.append(i)
            mres = ctx.driver.batch(mreqs)
            for j, i in enumerate(idx):
                mons[i] = {"seq": mres[2 * j], "rt": mres[2 * j + 1]}
        for (run, an), m, mon in zip(batch, models, mons):
            judge(ctx, R, cfg, run, an, m, mon)
        batch.clear()

    with ds:
        for run in ds.explore(setup, dfs=dfs, bound=bound, random=rnd, seed=f"{ctx.seed}:{ctx.evaluations}"):
            batch.append((run, analyse(cfg, run)))
            n += 1
            if len(batch) >= 300:
                flush()
        flush()
    st = ds.stats
    if st.get("exhaustive"):
        ctx.tag("conc:cfg-exhausted-within-bound")
    else:
        ctx.tag("conc:cfg-capped")
    return n


# ------------------------------------------------------------------------------------------ run / replay


def check_meta(ctx: Any, R: Any) -> None:
    case = {"meta": "constants"}
    ctx.case(case, nontrivial=False, tags=("k:meta",))
    impl_default = R.NonceCache(ttl_seconds=1).capacity
    if ctx.driver is not None:
        g = ctx.driver.call("C23.gen", {})
        if g["defaultCap"] != R.DEFAULT_CAPACITY or impl_default != g["defaultCap"]:
            ctx.mismatch(case, g["defaultCap"], [R.DEFAULT_CAPACITY, impl_default], "DEFAULT_CAPACITY: Gen vs module vs constructor default")
        if not g["shape"]:
            ctx.note("shape_facts_hold", False)
    grid = [-2, -1, 0, 1, 2]
    reqs = [("C23.validate", {"ttl": t, "cap": c}) for t in grid for c in grid]
    ms = ctx.driver.batch(reqs) if ctx.driver is not None else [None] * len(reqs)
    for (_, a), m in zip(reqs, ms):
        try:
            R.NonceCache(ttl_seconds=a["ttl"] * Q, capacity=a["cap"])
            ok = True
        except ValueError:
            ok = False
        c = {"validate": a}
        ctx.case(c, nontrivial=True, tags=("k:validate",))
        if ok != (a["ttl"] > 0 and a["cap"] > 0):
            ctx.fail(c, "C23:constructor-accepts-nonpositive", f"NonceCache(ttl={a['ttl'] * Q}, capacity={a['cap']}) -> {'ok' if ok else 'ValueError'}")
        if m is not None and m != ok:
            ctx.mismatch(c, m, ok, "constructor validation: model vs implementation")


def run(ctx: Any) -> None:
    R = _mod()
    rng = ctx.rng
    thorough = ctx.tier == "thorough"
    check_meta(ctx, R)
    # ---- K1 / O: sequential
    seq_cases = [dict(c, src="corpus") for c in SEQ_CORPUS]
    seq_cases += enum_seq(4 if thorough else 3)
    ctx.note("seq_enumerated_exhaustively", len(seq_cases) - len(SEQ_CORPUS))
    seq_cases += [gen_seq(rng) for _ in range(ctx.budget(6000, 60000))]
    for i in range(0, len(seq_cases), 4000):
        check_seq(ctx, R, seq_cases[i : i + 4000])
        if len(ctx.failures) >= STOP_AFTER:
            ctx.note("stopped_early", "sequential phase: enough failing inputs found")
            return
    # ---- K2 / O: concurrent
    bound = 3 if thorough else 2
    cfgs: list[tuple[dict[str, Any], int, int, int]] = []
    per = ctx.budget(160, 2000)
    for c in CONC_CORPUS:
        cfgs.append((dict(c, src="corpus"), per, bound, per // 8))
    first = ctx.budget(700, 6000)
    for c in FIRST_USE + [gen_first_use(rng) for _ in range(ctx.budget(2, 12))]:
        cfgs.append((dict(c, src="first-use", lines=True), first, bound, first // 10))
    for c in CONC_CORPUS[:4]:
        cfgs.append((dict(c, src="corpus", lines=True, observer=3), per, bound, per // 4))
    for i in range(ctx.budget(8, 30)):
        c = gen_conc(rng, 2 if i % 3 else 3)
        if i % 2:
            c["lines"] = True
            c["observer"] = 2
        cfgs.append((c, per, bound, per // 6))
    total = 0
    for cfg, dfs, b, rnd in cfgs:
        total += explore_cfg(ctx, R, cfg, dfs, b, rnd)
        if len(ctx.failures) >= STOP_AFTER:
            ctx.note("stopped_early", "concurrent phase: enough failing inputs found")
            break
    ctx.note("traces_validated_against_impl", total)
    ctx.note("concurrent_configs", len(cfgs))


def replay(ctx: Any, case: dict[str, Any]) -> None:
    R = _mod()
    if "seq" in case:
        check_seq(ctx, R, [case["seq"]])
        return
    if "validate" in case or "meta" in case:
        check_meta(ctx, R)
        return
    cfg = case["conc"]
    ds = make_sched(R, cfg)
    with ds:
        run_ = ds.replay(make_setup(R, cfg), case["schedule"])
    an = analyse(cfg, run_)
    model = mon = None
    if ctx.driver is not None:
        model = ctx.driver.call("C23.accepts", {"mono": an["mono"], "cap": cfg["cap"], "ttl": cfg["ttl"], "events": an["events"]})
        if an["complete"]:
            calls = [[h["now"], h["nonce"], h["res"], h["time"]] for h in an["hist"]]
            mon = {"seq": ctx.driver.call("C23.monitor", {"cap": cfg["cap"], "ttl": cfg["ttl"], "rt": False, "calls": calls}),
                   "rt": ctx.driver.call("C23.monitor", {"cap": cfg["cap"], "ttl": cfg["ttl"], "rt": True, "calls": calls})}
    judge(ctx, R, cfg, run_, an, model, mon)
