"""C27 — sticky lifecycle: opt-in, drain, and client token tracking.

Every case drives the REAL client (`http_connect(...)`, `with_session_token()`, `_SessionView.detach`) against a REAL
sticky-enabled WSGI app (Falcon test client underneath), with a method that executes an action script
(`o` open_session, `c` close_session, `u` read ctx.session, `n` nothing; optionally swallowing the exceptions).

K: `C27.viewCall` (merge headers → `Sticky.serve` → `_capture`) / `C25.step` vs the implementation: response class, method
   log, VGI-Session / VGI-Session-Close, the view's token and `_closed` flag, registry, closed states, exit-time DELETE.
O (from the property text):
   opt-in — a session appears in the registry only if the request carried `VGI-Session-Accept: true` and the worker is not draining;
   drain  — while draining, `open_session` fails with `server_draining` (when nothing else forbids the open) and a resumed
            session is still served;
   view   — after EVERY response the view's token is None iff the registry holds no live session of this view, and otherwise
            designates exactly the one live session of this view (no orphan, no stale token).
"""

import itertools
import json
from typing import Any

from harness.common import sticky as S

PROPERTY = "C27"
LEAN_MODULES = ["VgiVerif.Proofs.C27"]
EXTRACTORS = ["gen_c25", "gen_c27"]
OBLIGATIONS = [
    "VgiVerif.C27.C27_optin",
    "VgiVerif.C27.C27_drain",
    "VgiVerif.C27.C27_drain_serves",
    "VgiVerif.C27.C27_view",
    "VgiVerif.C27.C27_view_history",
    "VgiVerif.C27.C27_no_orphan",
    "VgiVerif.C27.C27_close_clears",
]
TRUSTED = [
    "symbolic AEAD / abstract base64 codec as in C25; fresh session ids and nonces; integral clock",
    "the HTTP client stack below `_SessionTrackingClient` (header case folding of `_SyncTestResponse` / httpx2)",
    "ghost ownership (which view's request opened a session) is bookkeeping of the model and of the harness, not of the code",
]
RULE = (
    "ALL action scripts over {open, close, use, noop} of length 0..4 (341) x {through with_session_token(), plain connection} x "
    "{fresh, resumed token} x {draining, not} x {method aborts on / swallows a failing call}, each followed by a second request "
    "(use / close / open) through the same view and by the view's exit; plus random longer scripts and multi-request view "
    "sequences. Non-trivial = the script contains an open or a close; distinct by the whole case."
)
PARTIAL = [
    "sessions that end behind the client's back (TTL, reaper, shutdown, another holder of the token) leave a stale token in the "
    "view: only the no-orphan half is claimed for such histories",
    "`open_session(ttl=…)` values for which sealing fails after the registry insertion (ttl = inf, server_id > 255 bytes) are outside the quantifier",
    "interleavings (C26)",
]
MANIFEST = {
    "level": "proof",
    "text": "Lean theorems over serve (process_request → method script → process_response) and the client's _capture: opt-in, "
            "drain, and the view invariant (client token = the one live session of the view; never an orphan) preserved by every "
            "request of every history; tied to the code by extraction of the sink / emission / capture shapes and by exhaustive "
            "differential runs of all scripts of length ≤ 4 through the real client and middleware.",
    "note": "holds on the repaired tree (fix: a session opened after close_session() in the same request was orphaned)",
    "technique": "Lean 4 proof: script invariant + history induction; correspondence: exhaustive small scripts vs C27.viewCall",
}

KEYS = [b"k" * 32]
IDENT = ("d", "alice", True)
FARM = [{"server_id": "abcdef012345", "key": 0, "default_ttl": 300}]
LETTERS = "ocun"


def script_actions(letters: str, label0: int, now: int = 1000) -> list[Any]:
    """`S` = the registry is shut down while the method runs, `R` = a reaper tick whose clock is far ahead (both from another thread)."""
    out: list[Any] = []
    k = label0
    for ch in letters:
        if ch == "o":
            k += 1
            out.append(["o", k, None])
        elif ch == "R":
            out.append(["R", now + 10**6])
        else:
            out.append(ch)
    return out


def pattern(letters: str) -> str:
    """Canonical class of a script for finding keys."""
    core = letters.replace("n", "").replace("u", "")
    if "S" in core or "R" in core:
        return "ended-mid-request"
    if "co" in core:
        return "close-then-open"
    return core or "none"


class Bench:
    """One farm reused for many cases; model state carried along; every step compared."""

    def __init__(self, ctx: Any, rig: S.Rig) -> None:
        from vgi_rpc.http import http_connect

        self.ctx = ctx
        self.rig = rig
        self.farm = S.Farm(rig, FARM, KEYS, [None, IDENT])
        self.w = self.farm.workers[0]
        self.net = {"cfg": self.farm.model_cfg(), "regs": self.farm.model_regs(), "env": rig.env()}
        self.http_connect = http_connect
        self.label = 0
        self.client_id = 0
        self.ok = True

    # -------------------------------------------------------------- helpers
    def model(self, fn: str, args: dict[str, Any]) -> Any:
        if self.ctx.driver is None:
            return None
        r = S.fast_call(self.ctx.driver, fn, args)
        if "regs" in r:
            self.net = {"cfg": self.net["cfg"], "regs": r["regs"], "env": r["env"]}
        return r

    def check_state(self, case: Any, r: Any, what: str) -> None:
        if r is None:
            return
        real = S.canon_model_regs(self.farm.model_regs())
        if S.canon_model_regs(r["regs"]) != real or r["env"] != self.rig.env():
            self.ctx.mismatch(case, {"regs": r["regs"], "env": r["env"]}, {"regs": real, "env": self.rig.env()}, f"{what}: state differs")
            self.ok = False

    def sid_of(self, token: str) -> str | None:
        import vgi_rpc.http.server._sticky as st
        from vgi_rpc.rpc import SessionLostError

        try:
            return st._open_session_token(token, self.w.key, S._compute_aad(S.auth_of(IDENT)))[1].hex()
        except SessionLostError:
            return None

    def owned_live(self, client: int) -> list[str]:
        return sorted(sid.hex() for sid in self.w.registry._entries if self.farm.owner.get(sid.hex()) == client)

    def call(self, proxy: Any, rec: S.RecordingClient, actions: list[Any], swallow: bool, client: int) -> dict[str, Any]:
        from vgi_rpc.rpc import RpcError

        before = set(self.w.registry._entries)
        n_calls = len(self.w.impl.calls)
        n_closed = len(self.farm.closed)
        rec.last = {}
        try:
            proxy.run(script=json.dumps({"actions": actions, "swallow": swallow}))
        except RpcError:
            pass
        self.w.settle()
        last = rec.last
        obs = S.parse_post(last["status"], last["headers"], last["content"])
        new_calls = self.w.impl.calls[n_calls:]
        obs["dispatched"] = len(new_calls)
        obs["log"] = new_calls[0]["log"] if new_calls else []
        obs["closed_states"] = self.farm.closed[n_closed:]
        obs["sent_accept"] = last["req_headers"].get("VGI-Session-Accept")
        obs["sent_token"] = last["req_headers"].get("VGI-Session")
        obs["new_sids"] = sorted(s.hex() for s in set(self.w.registry._entries) - before)
        for s in obs["new_sids"]:
            self.farm.owner[s] = client
        return obs

    # -------------------------------------------------------------- one case
    def run_case(self, case: dict[str, Any]) -> None:
        ctx, farm = self.ctx, self.farm
        letters, mode, resumed, draining, swallow = case["script"], case["mode"], case["resumed"], case["draining"], case["swallow"]
        follow = case.get("follow", [])
        self.client_id += 2
        prev_client, client = self.client_id, self.client_id + 1
        rec = S.RecordingClient(self.w.app, default_headers=S.ident_header(IDENT))
        tags = [f"mode:{mode}", "resumed" if resumed else "fresh", "draining" if draining else "serving", "swallow" if swallow else "abort",
                f"len:{len(letters)}", f"pattern:{pattern(letters)}"]
        ctx.case(case, nontrivial=("o" in letters or "c" in letters), tags=tags)
        with self.http_connect(S.StickyProto, client=rec) as conn:
            tok0 = None
            resume_label = None
            mview = {"token": None, "closedFlag": False}
            if resumed:
                # a previous view opens a session and hands the token over (detach)
                with conn.with_session_token() as v0:
                    self.label += 1
                    resume_label = self.label
                    o = self.call(v0, rec, [["o", self.label, None]], False, prev_client)
                    r = self.model("C27.viewCall", {"net": self.net, "wk": 0, "view": mview, "ident": S.model_ident(IDENT), "client": prev_client,
                                                    "script": [{"o": self.label, "ttl": None}], "swallow": False})
                    tok0 = v0.detach()
                    if tok0 is None or o["outcome"] != "ok":
                        ctx.fail(case, "C27:setup-open-failed", f"could not open the session to resume: {o['outcome']}")
                        self.ok = False
                        return
                    self.check_state(case, r, "setup open")
                    if r is not None:
                        d = self.model("C27.detach", {"view": r["view"]})
                        if d["exitDeletes"]:
                            ctx.mismatch(case, d, {"exitDeletes": False}, "detach: model would still DELETE at exit")
                for sid in self.owned_live(prev_client):
                    farm.owner[sid] = client  # the handed-over session now belongs to the resuming view
                if r is not None:
                    self.net["regs"] = [{"entries": [{**e, "owner": client} if e["owner"] == prev_client else e for e in rg["entries"]],
                                         "draining": rg["draining"]} for rg in self.net["regs"]]
            if draining:
                farm.drain(0, True)
                r = self.model("C25.step", {"net": self.net, "op": {"op": "drain", "wk": 0, "b": True}})
            requests = [script_actions(letters, self.label, self.rig.clock.now)]
            self.label += letters.count("o")
            for f in follow:
                requests.append(script_actions(f, self.label, self.rig.clock.now))
                self.label += f.count("o")
            env_seen = False  # has anything ended a session behind the client's back in this case?
            if mode == "view":
                cm = conn.with_session_token(token=tok0)
                view = cm.__enter__()
                mview = {"token": farm.sym(tok0) if tok0 else None, "closedFlag": False}
                proxy: Any = view
            else:
                view = None
                if tok0 is not None:
                    rec._default_headers = {**rec._default_headers, "VGI-Session": tok0}
                proxy = conn
            held = tok0  # what a plain client keeps presenting
            for ri, actions in enumerate(requests):
                if not self.ok:
                    break
                live_before = set(self.w.registry._entries)
                obs = self.call(proxy, rec, actions, swallow, client)
                step = {**case, "request": ri, "actions": actions}
                env_seen = env_seen or "e" in obs["log"]
                # ---------------- O: opt-in / drain
                accept_sent = (obs["sent_accept"] or "").strip().lower() == "true"
                if obs["new_sids"] and (not accept_sent or draining):
                    ctx.fail(step, f"C27:opened-without-{'optin' if not accept_sent else 'serving'}",
                             f"a session was registered although the request {'did not opt in' if not accept_sent else 'hit a draining worker'}")
                    self.ok = False
                active = obs["sent_token"] is not None and obs["outcome"] != "lost"
                for a, out in zip(actions, obs["log"]):
                    if isinstance(a, list) and a[0] == "o":  # an open
                        if isinstance(out, list) and out[0] == "o":
                            active = True
                        elif draining and accept_sent and not active and out != ["x", "draining"]:
                            ctx.fail(step, "C27:drain-wrong-error", f"open_session while draining gave {out}, want server_draining")
                            self.ok = False
                    elif a == "c":
                        active = False
                if draining and accept_sent and obs["sent_token"] is None and not swallow and actions and isinstance(actions[0], list) and actions[0][0] == "o" \
                        and obs["kind"] != "server_draining":
                    ctx.fail(step, "C27:drain-error-kind", f"response error kind {obs['kind']} for an open on a draining worker")
                    self.ok = False
                if resumed and ri == 0 and obs["sent_token"] is not None:
                    if obs["outcome"] == "lost":
                        ctx.fail(step, "C27:existing-session-not-served" + (":draining" if draining else ""), "a live session was answered session_lost")
                        self.ok = False
                    elif actions and actions[0] == "u" and obs["log"][:1] != [["u", resume_label]]:
                        ctx.fail(step, "C27:existing-session-wrong-state", f"ctx.session = {obs['log'][:1]}")
                        self.ok = False
                # ---------------- O: the client view
                if view is not None:
                    tok = view.current_session_token()
                    owned = self.owned_live(client)
                    designated = self.sid_of(tok) if tok is not None else None
                    if tok is None and owned:
                        ctx.fail(step, f"C27:orphan:{pattern(''.join((a if isinstance(a, str) else ('o' if a[0] == 'o' else 'R')) for a in actions))}",
                                 f"the view holds no token but the registry keeps session(s) {owned} opened through it")
                        self.ok = False
                    elif tok is not None and designated not in owned:
                        if not env_seen and owned == []:
                            ctx.fail(step, "C27:stale-token", f"the view's token designates {designated}, live sessions of the view: {owned}")
                            self.ok = False
                        elif owned:
                            ctx.fail(step, "C27:orphan:untracked-session", f"the view tracks {designated} but {owned} are live for it")
                            self.ok = False
                    elif tok is not None and owned != [designated]:
                        ctx.fail(step, "C27:orphan:extra-session", f"the view tracks {designated} but {owned} are live for it")
                        self.ok = False
                    # "cleared on close": the method's last session call was close_session() -> the view holds nothing
                    life = [x for x in obs["log"] if x == "c" or (isinstance(x, list) and x[0] == "o")]
                    if life and life[-1] == "c" and view.current_session_token() is not None:
                        ctx.fail(step, "C27:close-not-cleared:" + ("session-ended-mid-request" if "e" in obs["log"] else "plain"),
                                 "the method called close_session() last, yet the view still holds a token")
                        self.ok = False
                # ---------------- K
                if view is not None:
                    r = self.model("C27.viewCall", {"net": self.net, "wk": 0, "view": mview, "ident": S.model_ident(IDENT), "client": client,
                                                    "script": [S.model_action(a) for a in actions], "swallow": swallow})
                    if r is not None:
                        mr = r["resp"]
                        model = {"outcome": mr["outcome"], "log": S.canon_model_log(mr["log"]), "session": mr["session"], "close": mr["close"],
                                 "closed": sorted(r["closed"]), "token": r["view"]["token"], "closedFlag": r["view"]["closedFlag"]}
                        tok = view.current_session_token()
                        real = {"outcome": obs["outcome"], "log": obs["log"], "session": farm.sym(obs["session"]) if obs["session"] else None,
                                "close": obs["close"], "closed": sorted(obs["closed_states"]), "token": farm.sym(tok) if tok else None,
                                "closedFlag": bool(view._closed)}
                        if model != real:
                            ctx.mismatch(step, model, real, "view call: model vs implementation")
                            self.ok = False
                        self.check_state(step, r, "view call")
                        mview = {"token": r["view"]["token"], "closedFlag": r["view"]["closedFlag"]}
                else:
                    r = self.model("C25.step", {"net": self.net, "op": {"op": "call", "wk": 0, "rq": farm.model_req(IDENT, None, held, client),
                                                                        "script": [S.model_action(a) for a in actions], "swallow": swallow}})
                    if r is not None:
                        mr = r["obs"]["resp"]
                        model = {"outcome": mr["outcome"], "log": S.canon_model_log(mr["log"]), "session": mr["session"], "close": mr["close"],
                                 "closed": sorted(r["closed"])}
                        real = {"outcome": obs["outcome"], "log": obs["log"], "session": farm.sym(obs["session"]) if obs["session"] else None,
                                "close": obs["close"], "closed": sorted(obs["closed_states"])}
                        if model != real:
                            ctx.mismatch(step, model, real, "plain call: model vs implementation")
                            self.ok = False
                        self.check_state(step, r, "plain call")
                _ = live_before
            # ---------------- exit of the view: best-effort DELETE iff the model says so
            if view is not None:
                n_closed = len(farm.closed)
                tok = view.current_session_token()
                will = (not view._closed) and tok is not None
                cm.__exit__(None, None, None)
                if self.ctx.driver is not None and self.ok:
                    d = S.fast_call(self.ctx.driver, "C27.capture", {"view": mview, "session": None, "close": False})
                    if d["exitDeletes"] != will:
                        ctx.mismatch(case, d, {"exitDeletes": will}, "exit DELETE rule: model vs implementation")
                        self.ok = False
                    if will:
                        r = self.model("C25.step", {"net": self.net, "op": {"op": "delete", "wk": 0, "rq": farm.model_req(IDENT, None, tok, client)}})
                        if r is not None and r["closed"] != farm.closed[n_closed:]:
                            ctx.mismatch(case, r["closed"], farm.closed[n_closed:], "exit DELETE: closed states")
                            self.ok = False
                        self.check_state(case, r, "exit DELETE")
        # ---------------- reset for the next case
        if draining:
            farm.drain(0, False)
            self.model("C25.step", {"net": self.net, "op": {"op": "drain", "wk": 0, "b": False}})
        farm.shutdown(0)
        r = self.model("C25.step", {"net": self.net, "op": {"op": "shutdown", "wk": 0}})
        self.check_state(case, r, "shutdown")



ACCEPT_VALUES: list[Any] = [None, "true", "True", "TRUE", "tRuE", " true", "true ", "\ttrue", "true\t", "false", "1", "yes", "", "truee", "tru",
                            "true,true", "true, true", "t rue", "TRUE ", "\x0ctrue", "true\xa0", "\x85true", "trüe", "True\x1f"]


def phase_accept(ctx: Any) -> None:
    """The opt-in header value: which values let a session open (K against `acceptOpens`, O: only `true` modulo case/space)."""
    with S.Rig() as rig:
        farm = S.Farm(rig, FARM, KEYS, [None, IDENT])
        for i, v in enumerate(ACCEPT_VALUES):
            case = {"kind": "accept", "value": v}
            try:
                obs = farm.post(0, IDENT, v, None, [["o", i + 1, None]], False)
            except Exception as e:  # noqa: BLE001  (a value the WSGI layer refuses to carry)
                ctx.tag("accept:unsendable")
                _ = e
                continue
            opened = bool(obs["session"])
            ctx.case(case, nontrivial=True, tags=("k:accept", "accept:opens" if opened else "accept:refused"))
            spec = v is not None and v.strip().lower() == "true"
            if opened != spec:
                ctx.fail(case, "C27:accept-parse", f"VGI-Session-Accept: {v!r} {'opened' if opened else 'refused'} a session")
            if ctx.driver is not None:
                m = ctx.driver.call("C25.accept", {"v": [ord(c) for c in v] if v is not None else None})
                if m != opened:
                    ctx.mismatch(case, m, opened, "acceptOpens: model vs implementation")


def all_cases(ctx: Any) -> list[dict[str, Any]]:
    rng = ctx.rng
    full = ctx.tier == "thorough" or ctx.deep
    scripts = [""] + ["".join(p) for n in range(1, 5) for p in itertools.product(LETTERS, repeat=n)]
    cases: list[dict[str, Any]] = []
    follows = [["u"], ["c"], ["o"], ["u", "co"], ["oc", "u"]]
    for s in scripts:
        for mode, resumed, draining, swallow in itertools.product(("view", "plain"), (False, True), (False, True), (False, True)):
            if not full and len(s) == 4 and mode == "plain" and rng.random() < 0.75:
                continue  # quick tier: plain connections (no view to track) are sampled for the longest scripts
            cases.append({"kind": "script", "script": s, "mode": mode, "resumed": resumed, "draining": draining, "swallow": swallow,
                          "follow": follows[len(cases) % len(follows)] if mode == "view" else ["u"][: len(cases) % 2]})
    if full:
        # thorough: all scripts of length 5 through a view, and all two-request sequences of scripts of length <= 2
        for p5 in itertools.product(LETTERS, repeat=5):
            for resumed, draining, swallow in itertools.product((False, True), (False, True), (False, True)):
                cases.append({"kind": "script", "script": "".join(p5), "mode": "view", "resumed": resumed, "draining": draining,
                              "swallow": swallow, "follow": [follows[len(cases) % len(follows)][0]]})
        short = [""] + ["".join(p) for n in (1, 2) for p in itertools.product(LETTERS, repeat=n)]
        for s1, s2 in itertools.product(short, repeat=2):
            for resumed, swallow in itertools.product((False, True), (False, True)):
                cases.append({"kind": "script", "script": s1, "mode": "view", "resumed": resumed, "draining": False, "swallow": swallow,
                              "follow": [s2, "u"]})
    # sessions ended by the environment WHILE the method runs (registry shutdown / reaper tick from another thread):
    # every script of length <= 3 over {o,c,u,S,R} that contains one, through a view
    for n in (1, 2, 3):
        for p in itertools.product("ocuSR", repeat=n):
            sc = "".join(p)
            if "S" not in sc and "R" not in sc:
                continue
            for resumed, swallow in itertools.product((False, True), (False, True)):
                if not full and n == 3 and rng.random() < 0.5:
                    continue
                cases.append({"kind": "script", "script": sc, "mode": "view", "resumed": resumed, "draining": False, "swallow": swallow,
                              "follow": [["u"], ["o"], ["c", "o"]][len(cases) % 3]})
    # longer random scripts and longer view sequences
    for _ in range(ctx.budget(150, 4000)):
        n = rng.choice([5, 6, 7, 8, 12])
        s = "".join(rng.choice("ooccunooccunSR") for _ in range(n))
        cases.append({"kind": "script", "script": s, "mode": "view", "resumed": rng.random() < 0.5, "draining": rng.random() < 0.2,
                      "swallow": rng.random() < 0.5,
                      "follow": ["".join(rng.choice("ocun") for _ in range(rng.randrange(4))) for _ in range(rng.choice([1, 2, 5]))]})
    return cases


CORPUS: list[dict[str, Any]] = [
    # the resumed session is swept away while the method runs, then the method closes it: the client must still drop its token
    {"kind": "script", "script": "uSc", "mode": "view", "resumed": True, "draining": False, "swallow": False, "follow": ["u", "o"]},
    {"kind": "script", "script": "Rc", "mode": "view", "resumed": True, "draining": False, "swallow": False, "follow": ["o"]},
    {"kind": "script", "script": "oSc", "mode": "view", "resumed": False, "draining": False, "swallow": False, "follow": ["u"]},
    {"kind": "script", "script": "oRu", "mode": "view", "resumed": False, "draining": False, "swallow": True, "follow": ["c", "o"]},
    {"kind": "script", "script": "co", "mode": "view", "resumed": True, "draining": False, "swallow": False, "follow": ["u"]},   # DESIGN §7.1
    {"kind": "script", "script": "co", "mode": "view", "resumed": False, "draining": False, "swallow": False, "follow": ["u"]},
    {"kind": "script", "script": "oc", "mode": "view", "resumed": False, "draining": False, "swallow": False, "follow": ["u"]},
    {"kind": "script", "script": "oco", "mode": "view", "resumed": False, "draining": False, "swallow": False, "follow": ["u", "c", "o"]},
    {"kind": "script", "script": "coc", "mode": "view", "resumed": True, "draining": False, "swallow": False, "follow": ["o"]},
    {"kind": "script", "script": "oo", "mode": "view", "resumed": False, "draining": False, "swallow": True, "follow": ["u"]},
    {"kind": "script", "script": "oo", "mode": "view", "resumed": False, "draining": False, "swallow": False, "follow": ["u"]},
    {"kind": "script", "script": "c", "mode": "view", "resumed": True, "draining": True, "swallow": False, "follow": ["o"]},
    {"kind": "script", "script": "uo", "mode": "view", "resumed": True, "draining": True, "swallow": True, "follow": ["u"]},
    {"kind": "script", "script": "o", "mode": "plain", "resumed": False, "draining": False, "swallow": False, "follow": []},
    {"kind": "script", "script": "co", "mode": "plain", "resumed": True, "draining": False, "swallow": True, "follow": ["u"]},
]


def run_cases(ctx: Any, cases: list[dict[str, Any]]) -> None:
    i = 0
    while i < len(cases):
        if len(ctx.failures) >= 40 or len(ctx.mismatches) >= 40:
            ctx.note("stopped_early", "40 failing cases collected")
            return
        with S.Rig() as rig:
            b = Bench(ctx, rig)
            for case in cases[i : i + 400]:
                b.run_case(case)
                if not b.ok:
                    break  # model and implementation have diverged (or the property failed): start over on a clean bench
            i += 400 if b.ok else (cases[i : i + 400].index(case) + 1)


def run(ctx: Any) -> None:
    phase_accept(ctx)
    run_cases(ctx, CORPUS + all_cases(ctx))
    ctx.exhaustive = True
    ctx.note("exhaustive_space", "all scripts over {o,c,u,n} of length 0..4 x {view} x {fresh,resumed} x {draining,serving} x {abort,swallow}"
             + (" x {plain}" if ctx.tier == "thorough" or ctx.deep else "; plain connections sampled for length 4"))


def replay(ctx: Any, case: dict[str, Any] | None) -> None:
    if not case:  # a `no-longer-checks` file carries no single case: re-run the hand-written corpus
        run_cases(ctx, CORPUS)
        return
    if case.get("kind") == "accept":
        phase_accept(ctx)
        return
    base = {k: v for k, v in case.items() if k not in ("request", "actions")}
    run_cases(ctx, [base])
