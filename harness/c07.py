"""C07 — implementation errors reach the client faithfully.

Layers
  1. codec   : real `_write_error_stream` (Message.from_exception → add_to_metadata → _write_message_batch) → bytes → real
               `_dispatch_log_or_error`; K against the Lean `C07.roundtrip` (class name, text, getattr(exc, "error_kind"),
               traceback / cause / context, server id, request id), O = the property on the raised RpcError.
  2. peer    : EXCEPTION batches as any peer may write them (top-level kind present / absent, log_extra kind str /
               non-str / missing, log_extra not an object); K against `C08.dispatch`; O = top-level key first.
  3. sites   : generated services (svcgen) raising at every dispatch site (unary, unary after logging, init with / without
               header, first / later step, after logging, exchange) over every transport; O on RpcError.error_type /
               error_message / error_kind and — over HTTP, through the recorded raw responses — on status + X-VGI-RPC-Error;
               K: the recorded (status, marker) against the Lean `C07.http` site table.
  4. opstep  : streams whose (first / later) step is an ORDERED op list — every order of emit / client_log / finish / raise
               inside one process() call, plus the collector's own failures (second emit, finish on an exchange, no data);
               O: a failing step reaches the client as the faithful RPC error (and a succeeding one raises none);
               K: the session's events against Lean `C07.stepWrites` (a failed call writes its logs and the error, never its data).
"""

import contextlib
import io
import json
from typing import Any

import pyarrow as pa

from harness.common import opsvc, rpcutil, svcgen
from harness.common.lean import s2j
from harness.common.svcgen import Config

PROPERTY = "C07"
LEAN_MODULES = ["VgiVerif.Proofs.C07"]
OBLIGATIONS = [
    "VgiVerif.C07.roundTrip_eq",
    "VgiVerif.C07.C07_faithful",
    "VgiVerif.C07.C07_type_msg",
    "VgiVerif.C07.C07_kind",
    "VgiVerif.C07.C07_client_kind",
    "VgiVerif.C07.C07_http",
    "VgiVerif.C07.C07_unary_body_faithful",
    "VgiVerif.C07.setHttpStatus_spec",
    "VgiVerif.C07.http_shapes_recognised",
    "VgiVerif.C07.errEv_justified",
    "VgiVerif.C07.C07_unary",
    "VgiVerif.C07.C07_init",
    "VgiVerif.C07.C07_producer_pipe",
    "VgiVerif.C07.C07_producer_http",
    "VgiVerif.C07.C07_exchange_pipe",
    "VgiVerif.C07.C07_exchange_http",
    "VgiVerif.C07.C07_socket_sites_catch_all",
    "VgiVerif.C07.C07_failed_step_writes",
    "VgiVerif.C07.C07_failed_step_reaches_client",
]
EXTRACTORS = ["gen_c07", "gen_c08"]
TRUSTED = [
    "Arrow IPC framing, UTF-8 decoding, json.dumps/json.loads and traceback formatting are abstracted in the model (a metadata "
    "value is its decoded text, log_extra is its parsed JSON value); they run for real in the correspondence",
    "HTTP: Falcon's request routing and header serialisation; the model covers _set_http_status and the status each dispatch "
    "site reports (extracted from the AST), the harness observes the real WSGI responses",
    "the step-site corollaries are stated over the Engine transport models (tied to the code by C01's and C08's correspondence)",
]
PARTIAL = ["subprocess transport is not exercised (same code path as pipe)"]
RULE = (
    "exception = (class from built-ins / the classes the framework's control flow uses itself (BrokenPipeError, ConnectionResetError, "
    "ConnectionAbortedError, OSError, EOFError, StopIteration, TimeoutError, ArrowInvalid, ... — each rotated through every site on every "
    "transport) / user classes / typed framework errors / classes whose error_kind is not a str or set on "
    "the instance, message from {empty, ascii, unicode, newlines, NULs, 100 kB, random}); codec cases add chaining (cause / "
    "context), server id, request id; peer cases enumerate kind placement x extra shape; site cases place one exception at each of "
    "8 dispatch sites of a generated service and run it over {pipe, unix, tcp, shm, http(no cap), http(cap 1 MB, zstd), http(gzip), http(cap 64 KiB), http(cap 1500 B)}, with texts padded "
    "below / above the caps (a round with every text > 64 KiB runs first); a "
    "case is non-trivial when an exception crosses the wire; distinct by canonical JSON"
)
MANIFEST = {
    "level": "proof",
    "text": "Lean theorems: for ALL exceptions (class name, text, error_kind attribute incl. non-str), tracebacks and ids the client "
            "raises RpcError(type = class name, message = 'Cls: text', kind = declared kind); for ANY peer error batch the top-level "
            "kind wins; HTTP: raised <=> 200 + marker at every site; Engine corollaries for every dispatch site and transport. "
            "Correspondence: real codec and real transports vs the model; oracle on RpcError attributes and raw HTTP responses",
    "note": "Arrow / json / UTF-8 / traceback formatting abstracted (exercised by correspondence); shapes of from_exception, "
            "add_to_metadata, _dispatch_log_or_error, _set_http_status and the per-site statuses are re-extracted on every run",
    "technique": "Lean 4 proof (closed form of the client dispatch over extracted shape flags; refinement corollaries) + "
                 "differential correspondence (codec, peer batches, generated services over all transports, raw WSGI responses)",
}


# ------------------------------------------------------------------------------------------ exception classes


class OddKindError(Exception):
    """error_kind is not a str."""

    error_kind = 42


class BytesKindError(Exception):
    error_kind = b"bytes_kind"


class NoneKindError(Exception):
    error_kind = None


class InstanceKindError(Exception):
    """error_kind set on the instance (getattr finds it)."""

    def __init__(self, *a: Any) -> None:
        super().__init__(*a)
        self.error_kind = "instance_kind"


class SubKinded(svcgen.KindedError):
    """inherits a str error_kind."""


class UnicodeNameÉrror(Exception):
    """non-ASCII class name."""


class EmptyKindError(Exception):
    error_kind = ""


class Store:
    """an exception class nested in another class: __name__ 'NotFound', __qualname__ 'Store.NotFound'"""

    class NotFound(Exception):
        pass

    class Inner:
        class Deep(Exception):
            error_kind = "deep_kind"


def _make_local() -> type[BaseException]:
    class LocalError(Exception):
        """defined inside a function: __qualname__ '_make_local.<locals>.LocalError'"""

    return LocalError


LocalError = _make_local()
DynamicError = type("DynamicError", (Exception,), {"__qualname__": "factory.<dynamic>.DynamicError"})


# classes the framework's own control flow also uses (client disconnects, end of stream, IPC errors): raised by an
# implementation they are implementation errors like any other
CONTROL_FLOW_CLASSES = ["BrokenPipeError", "ConnectionResetError", "ConnectionAbortedError", "ConnectionRefusedError", "OSError", "EOFError",
                        "StopIteration", "StopAsyncIteration", "TimeoutError", "ArrowInvalid", "InterruptedError", "BlockingIOError"]

EXTRA_CLASSES: dict[str, type[BaseException]] = {
    # the client must see the class NAME (not the qualified name) of nested / function-local / dynamically built classes
    "Store.NotFound": Store.NotFound, "Store.Inner.Deep": Store.Inner.Deep, "LocalError": LocalError, "DynamicError": DynamicError,
    "ConnectionAbortedError": ConnectionAbortedError, "ConnectionRefusedError": ConnectionRefusedError, "StopAsyncIteration": StopAsyncIteration,
    "InterruptedError": InterruptedError, "BlockingIOError": BlockingIOError,
    "OddKindError": OddKindError, "BytesKindError": BytesKindError, "NoneKindError": NoneKindError,
    "InstanceKindError": InstanceKindError, "SubKinded": SubKinded, "UnicodeNameÉrror": UnicodeNameÉrror,
    "EmptyKindError": EmptyKindError, "OSError": OSError, "LookupError": LookupError, "AssertionError": AssertionError,
    "NotImplementedError": NotImplementedError, "UnicodeError": UnicodeError, "ArithmeticError": ArithmeticError,
}
_orig_exc_classes = svcgen.exc_classes


def _exc_classes() -> dict[str, type[BaseException]]:
    d = dict(_orig_exc_classes())
    d.update(EXTRA_CLASSES)
    return d


def install() -> None:
    svcgen.exc_classes = _exc_classes  # make_exc / exc_view look the name up at call time


MESSAGES = ["", "boom", "bad value: ü — ключ 漢字 🎉", "multi\nline\r\nmessage\n", "nul\x00inside\x00", "x" * 100_000,
            " leading and trailing ", "colon: inside: twice", "%s %d {}", "\t\ttabs", "'quoted' \"double\"", "\\backslash\\"]


def gen_message(rng: Any) -> str:
    r = rng.random()
    if r < 0.6:
        return rng.choice(MESSAGES)
    n = rng.choice([1, 2, 7, 40, 300])
    alphabet = "ab \n\x00üж漢🎉:'\"\\{}%"
    return "".join(rng.choice(alphabet) for _ in range(n))


def class_names() -> list[str]:
    return sorted(_exc_classes())


def gen_exc(rng: Any) -> dict[str, Any]:
    return {"cls": rng.choice(class_names()), "arg": gen_message(rng)}


def kind_attr(x: BaseException) -> Any:
    """getattr(exc, "error_kind", None) as the driver wants it: absent | {"str": …} | "other"."""
    k = getattr(x, "error_kind", None)
    if k is None:
        return None
    if isinstance(k, str):
        return {"str": s2j(k)}
    return "other"


def _s(cps: Any) -> str | None:
    return None if cps is None else "".join(chr(c) for c in cps)


# ------------------------------------------------------------------------------------------ 1. codec


def raise_and_catch(e: dict[str, Any], chain: str) -> BaseException:
    try:
        if chain == "cause":
            try:
                raise KeyError("inner")
            except KeyError as inner:
                raise svcgen.make_exc(e) from inner
        elif chain == "context":
            try:
                raise KeyError("inner")
            except KeyError:
                raise svcgen.make_exc(e)  # noqa: B904
        else:
            raise svcgen.make_exc(e)
    except BaseException as x:  # noqa: BLE001
        return x


def codec_case(ctx: Any, e: dict[str, Any], chain: str, sid: str | None, rid: str) -> None:
    from vgi_rpc.rpc import RpcError
    from vgi_rpc.rpc._common import _current_request_id
    from vgi_rpc.rpc._wire import _dispatch_log_or_error, _write_error_stream

    case = {"layer": "codec", "exc": e if len(e["arg"]) < 500 else {"cls": e["cls"], "arg_len": len(e["arg"]), "arg_head": e["arg"][:20]},
            "chain": chain, "sid": sid, "rid": rid}
    x = raise_and_catch(e, chain)
    view = {"type": type(x).__name__, "text": str(x), "kind": getattr(x, "error_kind", None)}
    buf = io.BytesIO()
    tok = _current_request_id.set(rid)
    try:
        _write_error_stream(buf, pa.schema([]), x, server_id=sid)
    finally:
        _current_request_id.reset(tok)
    _schema, batches = rpcutil.read_stream(buf.getvalue())
    assert len(batches) == 1
    batch, md = batches[0]
    got: dict[str, Any]
    try:
        _dispatch_log_or_error(batch, pa.KeyValueMetadata(md), None)
        got = {"k": "no-raise"}
    except RpcError as r:
        got = {"k": "rpc", "type": r.error_type, "message": r.error_message, "kind": r.error_kind, "rid": r.request_id,
               "traceback": r.remote_traceback}
    except Exception as ex:  # noqa: BLE001
        got = {"k": "crash", "exc": type(ex).__name__}
    ctx.case(case, nontrivial=True, tags=("layer:codec", f"chain:{chain}", f"kind:{'str' if isinstance(view['kind'], str) else ('none' if view['kind'] is None else 'other')}"))
    # O: the property
    declared = view["kind"] if isinstance(view["kind"], str) else None
    if got["k"] != "rpc":
        ctx.fail(case, f"C07:not-an-rpc-error:{got['k']}", f"error batch of {view['type']} was not raised as RpcError: {got}")
        return
    if got["type"] != view["type"]:
        ctx.fail(case, "C07:type-not-class-name", f"error_type {got['type']!r} != class name {view['type']!r}")
    if view["text"] not in got["message"]:
        ctx.fail(case, "C07:message-lost-text", f"error_message does not carry str(exc) (len {len(view['text'])})")
    if got["kind"] != declared:
        ctx.fail(case, f"C07:kind-not-exposed:{'declared' if declared is not None else 'invented'}",
                 f"error_kind {got['kind']!r} != declared kind {declared!r}")
    # K: the model (batched by the caller)
    if ctx.driver is not None:
        extra = json.loads(md[b"vgi_rpc.log_extra"])
        a = {"cls": s2j(view["type"]), "text": s2j(view["text"]), "kind": kind_attr(x), "traceback": s2j(extra["traceback"]),
             "cause": s2j(extra["cause"]) if "cause" in extra else None, "context": s2j(extra["context"]) if "context" in extra else None,
             "sid": s2j(sid) if sid is not None else None, "rid": s2j(rid) if rid else None}
        PENDING.append((case, got, a))
        if len(PENDING) >= 300:
            flush_codec(ctx)


PENDING: list[tuple[dict[str, Any], dict[str, Any], dict[str, Any]]] = []


def flush_codec(ctx: Any) -> None:
    if not PENDING or ctx.driver is None:
        PENDING.clear()
        return
    res = ctx.driver.batch([("C07.roundtrip", a) for _, _, a in PENDING])
    for (case, got, _), m in zip(PENDING, res):
        mod = {"k": m["k"], "type": _s(m.get("type")), "message": _s(m.get("message")), "kind": _s(m.get("kind")),
               "rid": _s(m.get("rid")), "traceback": _s(m.get("traceback"))}
        if mod != got:
            ctx.mismatch(case, _short(mod), _short(got), "codec round trip: Lean C07.roundtrip vs _write_error_stream + _dispatch_log_or_error")
    PENDING.clear()


def _short(d: dict[str, Any]) -> dict[str, Any]:
    return {k: (v if not isinstance(v, str) or len(v) < 300 else {"len": len(v), "head": v[:40]}) for k, v in d.items()}


# ------------------------------------------------------------------------------------------ 2. peer error batches


def jtag(v: Any, depth: int = 0) -> dict[str, Any]:
    """tagged JSON for the driver; the model only inspects the top-level object's keys and whether a value is a string, a
    leaf or a container, so containers below the top level are sent empty (keeps arbitrarily deep values cheap)"""
    if v is None:
        return {"t": "null"}
    if isinstance(v, bool):
        return {"t": "bool", "v": v}
    if isinstance(v, (int, float)):
        return {"t": "num", "v": s2j(str(v))}
    if isinstance(v, str):
        return {"t": "str", "v": s2j(v)}
    if isinstance(v, list):
        return {"t": "arr", "v": [jtag(x, depth + 1) for x in v] if depth == 0 else []}
    if isinstance(v, dict):
        return {"t": "obj", "v": [[s2j(k), jtag(x, depth + 1)] for k, x in v.items()] if depth == 0 else []}
    raise TypeError(type(v))


def mdval(b: bytes | None) -> dict[str, Any] | None:
    if b is None:
        return None
    try:
        b.decode()
        valid = True
    except UnicodeDecodeError:
        valid = False
    return {"valid": valid, "text": s2j(b.decode("utf-8", "replace"))}


def parsed_of(raw: bytes) -> Any:
    try:
        v = json.loads(raw.decode("utf-8", "replace"))
    except json.JSONDecodeError:
        return "json_error"
    except ValueError:
        return "value_error"
    except RecursionError:
        return "recursion"
    return {"ok": jtag(v)}


def wire_args(rows: int, md: dict[bytes, bytes] | None) -> dict[str, Any]:
    if md is None:
        return {"rows": rows, "md": None}
    m: dict[str, Any] = {"level": mdval(md.get(b"vgi_rpc.log_level")), "message": mdval(md.get(b"vgi_rpc.log_message")),
                         "kind": mdval(md.get(b"vgi_rpc.error_kind")), "sid": mdval(md.get(b"vgi_rpc.server_id")),
                         "rid": mdval(md.get(b"vgi_rpc.request_id"))}
    raw = md.get(b"vgi_rpc.log_extra")
    if raw is not None:
        x = mdval(raw)
        assert x is not None
        x["text"] = []  # the model never looks at the JSON text, only at "valid UTF-8?" and the outcome of json.loads
        x["parsed"] = parsed_of(raw)
        m["extra"] = x
    return {"rows": rows, "md": m}


def render(v: Any) -> str:
    """the model's pyStr: containers are opaque"""
    return "?" if isinstance(v, (list, dict)) else str(v)


def impl_dispatch(rows: int, md: dict[bytes, bytes] | None) -> dict[str, Any]:
    from vgi_rpc.rpc import RpcError
    from vgi_rpc.rpc._wire import _dispatch_log_or_error

    b = pa.RecordBatch.from_pydict({"x": pa.array(list(range(rows)), pa.int64())})
    got: list[Any] = []
    try:
        r = _dispatch_log_or_error(b, pa.KeyValueMetadata(md) if md is not None else None, got.append)
    except RpcError as e:
        return {"k": "rpc", "type": e.error_type, "message": e.error_message, "kind": e.error_kind, "rid": e.request_id,
                "traceback": e.remote_traceback}
    except BaseException as e:  # noqa: BLE001
        return {"k": "crash", "exc": type(e).__name__}
    if not r:
        return {"k": "data"}
    if not got:
        return {"k": "ignored"}
    m = got[0]
    return {"k": "delivered", "level": m.level.value, "text": m.message, "extra": [[k, v] for k, v in (m.extra or {}).items()]}


def _model_out(m: dict[str, Any]) -> dict[str, Any]:
    out: dict[str, Any] = {"k": m["k"]}
    if m["k"] == "rpc":
        out.update(type=_s(m["type"]), message=_s(m["message"]), kind=_s(m["kind"]), rid=_s(m["rid"]), traceback=_s(m["traceback"]))
    elif m["k"] == "delivered":
        out.update(level=_s(m["level"]), text=_s(m["text"]), extra=[[_s(k), _s(v)] for k, v in m["extra"]])
    elif m["k"] == "crash":
        out["exc"] = m["exc"]
    return out


def model_dispatch(ctx: Any, rows: int, md: dict[bytes, bytes] | None) -> dict[str, Any]:
    return _model_out(ctx.driver.call("C08.dispatch", wire_args(rows, md)))


def model_dispatch_many(ctx: Any, items: list[tuple[int, dict[bytes, bytes] | None]]) -> list[dict[str, Any]]:
    return [_model_out(m) for m in ctx.driver.batch([("C08.dispatch", wire_args(r, md)) for r, md in items])]


def canon_impl_extras(out: dict[str, Any], md: dict[bytes, bytes] | None) -> dict[str, Any]:
    """containers in log_extra are rendered opaquely by the model: replace the implementation's str(list/dict) likewise"""
    if md is None or b"vgi_rpc.log_extra" not in md:
        return out
    try:
        parsed = json.loads(md[b"vgi_rpc.log_extra"].decode("utf-8", "replace"))
    except (ValueError, RecursionError):
        return out
    if not isinstance(parsed, dict):
        return out
    o = dict(out)
    if o["k"] == "delivered":
        # (a framework id that overwrote a peer extra of the same name is not the str() of the peer's value: left alone)
        o["extra"] = [[k, "?" if isinstance(parsed.get(k), (list, dict)) and v == str(parsed[k]) else v] for k, v in o["extra"]]
    if o["k"] == "rpc":
        if isinstance(parsed.get("exception_type"), (list, dict)):
            o["type"] = "?"
        if isinstance(parsed.get("traceback"), (list, dict)):
            o["traceback"] = "?"
    return o


def peer_error_case(ctx: Any, md: dict[bytes, bytes], tag: str, mod: dict[str, Any] | None = None) -> None:
    case = {"layer": "peer", "md": {k.decode(): v.hex() if len(v) < 200 else v[:50].hex() + "…" for k, v in md.items()}}
    got = canon_impl_extras(impl_dispatch(0, md), md)
    ctx.case(case, nontrivial=True, tags=("layer:peer", tag))
    # O: top-level key first, log_extra fallback second (WIRE_PROTOCOL §8)
    if got["k"] == "crash":
        ctx.fail(case, f"C07:peer-error-batch-crashes:{got['exc']}", f"EXCEPTION batch from a peer raised {got['exc']} instead of RpcError")
    elif got["k"] == "rpc":
        top = md.get(b"vgi_rpc.error_kind")
        want: str | None
        if top is not None:
            want = top.decode("utf-8", "replace")
        else:
            want = None
            with contextlib.suppress(ValueError, RecursionError):
                p = json.loads(md.get(b"vgi_rpc.log_extra", b"null").decode("utf-8", "replace"))
                if isinstance(p, dict) and isinstance(p.get("error_kind"), str):
                    want = p["error_kind"]
        if got["kind"] != want:
            ctx.fail(case, f"C07:kind-not-exposed:peer:{'top' if top is not None else 'extra'}", f"error_kind {got['kind']!r}, expected {want!r}")
    if ctx.driver is not None:
        if mod is None:
            mod = model_dispatch(ctx, 0, md)
        if mod != got:
            ctx.mismatch(case, _short(mod), _short(got), "peer EXCEPTION batch: Lean dispatchLog vs _dispatch_log_or_error")


def peer_error_cases(rng: Any, n: int) -> list[tuple[dict[bytes, bytes], str]]:
    out: list[tuple[dict[bytes, bytes], str]] = []
    tops: list[bytes | None] = [None, b"method_not_implemented", b"", b"k\xffbad", "ключ".encode()]
    extras: list[bytes | None] = [None, b'{"exception_type":"V","error_kind":"from_extra","traceback":"tb"}', b'{"exception_type":"V","error_kind":7}',
                                  b'{"exception_type":"V"}', b'{"exception_type":5,"traceback":[1]}', b"[1,2]", b'"s"', b"null", b"{nope", b"\xff\xfe",
                                  b'{"error_kind":null}', b'{"error_kind":["a"]}', b'{"error_kind":""}']
    for t in tops:
        for x in extras:
            md = {b"vgi_rpc.log_level": b"EXCEPTION", b"vgi_rpc.log_message": b"V: boom"}
            if t is not None:
                md[b"vgi_rpc.error_kind"] = t
            if x is not None:
                md[b"vgi_rpc.log_extra"] = x
            out.append((md, f"peer:top={'y' if t is not None else 'n'}"))
    for _ in range(n):
        md = {b"vgi_rpc.log_level": b"EXCEPTION", b"vgi_rpc.log_message": gen_message(rng).encode("utf-8", "surrogatepass")[:2000]}
        if rng.random() < 0.5:
            md[b"vgi_rpc.error_kind"] = rng.choice([b"k", b"", b"\xff", "é".encode(), b"session_lost"])
        r = rng.random()
        if r < 0.7:
            ex: dict[str, Any] = {}
            if rng.random() < 0.7:
                ex["exception_type"] = rng.choice(["ValueError", "", 5, None, ["x"], "Клас"])
            if rng.random() < 0.6:
                ex["error_kind"] = rng.choice(["ek", "", 1, None, {"a": 1}, True])
            if rng.random() < 0.4:
                ex["traceback"] = rng.choice(["Traceback…", "", 3])
            md[b"vgi_rpc.log_extra"] = json.dumps(ex).encode()
        elif r < 0.85:
            md[b"vgi_rpc.log_extra"] = rng.choice([b"[]", b"1", b"true", b'"x"', b"null", b"{", b"\xff"])
        if rng.random() < 0.3:
            md[b"vgi_rpc.request_id"] = rng.choice([b"rid-1", b"\xff", b""])
        out.append((md, "peer:random"))
    return out


# ------------------------------------------------------------------------------------------ 3. sites x transports

REC: list[dict[str, Any]] = []
_patched = False


def install_recorder() -> None:
    """Record every raw HTTP response the in-process client receives (status, marker header, whether the body carries an EXCEPTION batch)."""
    global _patched
    if _patched:
        return
    import vgi_rpc.http._testing as T

    orig = T._SyncTestClient.post

    def post(self: Any, url: str, *, content: bytes, headers: dict[str, str]) -> Any:
        r = orig(self, url, content=content, headers=headers)
        hdr = {k.lower(): v for k, v in r.headers.items()}
        err = None
        with contextlib.suppress(Exception):
            for _schema, batches in rpcutil.read_all_streams(r.content):
                e = rpcutil.error_of(batches)
                if e is not None:
                    err = e
        REC.append({"path": url, "status": r.status_code, "marker": hdr.get("x-vgi-rpc-error"), "error": err is not None,
                    "etype": err["type"] if err else None, "emsg": (err["message"][:120] if err else None)})
        return r

    T._SyncTestClient.post = post  # type: ignore[method-assign]
    _patched = True


LEVELS = ["ERROR", "WARN", "INFO", "DEBUG", "TRACE"]


def L(t: str, lvl: str = "INFO", **x: str) -> dict[str, Any]:
    return {"level": lvl, "text": t, "extra": x}


def site_service(excs: list[dict[str, Any]], tight_cap: bool = False) -> tuple[dict[str, Any], list[list[Any]], list[tuple[str, str, int]]]:
    """One service with an exception at each of 8 dispatch sites; returns (descriptor, script, [(site, method, script index of the op that must see the error on sockets)])."""
    E = lambda i: {"raise": excs[i % len(excs)]}  # noqa: E731
    em = lambda i: {"logs": [], "act": {"emit": {"id": i}}, "post": []}  # noqa: E731
    d = {"methods": [
        {"name": "u_plain", "kind": "unary", "logs": [], "out": E(0)},
        {"name": "u_logged", "kind": "unary", "logs": [L("before", "WARN", k="v"), L("again")], "out": E(1)},
        {"name": "s_init", "kind": "producer", "header": False, "init_logs": [L("init-log")], "init": E(2), "steps": []},
        {"name": "s_init_h", "kind": "producer", "header": True, "hdr": 3, "init_logs": [], "init": E(3), "steps": []},
        {"name": "p_first", "kind": "producer", "header": False, "init_logs": [], "init": "ok", "steps": [{"logs": [], "act": E(4), "post": []}]},
        {"name": "p_later", "kind": "producer", "header": True, "hdr": 9, "init_logs": [L("il")], "init": "ok",
         "steps": [em(1), em(2), {"logs": [L("about to fail", "ERROR")], "act": E(5), "post": []}]},
        {"name": "x_first", "kind": "exchange", "header": False, "init_logs": [], "init": "ok", "steps": [{"logs": [], "act": E(6), "post": []}]},
        {"name": "x_later", "kind": "exchange", "header": False, "init_logs": [L("xi")], "init": "ok",
         "steps": [em(1), {"logs": [L("x about to fail")], "act": E(7), "post": []}]},
        {"name": "ok_u", "kind": "unary", "logs": [L("fine")], "out": {"ok": 7}},
        {"name": "ok_p", "kind": "producer", "header": False, "init_logs": [], "init": "ok", "steps": [em(1), em(2)]},
    ]}
    s = [["call", "u_plain", 1], ["call", "ok_u", 1], ["call", "u_logged", 1],
         ["open", "s_init", 1], ["iter", None], ["close"],
         ["open", "s_init_h", 1], ["iter", None], ["close"],
         ["open", "p_first", 1], ["iter", None], ["close"],
         ["open", "ok_p", 1], ["iter", None], ["close"],
         ["open", "p_later", 1], ["iter", None], ["close"],
         ["open", "x_first", 1], ["send", 0], ["close"],
         ["open", "x_later", 1], ["send", 0], ["send", 1], ["close"],
         ["call", "ok_u", 2]]
    sites = [("unary", "u_plain", 0), ("unary-after-logging", "u_logged", 1), ("init", "s_init", 2), ("init-header", "s_init_h", 3),
             ("first-step", "p_first", 4), ("later-step-after-logging", "p_later", 5), ("exchange-first", "x_first", 6),
             ("exchange-later-after-logging", "x_later", 7)]
    if tight_cap:
        # under a cap smaller than the error payloads, every response that is SUPPOSED to succeed must still fit: x_later's
        # first exchange returns a state token that embeds the step script (and so the exception text) — a cap overshoot of
        # that successful response is an error by design (C16), not a C07 matter.  All other sites keep only small successes.
        d["methods"] = [m for m in d["methods"] if m["name"] != "x_later"]
        cut = s.index(["open", "x_later", 1])
        s = s[:cut] + s[cut + 4:]
        sites = [x for x in sites if x[1] != "x_later"]
    return d, s, [(a, b, c) for a, b, c in sites]


def rle(t: str) -> list[list[Any]]:
    out: list[list[Any]] = []
    for ch in t:
        if out and out[-1][0] == ch:
            out[-1][1] += 1
        else:
            out.append([ch, 1])
    return out


def pack_exc(e: dict[str, Any]) -> dict[str, Any]:
    """replayable, compact form of an exception descriptor (long texts are runs of few characters)"""
    return e if len(e["arg"]) < 300 else {"cls": e["cls"], "arg_rle": rle(e["arg"])}


def unpack_exc(e: dict[str, Any]) -> dict[str, Any]:
    return e if "arg" in e else {"cls": e["cls"], "arg": "".join(ch * n for ch, n in e["arg_rle"])}


def is_cap_error(etype: Any, emsg: Any) -> bool:
    return etype == "RuntimeError" and isinstance(emsg, str) and ("exceeds max_response_bytes" in emsg or "exceeds max_externalized_response_bytes" in emsg)


def http_site(path: str, by_name: dict[str, Any]) -> str:
    parts = [p for p in path.split("/") if p]
    m = by_name[parts[0]]
    if len(parts) == 1:
        return "unary"
    if parts[1] == "init":
        if m.get("init", "ok") != "ok":
            return "init"
        return "producer_first" if m["kind"] == "producer" else "init"
    return "producer_cont" if m["kind"] == "producer" else "exchange"


def site_case(ctx: Any, excs: list[dict[str, Any]], cfg: Config) -> None:
    tight = cfg.kind == "http" and cfg.cap is not None and cfg.cap < 1_000_000
    d, script, sites = site_service(excs, tight)
    by_name = {m["name"]: m for m in d["methods"]}
    REC.clear()
    r = svcgen.run_script(d, script, cfg, deadline=60)
    rec = list(REC)
    short = [pack_exc(e) for e in excs]
    base = {"layer": "sites", "excs": short, "transport": cfg.label()}
    if r["hung"] or len(r["trace"]) != len(script):
        ctx.case(base, tags=(f"t:{cfg.label()}",))
        ctx.fail(base, f"C07:hung:{cfg.kind}", f"script did not complete on {cfg.label()} ({len(r['trace'])}/{len(script)} ops)")
        return
    # group events per method session
    per: dict[str, list[Any]] = {}
    cur = None
    for op, evs in zip(script, r["trace"]):
        if op[0] in ("call", "open"):
            cur = op[1] if op[0] == "open" else None
            key = op[1]
            per.setdefault(key, [])
            per[key] += evs
        elif cur is not None:
            per[cur] += evs
    for site, mname, i in sites:
        e = excs[i % len(excs)]
        v = svcgen.exc_view(e)
        case = dict(base, site=site, exc=short[i % len(excs)])
        ctx.case(case, nontrivial=True, tags=(f"t:{cfg.label()}", f"site:{site}", f"cls:{e['cls']}"))
        errs = [x for x in per[mname] if x[0] == "error"]
        raised = [x for x in per[mname] if x[0] == "raised"]
        if raised:
            ctx.fail(case, f"C07:non-rpc-exception:{raised[0][1]}:{site}", f"{cfg.label()}: a non-RpcError exception reached the caller: {raised[0]}")
            continue
        if not errs:
            ctx.fail(case, f"C07:error-not-delivered:{site}:{'http' if cfg.kind == 'http' else 'socket'}",
                     f"{cfg.label()}: {v['type']} raised at {site} never reached the client: {json.dumps(per[mname])[:300]}")
            continue
        _, typ, msg, kind = errs[0]
        if is_cap_error(typ, msg) and not is_cap_error(v["type"], f"{v['type']}: {v['text']}"):
            ctx.fail(case, f"C07:impl-error-replaced-by-cap-error:{site}",
                     f"{cfg.label()}: {v['type']} (text len {len(v['text'])}) raised at {site} reached the client as {msg[:100]!r}")
            continue
        if typ != v["type"]:
            ctx.fail(case, f"C07:type-not-class-name:{site}", f"{cfg.label()}: error_type {typ!r} != {v['type']!r}")
        if v["text"] not in msg:
            ctx.fail(case, f"C07:message-lost-text:{site}", f"{cfg.label()}: error_message lacks str(exc) (len {len(v['text'])}, got len {len(msg)})")
        if kind != v["kind"]:
            ctx.fail(case, f"C07:kind-not-exposed:{site}", f"{cfg.label()}: error_kind {kind!r} != declared {v['kind']!r}")
        # K: the exact mapping the model proves
        if ctx.driver is not None and (typ, msg, kind) != (v["type"], f"{v['type']}: {v['text']}", v["kind"]):
            ctx.mismatch(case, [v["type"], f"{v['type']}: {v['text']}"[:200], v["kind"]], [typ, msg[:200], kind], "RpcError vs errEv (Cls, 'Cls: text', kind)")
    # successful calls must not raise
    for mname in ("ok_u", "ok_p"):
        if any(x[0] in ("error", "raised") for x in per.get(mname, [])):
            ctx.fail(dict(base, method=mname), f"C07:spurious-error:{mname}", f"{cfg.label()}: successful method reported an error: {per[mname]}")
    # HTTP: raw responses
    if cfg.kind == "http":
        n_err = 0
        for resp in rec:
            path = resp["path"].split("://")[-1]
            path = "/" + path.split("/", 1)[1] if not path.startswith("/") else path
            site = http_site(path, by_name)
            case = dict(base, path=path, site=site, response={k: resp[k] for k in ("status", "marker", "error", "etype")})
            ctx.case(case, nontrivial=resp["error"], tags=(f"http:{site}", f"http-error:{resp['error']}"))
            marker = resp["marker"] is not None
            if resp["error"]:
                n_err += 1
                if not (resp["status"] == 200 and resp["marker"] == "true"):
                    ctx.fail(case, f"C07:http-error-unmarked:{site}", f"response carrying {resp['etype']} has status {resp['status']} marker {resp['marker']!r}")
            elif marker:
                ctx.fail(case, f"C07:http-success-marked:{site}", f"successful response carries X-VGI-RPC-Error={resp['marker']!r}")
            if ctx.driver is not None and site == "unary" and cfg.cap is not None:
                meth = by_name[[p for p in path.split("/") if p][0]]
                raised = "raise" in meth["out"]
                exp_cap = raised and is_cap_error(svcgen.exc_view(meth["out"]["raise"])["type"], "RuntimeError: " + svcgen.exc_view(meth["out"]["raise"])["text"])
                seen = "result" if not resp["error"] else ("cap_error" if is_cap_error(resp["etype"], resp["emsg"]) and not exp_cap else "impl_error")
                # over_cap is not observable once the body was replaced: the model's answer must not depend on it when raised
                for oc in ((True, False) if raised else (False,)):
                    mb = ctx.driver.call("C07.unary_body", {"raised": raised, "over_cap": oc})
                    if mb != seen:
                        ctx.mismatch(case, {"unary_body": mb, "over_cap": oc}, {"unary_body": seen, "etype": resp["etype"], "emsg": resp["emsg"]},
                                     "unary HTTP body under a response cap vs Lean C07.unaryBody")
            if ctx.driver is not None:
                m = ctx.driver.call("C07.http", {"site": site, "raised": bool(resp["error"])})
                if (m["status"], m["marker"]) != (resp["status"], marker) or (marker and resp["marker"] != m["value"]):
                    ctx.mismatch(case, m, {"status": resp["status"], "marker": resp["marker"]}, "HTTP status / marker vs Lean C07.http")
        if n_err != len(sites):
            ctx.fail(dict(base, n=n_err), "C07:http-error-count", f"{cfg.label()}: {n_err} responses carried an error batch, {len(sites)} calls failed")


# ------------------------------------------------------------------------------------------ 4. every order of emit / log / finish / raise in one step

STEP_SHAPES: list[list[str]] = [
    ["raise"], ["log", "raise"], ["emit", "raise"], ["emit", "log", "raise"], ["log", "emit", "raise"], ["log", "emit", "log", "raise"],
    ["emit", "log", "log", "raise"], ["emit", "finish", "raise"], ["emit", "log", "finish", "raise"], ["finish", "raise"], ["log", "finish", "log", "raise"],
    ["emit", "emit"], ["emit", "log", "emit"], ["log", "emit", "log", "emit", "log"], ["emit", "finish"], ["emit", "log", "finish"], ["log"], [],
]


def gen_shape(rng: Any) -> list[str]:
    n = rng.choice([0, 1, 2, 3, 4, 5])
    shape = [rng.choice(["log", "log", "emit", "emit", "finish"]) for _ in range(n)]
    if rng.random() < 0.75:
        shape.append("raise")
    return shape


def shape_ops(shape: list[str], exc: dict[str, Any], tag: str) -> list[list[Any]]:
    ops: list[list[Any]] = []
    n_log = n_emit = 0
    for k in shape:
        if k == "log":
            n_log += 1
            ops.append(["log", L(f"{tag}-log{n_log}", LEVELS[n_log % len(LEVELS)], k=f"v{n_log}")])
        elif k == "emit":
            n_emit += 1
            ops.append(["emit", {"id": 100 + n_emit, "rows": 1}])
        elif k == "finish":
            ops.append(["finish"])
        else:
            ops.append(["raise", exc])
    return ops


def step_outcome(ops: list[list[Any]], producer: bool) -> tuple[str, Any]:
    """What one process() call does, from the API's documented rules (independent of the Lean model):
    ("error", exception view) | ("data", batch) | ("finish", batch | None)."""
    emitted = None
    finished = False
    for op in ops:
        if op[0] == "emit":
            if emitted is not None:
                return "error", {"type": "RuntimeError", "text": "Only one data batch may be emitted per call", "kind": None}
            emitted = op[1]
        elif op[0] == "finish":
            if not producer:
                return "error", {"type": "RuntimeError", "text": "finish() is not allowed on exchange streams; exchange streams must emit exactly one data batch per call", "kind": None}
            finished = True
        elif op[0] == "raise":
            return "error", svcgen.exc_view(op[1])
    if finished:
        return "finish", emitted
    if emitted is None:
        return "error", {"type": "RuntimeError", "text": "No data batch was emitted", "kind": None}
    return "data", emitted


def opstep_service(shapes: list[list[str]], excs: list[dict[str, Any]]) -> tuple[dict[str, Any], list[list[Any]]]:
    """For every shape: a producer and an exchange whose first step is the shape, and a producer and an exchange whose
    SECOND step is the shape (after a plain emit)."""
    methods: list[dict[str, Any]] = []
    script: list[list[Any]] = []
    plain = {"ops": [["emit", {"id": 1, "rows": 1}]]}
    for i, shape in enumerate(shapes):
        e = excs[i % len(excs)]
        for kind in ("producer", "exchange"):
            for later in (False, True):
                name = f"{kind[0]}{i}{'l' if later else 'f'}"
                step = {"ops": shape_ops(shape, e, name)}
                methods.append({"name": name, "kind": kind, "header": False, "init_logs": [], "init": "ok", "steps": ([plain] if later else []) + [step],
                                "shape": shape})
                if kind == "producer":
                    script += [["open", name, 1], ["iter", None], ["close"]]
                else:
                    script += [["open", name, 1]] + [["send", k] for k in range(2 if later else 1)] + [["close"]]
    return {"methods": methods}, script


def dop(op: list[Any]) -> list[Any]:
    from harness import c01

    if op[0] == "log":
        return ["log", c01.dlog(op[1])]
    if op[0] == "emit":
        b = op[1]
        return ["emit", {"id": b["id"], "rows": b.get("rows", 1), "meta": {}}]
    if op[0] == "raise":
        return ["raise", c01.dexc(op[1])]
    return ["finish"]


def opstep_case(ctx: Any, shapes: list[list[str]], excs: list[dict[str, Any]], cfg: Config) -> None:
    from harness import c01

    d, script = opstep_service(shapes, excs)
    by_name = {m["name"]: m for m in d["methods"]}
    r = opsvc.run_script(d, script, cfg, deadline=90)
    base = {"layer": "opstep", "shapes": shapes, "excs": [pack_exc(e) for e in excs], "transport": cfg.label()}
    fam = "http" if cfg.kind == "http" else "socket"
    if r["hung"] or len(r["trace"]) != len(script):
        ctx.case(base, tags=(f"t:{cfg.label()}",))
        ctx.fail(base, f"C07:hung:{cfg.kind}", f"op-step script did not complete on {cfg.label()} ({len(r['trace'])}/{len(script)} ops)")
        return
    calls = c01.split_calls(script, r["trace"])
    # model: what the server writes for each failing step
    models: dict[str, Any] = {}
    if ctx.driver is not None:
        names = [m["name"] for m in d["methods"]]
        res = ctx.driver.batch([("C07.opstep", {"producer": by_name[n]["kind"] == "producer", "ops": [dop(o) for o in by_name[n]["steps"][-1]["ops"]]}) for n in names])
        models = dict(zip(names, res))
    for name, evs in calls:
        m = by_name[name]
        shape = ">".join(m["shape"]) or "nothing"
        producer = m["kind"] == "producer"
        kind, what = step_outcome(m["steps"][-1]["ops"], producer)
        case = dict(base, method=name, shape=shape, kind=m["kind"], later=len(m["steps"]) == 2)
        ctx.case(case, nontrivial=True, tags=(f"t:{cfg.label()}", f"opstep:{m['kind']}:{kind}", f"shape:{shape}"))
        if any(e[0] == "raised" for e in evs):
            bad = next(e for e in evs if e[0] == "raised")
            ctx.fail(case, f"C07:non-rpc-exception:{bad[1]}:step:{shape}", f"{cfg.label()}: {name}: a non-RpcError exception reached the caller: {bad}")
            continue
        errs = [e for e in evs if e[0] == "error"]
        if kind == "error":
            # O: the failure of the step reaches the client as an RPC error (class name, text, kind)
            if not errs:
                ctx.fail(case, f"C07:error-not-delivered:{m['kind']}-step:{shape}:{fam}",
                         f"{cfg.label()}: {name}: the step {shape} failed with {what['type']} but the client saw {json.dumps(evs)[:300]}")
                continue
            _, typ, msg, knd = errs[0]
            if typ != what["type"] or what["text"] not in msg or knd != what["kind"]:
                ctx.fail(case, f"C07:step-error-not-faithful:{m['kind']}:{shape}", f"{cfg.label()}: {name}: got {typ!r} / {msg[:80]!r} / {knd!r}, raised {what}")
        elif errs:
            ctx.fail(case, f"C07:spurious-error:{m['kind']}-step:{shape}", f"{cfg.label()}: {name}: step {shape} succeeded but the client saw {errs[0][:3]}")
        # K: the events of the whole session against the model's item list for the last step (earlier step: one plain batch)
        if name in models:
            mod = models[name]
            pre = [["data", 1, 1, []]] if len(m["steps"]) == 2 else []
            items = [c01.model_ev(e) for e in mod["items"]]
            if mod["failed"] != (kind == "error"):
                ctx.mismatch(case, {"failed": mod["failed"]}, {"outcome": kind}, "op-level step: Lean runOps vs the documented collector rules")
            if kind == "error":
                exp = pre + items
            elif kind == "finish" or producer:
                exp = pre + items + [["end"]]
            else:
                exp = pre + items
            got = c01.upto_first_error(evs)
            if cfg.kind != "http":
                if got != exp:
                    ctx.mismatch(case, exp, got, "socket family: events of a session whose last step is an op list vs Lean C07.stepWrites")
            elif c01.obs_of(got) != c01.obs_of(exp):
                ctx.mismatch(case, c01.obs_of(exp), c01.obs_of(got), "http: observation of a session whose last step is an op list vs Lean C07.stepWrites")


def opstep_configs() -> list[Config]:
    return [Config("pipe"), Config("unix"), Config("tcp"), Config("shm"), Config("http", None, None), Config("http", 1_000_000, "zstd")]


def configs() -> list[Config]:
    # caps: none / far above every payload / 64 KiB (below a 100 kB exception text) / 1500 B (below EVERY error payload: an
    # EXCEPTION batch with its traceback is > 1.5 kB, the small successful responses of the site service are < 1.2 kB)
    return [Config("pipe"), Config("unix"), Config("tcp"), Config("shm"), Config("http", None, None), Config("http", 1_000_000, "zstd"),
            Config("http", None, "gzip"), Config("http", 65_536, None), Config("http", 1_500, None)]


# ------------------------------------------------------------------------------------------ run


def corpus_excs() -> list[list[dict[str, Any]]]:
    X = lambda c, a: {"cls": c, "arg": a}  # noqa: E731
    return [
        [X("Store.NotFound", "nested"), X("LocalError", "local"), X("Store.Inner.Deep", "deep"), X("DynamicError", "dyn"), X("Store.NotFound", ""),
         X("LocalError", "ü"), X("Store.Inner.Deep", "d2"), X("DynamicError", "x")],
        [X("ValueError", "boom"), X("KindedError", ""), X("MethodNotImplementedError", "no such method"), X("SessionLostError", "gone\nline2"),
         X("ServerDrainingError", "ü drain"), X("ProtocolVersionError", "nul\x00x"), X("OddKindError", "odd"), X("CustomError", "x" * 100_000)],
        [X("KeyError", "k"), X("BytesKindError", "b"), X("NoneKindError", ""), X("InstanceKindError", "inst"), X("SubKinded", "sub"),
         X("UnicodeNameÉrror", "ünï"), X("EmptyKindError", "e"), X("ZeroDivisionError", "division by zero")],
    ]


def control_flow_rounds() -> list[list[dict[str, Any]]]:
    """every control-flow class at every one of the 8 sites: rotation r puts class (site + r) mod n at each site"""
    names = [c for c in CONTROL_FLOW_CLASSES if c in _exc_classes()]
    return [[{"cls": names[(i + r) % len(names)], "arg": f"impl-raised {names[(i + r) % len(names)]}"} for i in range(8)] for r in range(len(names))]


def control_flow_configs() -> list[Config]:
    return [Config("pipe"), Config("unix"), Config("tcp"), Config("shm"), Config("http", None, None), Config("http", 1_000_000, "zstd")]


def long_excs() -> list[dict[str, Any]]:
    """every site raises with a text longer than the 64 KiB cap (and one far longer)"""
    names = ["ValueError", "KindedError", "SessionLostError", "CustomError", "OddKindError", "MethodNotImplementedError", "KeyError", "RuntimeError"]
    return [{"cls": c, "arg": ("long-%d " % i) + "y" * (70_000 if i else 200_000)} for i, c in enumerate(names)]


def stretch(rng: Any, excs: list[dict[str, Any]]) -> list[dict[str, Any]]:
    """the size dimension: pad texts to just below / above the configured caps"""
    return [{"cls": e["cls"], "arg": e["arg"] + "z" * rng.choice([0, 0, 900, 2_000, 40_000, 70_000])} for e in excs]


def run(ctx: Any) -> None:
    install()
    install_recorder()
    rng = ctx.rng
    # 1. codec: every class x fixed messages first, then random
    n_codec = ctx.budget(1200, 30000)
    done = 0
    for cls in class_names():
        for arg in MESSAGES:
            codec_case(ctx, {"cls": cls, "arg": arg}, rng.choice(["none", "cause", "context"]), rng.choice([None, "srv-1", "ü"]), rng.choice(["", "rid-7"]))
            done += 1
    while done < n_codec:
        codec_case(ctx, gen_exc(rng), rng.choice(["none", "none", "cause", "context"]), rng.choice([None, "srv-1", "", "sérv"]), rng.choice(["", "", "rid", "р"]))
        done += 1
    flush_codec(ctx)
    # 2. peer error batches
    pcs = peer_error_cases(rng, ctx.budget(600, 20000))
    mods = model_dispatch_many(ctx, [(0, md) for md, _ in pcs]) if ctx.driver is not None else [None] * len(pcs)
    for (md, tag), mod in zip(pcs, mods):
        peer_error_case(ctx, md, tag, mod)
    # 3. sites x transports
    for excs in corpus_excs() + [long_excs()]:
        for cfg in configs():
            site_case(ctx, excs, cfg)
    for r, excs in enumerate(control_flow_rounds()):
        # every (class, site) pair on pipe / tcp / http; every third rotation also on unix / shm / http+zstd
        for k, cfg in enumerate(control_flow_configs()):
            if cfg.label() in ("pipe", "tcp", "http(cap=None,codec=None)") or r % 3 == k % 3:
                site_case(ctx, excs, cfg)
    for i in range(ctx.budget(4, 220)):
        excs = [gen_exc(rng) for _ in range(8)]
        if i % 2:
            excs = stretch(rng, excs)
        for cfg in configs():
            site_case(ctx, excs, cfg)
    # 4. every order of emit / log / finish / raise inside one step
    cf = [{"cls": c, "arg": f"step-raised {c}"} for c in CONTROL_FLOW_CLASSES if c in _exc_classes()]
    for cfg in opstep_configs():
        for i in range(0, len(STEP_SHAPES), 6):
            opstep_case(ctx, STEP_SHAPES[i:i + 6], corpus_excs()[0], cfg)
        # the raising shapes again, with the control-flow classes
        opstep_case(ctx, STEP_SHAPES[:6], cf[:6], cfg)
        opstep_case(ctx, STEP_SHAPES[:6], cf[6:] + cf[:max(0, 6 - len(cf[6:]))], cfg)
    for _ in range(ctx.budget(3, 120)):
        shapes = [gen_shape(rng) for _ in range(6)]
        excs = [gen_exc(rng) for _ in range(6)]
        for cfg in opstep_configs():
            opstep_case(ctx, shapes, excs, cfg)
    ctx.note("exception_classes", class_names())


def replay(ctx: Any, case: dict[str, Any]) -> None:
    install()
    install_recorder()
    layer = case.get("layer")
    if layer == "codec" and "arg" in case.get("exc", {}):
        codec_case(ctx, case["exc"], case["chain"], case["sid"], case["rid"])
        flush_codec(ctx)
    elif layer == "peer":
        md = {k.encode(): bytes.fromhex(v) for k, v in case["md"].items() if not v.endswith("…")}
        peer_error_case(ctx, md, "replay")
    elif layer == "opstep":
        excs = [unpack_exc(e) for e in case["excs"]]
        for cfg in opstep_configs():
            if cfg.label() == case.get("transport"):
                opstep_case(ctx, case["shapes"], excs, cfg)
    elif layer == "sites":
        excs = [unpack_exc(e) for e in case["excs"] if "arg_len" not in e] or corpus_excs()[0]
        while len(excs) < 8:
            excs.append(excs[-1])
        for cfg in configs():
            if cfg.label() == case.get("transport"):
                site_case(ctx, excs, cfg)
