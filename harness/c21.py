"""C21 — 401 responses follow the unauthorized specification.

K (correspondence): generated authenticator compositions (leaf / chain / require_all, scripted callbacks and the real
    bearer / mTLS / proxy-proof built-ins) x per-request behaviours x Accept values, through the real
    `make_wsgi_app` + `_AuthMiddleware` + error serializer with falcon.testing, against the Lean model's `respond`
    (status, headers, body fields, note, consulted callbacks); `_combine_reasons`, `classify_auth_failure`,
    `build_proxy_hint`, the `dict.fromkeys` de-duplication, `str.strip`, the exception hierarchy; arbitrary 401
    bodies through `_parse_unauthorized` against the model's `parseUnauthorized` (json.loads / bytes.decode are the
    model's environment and are evaluated by CPython).
O (direct oracle, from the property text only): every rejection is a 401 with a closed-set reason in the header and
    in the JSON envelope (unless HTML was asked for), `Cache-Control: no-store`, a proxy note identical on every 401 of
    one app and present iff the configuration names proxy-injected headers; `missing_credential` only when every
    consulted alternative reported it (and the section 3.1 rule on compositions whose leaves all raise AuthFailure);
    an outage is a 503 with Retry-After; `_parse_unauthorized` never raises and yields a closed-set reason.
"""

import html as _html
import itertools
import json
import logging
import re
from typing import Any, Protocol

from harness.common.lean import s2j

PROPERTY = "C21"
LEAN_MODULES = ["VgiVerif.Proofs.C21"]
OBLIGATIONS = [
    "VgiVerif.C21.C21_shapes",
    "VgiVerif.C21.C21_closed_set",
    "VgiVerif.C21.C21_status",
    "VgiVerif.C21.C21_classify",
    "VgiVerif.C21.C21_rejection_is_401",
    "VgiVerif.C21.C21_reason_closed",
    "VgiVerif.C21.C21_nostore",
    "VgiVerif.C21.C21_negotiation",
    "VgiVerif.C21.C21_hint_static",
    "VgiVerif.C21.C21_hint_iff",
    "VgiVerif.C21.C21_hint_names",
    "VgiVerif.C21.C21_declarations",
    "VgiVerif.C21.C21_missing",
    "VgiVerif.C21.C21_missing_only_if",
    "VgiVerif.C21.C21_missing_deep",
    "VgiVerif.C21.C21_missing_if",
    "VgiVerif.C21.C21_gate_first",
    "VgiVerif.C21.C21_outage",
    "VgiVerif.C21.C21_client",
    "VgiVerif.C21.C21_client_total_iff",
]
TRUSTED = [
    "CPython json.loads / bytes.decode(errors='replace') / str() of a JSON value are the model's environment "
    "(ClientEnv): evaluated by the interpreter, the theorem quantifies over every behaviour of them within "
    "{value, JSONDecodeError, UnicodeDecodeError, ValueError, RecursionError}",
    "CPython exception hierarchy as written in Model.C21.supers (compared with __mro__ on every run); str.strip "
    "whitespace table regenerated from the interpreter; str.lower on the two HTML sniff prefixes (checked over all "
    "code points on every run)",
    "Falcon: middleware order, HTTPUnauthorized / HTTPServiceUnavailable rendering, error-serializer dispatch, generic "
    "500 for an unhandled exception; falcon.testing",
    "exceptions are modelled by class family (AuthFailure / other ValueError / PermissionError / AuthUnavailableError / "
    "anything else) with a well-typed `reason`; an exception class inheriting from both ValueError and PermissionError, "
    "or an AuthFailure whose attributes were mutated after construction, is outside the model",
]
RULE = (
    "exhaustive: chains of 1..3 (thorough 1..4) scripted leaves x 10 outcome kinds, require_all x gate outcome x inner "
    "outcome; the duck-typed vgi_auth_reason attribute in every type/shape (member, str in / outside the set, other case, "
    "empty, str subclass, int, None, bytes, list, object) x ValueError / PermissionError x 5 positions (bare callback, "
    "validate= under the real bearer extractor, behind a gate, the gate, inside a chain); random: composition trees of depth <= 4 (thorough <= 7), width <= 4, scripted and built-in (bearer, XFCC, "
    "PEM mTLS, proxy-proof require/allow) leaves and gates, declarations by declare_proxy_headers / attribute / gate "
    "argument, operator-declared headers, proxy_proof_required; per app many requests (behaviour of every callback, "
    "Accept value, credential headers). Bodies: hand-written corpus + generated JSON of every shape (envelopes with "
    "every field type, nesting 1..200000 open/closed, inside fields), UTF-16/32, invalid UTF-8, HTML, empty, huge. "
    "Whole client on a 401 response through http_connect: VGI-Auth-Reason header value (absent, each code, foreign code, "
    "other case, padded, empty, non-ASCII, list, very long) x body kind (envelope with / without / unknown / null reason, "
    "framework JSON, non-object JSON, HTML, text, empty, invalid UTF-8, deep) x header-key spelling x call path (unary, "
    "stream init, stream with header, exchange), then generated bodies x generated header values. "
    "A case is distinct by (tree, configuration, behaviours, Accept) resp. body bytes; non-trivial when a callback is "
    "consulted resp. always for bodies"
)
PARTIAL = [
    "the HTML page is compared through its reason chip / detail / note blocks only (presentation, not contract)",
    "the PKCE branch of make_wsgi_app (which chains a cookie authenticator behind the configured one) is not composed "
    "into the generated services",
]
MANIFEST = {
    "level": "proof",
    "text": "Kernel-checked theorems over an executable model of classification, chain / require_all composition "
            "(inductive tree, unbounded depth and width), declaration propagation, the note, the middleware's handler "
            "table, the serializer and the client parser, all stated over constants and shapes regenerated from the "
            "source; the model is tied to the code by differential runs through the real middleware and parser.",
    "note": "json.loads, bytes.decode and Falcon are environment; the client theorem holds for every behaviour of "
            "json.loads within its documented exception set.",
    "technique": "Lean 4 proof: structural induction over the composition tree + case analysis on extracted tables; "
                 "correspondence by falcon.testing runs and parser differential",
}

CLOSED = ["missing_credential", "invalid_credential", "expired_credential", "insufficient_scope", "proxy_required",
          "unauthorized"]  # unauthorized-spec section 3


def j2s(a: Any) -> Any:
    if a is None:
        return None
    return "".join(chr(c) for c in a)


def desurrogate(s: str) -> str:
    return "".join("\ufffd" if 0xD800 <= ord(c) <= 0xDFFF else c for c in s)


# ------------------------------------------------------------------------------------------ service under test


class _P(Protocol):
    def add(self, a: int, b: int) -> int: ...


class _Impl:
    def add(self, a: int, b: int) -> int:
        return a + b


class State:
    """Per-request script and observations shared by every generated callback of one app."""

    def __init__(self) -> None:
        self.rho: dict[tuple[str, int], dict] = {}
        self.log: list[tuple[str, int]] = []
        self.obs: dict[tuple[str, int], BaseException | None] = {}
        self.top: Any = "unset"

    def reset(self, rho: dict[tuple[str, int], dict]) -> None:
        self.rho, self.log, self.obs, self.top = rho, [], {}, "unset"


_SECRET = bytes(range(32))
_ORIGIN = "worker-1"


def _lib() -> Any:
    import vgi_rpc.http as H
    from vgi_rpc.http import _bearer, _proof, _unauthorized
    from vgi_rpc.rpc import AuthContext

    class L:
        pass

    L.H, L.bearer, L.proof, L.un, L.AuthContext = H, _bearer, _proof, _unauthorized, AuthContext
    L.CTX = AuthContext(domain="t", authenticated=True, principal="alice", claims={})

    class MyVE(ValueError):
        pass

    class MyPE(PermissionError):
        pass

    class MyAF(_unauthorized.AuthFailure):
        pass

    L.MyVE, L.MyPE, L.MyAF = MyVE, MyPE, MyAF
    return L


def build_exc(L: Any, o: dict) -> BaseException:
    """The Python exception a scripted callback raises for outcome spec `o`."""
    AR = L.un.AuthReason
    k = o["k"]

    def with_decl(e: BaseException) -> BaseException:
        d = o.get("decl")
        if d is not None:
            e.vgi_auth_reason = decl_value(L, d)  # type: ignore[attr-defined]
        return e

    if k == "af":
        cls = L.MyAF if o.get("sub") else L.un.AuthFailure
        return cls(AR(o["r"]), o.get("d", ""))
    if k == "ve":
        c = o.get("cls", "ValueError")
        if c == "UnicodeDecodeError":
            return with_decl(UnicodeDecodeError("utf-8", b"\xff", 0, 1, o.get("s") or "bad"))
        if c == "JSONDecodeError":
            return with_decl(json.JSONDecodeError(o.get("s") or "bad", "doc", 0))
        cls = L.MyVE if c == "MyVE" else ValueError
        return with_decl(cls(o["s"]) if o.get("s") is not None else cls())
    if k == "pe":
        c = o.get("cls", "PermissionError")
        if c == "ProofError":
            return L.proof.ProofError(o.get("s") or "bad_mac", "proxy proof required")
        cls = L.MyPE if c == "MyPE" else PermissionError
        return with_decl(cls(o["s"]) if o.get("s") is not None else cls())
    if k == "un":
        return L.un.AuthUnavailableError(o.get("d", ""), retry_after=o.get("n", 5))
    if k == "other":
        return {"RuntimeError": RuntimeError, "KeyError": KeyError, "TypeError": TypeError, "OSError": OSError,
                "LookupError": LookupError, "FileNotFoundError": FileNotFoundError, "AssertionError": AssertionError,
                "StopIteration": StopIteration}[o.get("cls", "RuntimeError")]("boom")
    raise AssertionError(o)


# The duck-typed `vgi_auth_reason` attribute of an exception raised by an authenticator the package does not control, in
# every type and shape: an AuthReason member (written as its value), a plain str inside the closed set ("str:<value>"),
# a str outside it (a newer / foreign vocabulary, another case, whitespace, empty), and non-strings.
DECLS: list[str | None] = (
    [None] + ["missing_credential", "invalid_credential", "expired_credential", "insufficient_scope", "proxy_required",
              "unauthorized"]
    + ["str:" + v for v in ("expired_credential", "missing_credential", "proxy_required", "unauthorized")]
    + ["str:token_revoked", "str:tenant_suspended", "str:EXPIRED_CREDENTIAL", "str:Missing_Credential", "str:",
       "str: expired_credential", "str:expired_credential\n", "str:AuthReason.EXPIRED_CREDENTIAL", "str:expired-credential",
       "str:\u00e9xpired", "str:403"]
    + ["int:42", "int:0", "none:", "obj:", "bytes:expired_credential", "list:expired_credential", "bool:", "float:", "strsub:token_revoked",
       "strsub:expired_credential"]
)


def decl_value(L: Any, d: str) -> Any:
    AR = L.un.AuthReason
    kind, _, rest = d.partition(":")
    if _ == "":
        return AR(d)  # a member
    if kind == "str":
        return rest
    if kind == "strsub":  # a str subclass that is not an AuthReason

        class Code(str):
            pass

        return Code(rest)
    if kind == "int":
        return int(rest)
    if kind == "none":
        return None
    if kind == "bytes":
        return rest.encode()
    if kind == "list":
        return [AR(rest)]
    if kind == "bool":
        return True
    if kind == "float":
        return 1.5
    return object()


def exc_to_model(L: Any, e: BaseException | None) -> dict:
    """What actually happened, in the model's vocabulary (class family + the attributes the code reads)."""
    if e is None:
        return {"k": "ok"}
    AR = L.un.AuthReason
    a = getattr(e, "vgi_auth_reason", None)
    # null = no attribute / None, {"m": value} = an AuthReason member, {"s": text} = any other str, {"o": 1} = anything else
    decl = (None if a is None else {"m": s2j(a.value)} if isinstance(a, AR) else {"s": s2j(desurrogate(str.__str__(a)))}
            if isinstance(a, str) else {"o": 1})
    if isinstance(e, L.un.AuthFailure):
        text = str(e)
        return {"k": "af", "r": s2j(e.reason.value), "d": s2j("" if text == e.reason.value else text)}
    if isinstance(e, L.un.AuthUnavailableError):
        return {"k": "un", "n": int(e.retry_after), "d": s2j(e.detail)}
    if isinstance(e, ValueError):
        return {"k": "ve", "decl": decl, "s": s2j(str(e)), "t": s2j(type(e).__name__)}
    if isinstance(e, PermissionError):
        return {"k": "pe", "decl": decl, "s": s2j(str(e))}
    return {"k": "other", "t": s2j(type(e).__name__)}


def _declare(L: Any, fn: Any, h: list[str], style: str) -> Any:
    if not h and style != "attr-empty":
        return fn
    if style == "declare":
        return L.un.declare_proxy_headers(fn, *h)
    if style == "attr-list":
        fn.vgi_proxy_headers = list(h)
    else:
        fn.vgi_proxy_headers = tuple(h)
    return fn


def build_auth(L: Any, t: dict, st: State) -> Any:
    """Real composed callable for tree spec `t` (ids are assigned in the spec)."""
    k = t["k"]
    if k == "leaf":
        i, impl = t["id"], t.get("impl", "script")
        real = None
        if impl == "bearer":
            real = L.H.bearer_authenticate_static(tokens={"good": L.CTX})
        elif impl == "bearerv":  # the real bearer extractor around a third-party `validate` whose behaviour is scripted

            def validate(token: str) -> Any:
                o = st.rho.get(("leaf", i))
                if o is not None and o["k"] != "ok":
                    raise build_exc(L, o)
                return L.CTX

            real = L.H.bearer_authenticate(validate=validate)
        elif impl == "xfcc":
            real = L.H.mtls_authenticate_xfcc()
        elif impl == "mtls":
            real = L.H.mtls_authenticate(validate=lambda cert: L.CTX, header=t.get("header", "X-SSL-Client-Cert"))
        if real is not None and t.get("direct"):
            return real  # the built-in itself: not observable, its behaviour is recomputed from the request headers

        def leaf(req: Any) -> Any:
            st.log.append(("leaf", i))
            try:
                if real is not None:
                    r = real(req)
                else:
                    o = st.rho.get(("leaf", i))
                    if o is not None and o["k"] != "ok":
                        raise build_exc(L, o)
                    r = L.CTX
            except BaseException as e:
                st.obs[("leaf", i)] = e
                raise
            st.obs[("leaf", i)] = None
            return r

        if real is not None:
            return L.un.declare_proxy_headers(leaf, *L.un.proxy_headers_of(real))
        return _declare(L, leaf, t.get("h", []), t.get("decl", "declare"))
    if k == "chain":
        return L.H.chain_authenticate(*[build_auth(L, m, st) for m in t["m"]])
    gate = build_gate(L, t, st)
    if k == "gate":
        return L.H.require_all(gate)
    return L.H.require_all(gate, build_auth(L, t["inner"], st))


def build_gate(L: Any, t: dict, st: State) -> Any:
    i, impl = t["id"], t.get("gimpl", "script")
    real = None
    if impl in ("proof-require", "proof-allow"):
        cfg = L.H.ProxyProofConfig(mode=impl.split("-")[1], origin_id=_ORIGIN, secrets={"k1": (_SECRET, "edge")})
        real = L.H.proxy_proof_gate(cfg)
        if t.get("direct"):
            return real

    def gate(req: Any) -> Any:
        st.log.append(("gate", i))
        try:
            if real is not None:
                r = real(req)
            else:
                o = st.rho.get(("gate", i))
                if o is not None and o["k"] != "ok":
                    raise build_exc(L, o)
                # a gate may pass a request it did not verify (allow mode): require_all(gate) then answers with an
                # anonymous context instead of an authenticated one — either way the request is not rejected
                r = ({"proxy": "", "verified": "false", "reason": "no_proof"} if o is not None and o.get("unverified")
                     else {"proxy": "edge", "verified": "true"})
        except BaseException as e:
            st.obs[("gate", i)] = e
            raise
        st.obs[("gate", i)] = None
        return r

    if real is not None:
        return L.bearer.PreconditionGate(gate, name=real.name, claims_key=real.claims_key,
                                         proxy_headers=L.un.proxy_headers_of(real))
    return L.bearer.PreconditionGate(gate, name=f"g{i}", claims_key=f"g{i}", proxy_headers=t.get("h", []))


def raw_decl(fn: Any) -> list[str]:
    v = getattr(fn, "vgi_proxy_headers", ())
    return [str(x) for x in v] if isinstance(v, (tuple, list)) else []


def model_tree(L: Any, t: dict) -> dict:
    """The tree as the model sees it: structure + the `vgi_proxy_headers` value of every leaf and gate."""
    k = t["k"]
    if k == "leaf":
        impl = t.get("impl", "script")
        if impl in ("bearer", "bearerv"):
            h: list[str] = []
        elif impl == "xfcc":
            h = raw_decl(L.H.mtls_authenticate_xfcc())
        elif impl == "mtls":
            h = raw_decl(L.H.mtls_authenticate(validate=lambda c: L.CTX, header=t.get("header", "X-SSL-Client-Cert")))
        else:
            h = list(t.get("h", []))
            if t.get("decl", "declare") == "declare":
                h = list(dict.fromkeys(h))  # declare_proxy_headers stores the de-duplicated tuple (K-checked by `dedup`)
        return {"k": "leaf", "id": t["id"], "h": [s2j(x) for x in h]}
    if k == "chain":
        return {"k": "chain", "m": [model_tree(L, m) for m in t["m"]]}
    impl = t.get("gimpl", "script")
    if impl == "proof-require":
        gh = ["VGI-Proxy-Proof"]
    elif impl == "proof-allow":
        gh = []
    else:
        gh = list(t.get("h", []))
    out = {"k": k, "id": t["id"], "h": [s2j(x) for x in gh]}
    if k == "req":
        out["inner"] = model_tree(L, t["inner"])
    return out


def nodes(t: dict) -> list[dict]:
    if t["k"] == "leaf":
        return [t]
    if t["k"] == "chain":
        return [x for m in t["m"] for x in nodes(m)]
    return [t] + (nodes(t["inner"]) if t["k"] == "req" else [])


def depth(t: dict) -> int:
    if t["k"] == "leaf" or t["k"] == "gate":
        return 1
    if t["k"] == "chain":
        return 1 + max(depth(m) for m in t["m"])
    return 1 + depth(t["inner"])


def declares_any(L: Any, t: dict) -> bool:
    """Ground truth for 'the configuration depends on proxy-injected headers' inside the composition."""
    mt = model_tree(L, t)

    def walk(x: dict) -> bool:
        if x["k"] == "chain":
            return any(walk(m) for m in x["m"])
        return bool(x["h"]) or (x["k"] == "req" and walk(x["inner"]))

    return walk(mt)


class App:
    def __init__(self, L: Any, tree: dict | None, declared: list[str] | None, proof: bool, wrap_top: bool = True) -> None:
        import falcon.testing
        from vgi_rpc.rpc import RpcServer

        self.L, self.tree, self.declared, self.proof, self.wrap_top = L, tree, declared, proof, wrap_top
        self.st = State()
        self.pending: list = []
        self.auth = build_auth(L, tree, self.st) if tree is not None else None
        top = self.auth  # wrap_top=False: the composed callable itself is what make_wsgi_app sees
        if self.auth is not None and wrap_top:
            inner = self.auth
            st = self.st

            def top(req: Any) -> Any:  # records what the composed callable did; transparent otherwise
                try:
                    r = inner(req)
                except BaseException as e:
                    st.top = e
                    raise
                st.top = None
                return r

            # the observer must not hide the composition's declaration from make_wsgi_app
            L.un.declare_proxy_headers(top, *L.un.proxy_headers_of(inner))
        server = RpcServer(_P, _Impl())
        self.client = falcon.testing.TestClient(
            L.H.make_wsgi_app(server, authenticate=top, token_key=b"k" * 32, proxy_auth_headers=declared,
                              proxy_proof_required=proof))
        self.mtree = model_tree(L, tree) if tree is not None else None
        self.depends = bool(declared) or proof or (tree is not None and declares_any(L, tree))


def request_headers(L: Any, req: dict) -> dict[str, str]:
    h: dict[str, str] = {}
    if req.get("accept") is not None:
        h["Accept"] = req["accept"]
    for k, v in (req.get("headers") or {}).items():
        if k == "VGI-Proxy-Proof" and v == "<valid>":
            v = L.H.mint_proof(_SECRET, "k1", _ORIGIN)
        h[k] = v
    return h


class _Sink:
    """wsgi.errors stream: Falcon writes the traceback of every generic 500 there."""

    def write(self, s: str) -> int:
        return len(s)

    def writelines(self, ls: Any) -> None:
        pass

    def flush(self) -> None:
        pass


_DEVNULL = _Sink()

_RE_REASON = re.compile(r'<div class="reason">(.*?)</div>', re.S)
_RE_DETAIL = re.compile(r'<div class="detail">(.*?)</div>', re.S)
_RE_NOTE = re.compile(r'<div class="note"><strong>Is the reverse proxy configured\?</strong>(.*?)</div>', re.S)


def observe(r: Any) -> dict:
    """Canonical view of a real response."""
    hd = {k.lower(): v for k, v in r.headers.items()}
    # an authenticated request goes on to dispatch (415 here: the body is not an Arrow stream) — "pass"
    o: dict[str, Any] = {"status": r.status_code if r.status_code in (401, 503, 500) else "pass"}
    if r.status_code == 401:
        o["reason_header"] = hd.get("vgi-auth-reason")
        o["proxy_header"] = hd.get("vgi-auth-proxy-required")
        o["cache"] = hd.get("cache-control")
        o["ctype"] = hd.get("content-type")
        body: dict[str, Any]
        try:
            j = json.loads(r.content)
        except ValueError:
            j = None
        if isinstance(j, dict):
            body = {"k": "json", "error": j.get("error"), "reason": j.get("reason"), "detail": j.get("detail"),
                    "hint": j.get("proxy_hint"), "keys": sorted(j)}
        else:
            text = r.content.decode("utf-8", "replace")
            m1, m2, m3 = _RE_REASON.search(text), _RE_DETAIL.search(text), _RE_NOTE.search(text)
            body = {"k": "html" if text.lstrip().lower().startswith("<!doctype html") else "other",
                    "reason": _html.unescape(m1.group(1)) if m1 else None,
                    "detail": _html.unescape(m2.group(1)) if m2 else "",
                    "hint": _html.unescape(m3.group(1)) if m3 else None}
        o["body"] = body
    elif r.status_code == 503:
        o["retry"] = hd.get("retry-after")
        try:
            o["desc"] = json.loads(r.content).get("description")
        except ValueError:
            o["desc"] = None
    return o


def model_view(m: dict) -> dict:
    """The model's response in the same canonical form."""
    r = m["resp"]
    st = r["status"]
    o: dict[str, Any] = {"status": "pass" if st == 200 else st}
    if st == 401:
        hd = {j2s(k).lower(): j2s(v) for k, v in r["headers"]}
        o["reason_header"] = hd.get("vgi-auth-reason")
        o["proxy_header"] = hd.get("vgi-auth-proxy-required")
        o["cache"] = hd.get("cache-control")
        o["ctype"] = j2s(r["ctype"])
        b = r["body"]
        if b["k"] == "json":
            keys = ["detail", "error", "reason"] + (["proxy_hint"] if b["hint"] is not None else [])
            o["body"] = {"k": "json", "error": j2s(b["error"]), "reason": j2s(b["reason"]), "detail": j2s(b["detail"]),
                         "hint": j2s(b["hint"]), "keys": sorted(keys)}
        else:
            o["body"] = {"k": "html", "reason": j2s(b["reason"]), "detail": j2s(b["detail"]), "hint": j2s(b["hint"])}
    elif st == 503:
        o["retry"] = str(r["retry"])
        o["desc"] = j2s(r["desc"])
    return o


# ------------------------------------------------------------------------------------------ spec-side helpers (O)


def spec_chain(codes: list[str]) -> str:
    """unauthorized-spec section 3.1."""
    if all(c == "missing_credential" for c in codes):
        return "missing_credential"
    return next(c for c in codes if c != "missing_credential")


def spec_code(L: Any, t: dict, obs: dict) -> str | None:
    """Reason section 3.1 prescribes for a composition all of whose consulted callbacks failed with an AuthFailure and
    whose gates passed; None when the request is outside that subspace."""
    k = t["k"]
    if k == "leaf":
        e = obs.get(("leaf", t["id"]), "unconsulted")
        if isinstance(e, L.un.AuthFailure):
            return e.reason.value
        return None
    if k == "chain":
        cs = [spec_code(L, m, obs) for m in t["m"]]
        if any(c is None for c in cs):
            return None
        return spec_chain(cs)  # type: ignore[arg-type]
    if k == "gate":
        return None
    if obs.get(("gate", t["id"]), "unconsulted") is not None:
        return None
    return spec_code(L, t["inner"], obs)


def has_direct(t: dict) -> bool:
    return any(n.get("direct") for n in nodes(t))


# ------------------------------------------------------------------------------------------ one request


def flush_requests(ctx: Any, app: App) -> None:
    """K for the queued requests of one app: one driver batch, then the comparisons."""
    L = app.L
    pend, app.pending = app.pending, []
    if ctx.driver is None or not pend:
        return
    res = ctx.driver.batch([("C21.respond", a) for _, a, _, _ in pend])
    impl_ph = list(L.un.proxy_headers_of(app.auth)) if app.auth is not None else []
    direct_ids = ({("leaf" if n["k"] == "leaf" else "gate", n["id"]) for n in nodes(app.tree) if n.get("direct")}
                  if app.tree is not None else set())
    for (case, _args, ob, log), m in zip(pend, res):
        mv = model_view(m)
        if mv != ob:
            ctx.mismatch(case, mv, ob, "respond: model vs implementation")
            continue
        if app.tree is not None:
            mc = [(a, b) for a, b in m["consulted"] if (a, b) not in direct_ids]
            if mc != log:
                ctx.mismatch(case, mc, log, "consulted callbacks: model vs implementation")
            if not m["wf"]:
                ctx.mismatch(case, m["wf"], True, "model says the composition cannot be constructed")
            if [j2s(x) for x in m["proxy_headers"]] != impl_ph:
                ctx.mismatch(case, [j2s(x) for x in m["proxy_headers"]], impl_ph, "proxy_headers_of(composition)")


def run_request(ctx: Any, app: App, req: dict, seen_notes: set, tags: tuple[str, ...] = ()) -> None:
    L = app.L
    rho = {(a, b): c for a, b, c in req.get("rho", [])}
    app.st.reset(rho)
    r = app.client.simulate_post("/add", body=b"", headers=request_headers(L, req), wsgierrors=_DEVNULL)
    ob = observe(r)
    st = app.st
    case = {"kind": "compose", "tree": app.tree, "declared": app.declared, "proof": app.proof, "req": req,
            "wrap_top": app.wrap_top}
    top = st.top
    known_top = not isinstance(top, str)  # the composed callable's own behaviour was observed
    fam = ("none" if app.tree is None else "ok" if top is None else "unobserved" if not known_top else
           exc_to_model(L, top)["k"])
    ctx.case(case, nontrivial=bool(st.log) or app.tree is None or has_direct(app.tree),
             tags=tags + (f"status:{ob['status']}", f"top:{fam}", f"accept:{req.get('accept')!r}"[:40],
                          f"depth:{depth(app.tree) if app.tree else 0}"))

    # ---- O: the property on the real response ---------------------------------------------------
    rejection = isinstance(top, (ValueError, PermissionError)) and not isinstance(top, L.un.AuthUnavailableError)
    if rejection and ob["status"] != 401:
        ctx.fail(case, f"C21:rejection-not-401:{ob['status']}", f"callback raised {type(top).__name__}, status {ob['status']}")
    if isinstance(top, L.un.AuthUnavailableError):
        if ob["status"] != 503 or ob.get("retry") != str(top.retry_after):
            ctx.fail(case, f"C21:outage-not-503:{ob['status']}",
                     f"AuthUnavailableError(retry_after={top.retry_after}) -> status {ob['status']}, Retry-After {ob.get('retry')!r}")
    # an outage of any callback that was consulted is a 503 — never swallowed into a 401 by a composition
    for src in st.log:
        e = st.obs.get(src)
        if isinstance(e, L.un.AuthUnavailableError) and (ob["status"] != 503 or ob.get("retry") != str(e.retry_after)):
            ctx.fail(case, f"C21:outage-swallowed:{ob['status']}",
                     f"{src} raised AuthUnavailableError(retry_after={e.retry_after}); status {ob['status']}, Retry-After {ob.get('retry')!r}")
            break
    if ob["status"] == 401:
        ctx.tag(f"reason:{ob['reason_header']}", f"resp:{ob['body']['k']}")
        if known_top and not rejection:
            ctx.fail(case, "C21:401-without-rejection", f"401 although the callback did: {top!r}")
        if ob["reason_header"] not in CLOSED:
            ctx.fail(case, "C21:reason-not-in-closed-set", f"VGI-Auth-Reason = {ob['reason_header']!r}")
        asked_html = "text/html" in (req.get("accept") or "")
        b = ob["body"]
        if not asked_html:
            if b["k"] != "json" or (ob["ctype"] or "") != "application/json":
                ctx.fail(case, "C21:non-html-request-not-json", f"Accept {req.get('accept')!r} -> {b['k']} / {ob['ctype']!r}")
        if b["k"] == "json":
            if b["error"] != "unauthorized" or b["reason"] != ob["reason_header"] or not isinstance(b["detail"], str):
                ctx.fail(case, "C21:envelope-disagrees-with-header",
                         f"envelope error={b['error']!r} reason={b['reason']!r} header={ob['reason_header']!r}")
        if ob["cache"] != "no-store":
            ctx.fail(case, "C21:cache-control", f"Cache-Control = {ob['cache']!r}")
        note_present = ob["proxy_header"] is not None
        if ob["proxy_header"] not in (None, "true"):
            ctx.fail(case, "C21:proxy-required-value", f"VGI-Auth-Proxy-Required = {ob['proxy_header']!r}")
        if note_present != app.depends:
            ctx.fail(case, "C21:note-presence:" + ("missing" if app.depends else "spurious"),
                     f"configuration depends on proxy headers: {app.depends}; header present: {note_present}")
        if (b["hint"] is not None) != note_present or b["hint"] == "":
            ctx.fail(case, "C21:note-body-vs-header", f"note in body: {b['hint']!r:.60}; header: {ob['proxy_header']!r}")
        seen_notes.add((ob["proxy_header"], b["hint"]))
        if len(seen_notes) > 1:
            ctx.fail(case, "C21:note-not-static", f"{len(seen_notes)} different notes on the 401s of one app")
        # section 3.1, only-when direction: missing_credential => every consulted callback reported it (gates may pass)
        if ob["reason_header"] == "missing_credential" and known_top and not isinstance(top, PermissionError):
            for src in st.log:
                e = st.obs.get(src)
                okgate = e is None and src[0] == "gate"
                saw_none = isinstance(e, ValueError) and L.un.classify_auth_failure(e) is L.un.AuthReason.MISSING_CREDENTIAL \
                    if e is not None else False
                if not (okgate or saw_none):
                    ctx.fail(case, "C21:missing-reported-although-alternative-saw-credential",
                             f"{src} did {e!r} but the 401 says missing_credential")
                    break
        # section 3.1 on the all-AuthFailure subspace, any depth
        if app.tree is not None and not has_direct(app.tree):
            want = spec_code(L, app.tree, st.obs)
            if want is not None:
                ctx.tag("o:chain-rule")
                if ob["reason_header"] != want:
                    ctx.fail(case, f"C21:chain-rule:{want}->{ob['reason_header']}",
                             f"section 3.1 prescribes {want}, response says {ob['reason_header']}")

    # ---- K: the model on the same inputs --------------------------------------------------------
    if ctx.driver is None:
        return
    leaf_rows, gate_rows = [], []
    if app.tree is not None:
        for n in nodes(app.tree):
            kind = "leaf" if n["k"] == "leaf" else "gate"
            key = (kind, n["id"])
            if key in st.obs:
                o = exc_to_model(L, st.obs[key])
            elif n.get("direct"):
                o = exc_to_model(L, direct_outcome(L, n, req))
            elif key in rho and rho[key]["k"] != "ok":
                o = exc_to_model(L, build_exc(L, rho[key]))
            else:
                continue
            (leaf_rows if kind == "leaf" else gate_rows).append([n["id"], o])
    args = {"auth": app.mtree, "declared": [s2j(x) for x in (app.declared or [])], "proof": app.proof,
            "leaf": leaf_rows, "gate": gate_rows, "accept": s2j(req["accept"]) if req.get("accept") is not None else None}
    app.pending.append((case, args, ob, list(st.log)))
    if len(app.pending) >= 400:
        flush_requests(ctx, app)


def direct_outcome(L: Any, n: dict, req: dict) -> BaseException | None:
    """Behaviour of an unwrapped built-in on this request, recomputed on an equivalent request object."""
    import falcon.testing

    st = State()
    fn = build_gate(L, n, st) if n["k"] != "leaf" else build_auth(L, n, st)
    hd = request_headers(L, req)
    if n["k"] != "leaf" and (req.get("headers") or {}).get("VGI-Proxy-Proof") == "<valid>":
        return None  # a freshly minted proof verifies (its nonce differs from the one the app saw)
    try:
        fn(falcon.testing.create_req(headers=hd))
    except BaseException as e:
        return e
    return None


# ------------------------------------------------------------------------------------------ generators

ACCEPTS: list[str | None] = [None, "*/*", "application/json", "text/html", "text/html,application/xhtml+xml,*/*;q=0.8",
                             "TEXT/HTML", "text/htm", "application/json, text/html;q=0.1", "", "xtext/htmlx",
                             "application/vnd.apache.arrow.stream", "text/plain;text/html"]

ALPHABET: list[dict] = [
    {"k": "ok"},
    {"k": "af", "r": "missing_credential", "d": ""},
    {"k": "af", "r": "invalid_credential", "d": "bad token"},
    {"k": "af", "r": "expired_credential", "d": ""},
    {"k": "ve", "s": None},
    {"k": "ve", "s": "nope", "decl": "missing_credential"},
    {"k": "pe", "s": "forbidden"},
    {"k": "pe", "cls": "ProofError", "s": "bad_mac"},
    {"k": "un", "n": 7, "d": "idp down"},
    {"k": "other", "cls": "RuntimeError"},
]

DETAILS = ["", "token expired", "<b>&\"x'</b>", "na\u00efve \u2014 d\u00e9tail \u2713", "a" * 300, "line1\nline2", "</div><div class=\"note\">x",
           "missing_credential", "{\"reason\":\"x\"}"]


def gen_outcome(rng: Any, mode: str, gate: bool = False) -> dict:
    reasons = CLOSED
    if gate:
        x = rng.random()
        if mode in ("all-missing", "all-af") or x < 0.72:
            return {"k": "ok", "unverified": True} if rng.random() < 0.2 else {"k": "ok"}
        if x < 0.86:
            return {"k": "pe", "cls": rng.choice(["ProofError", "PermissionError", "MyPE"]), "s": rng.choice(["no", "", None]),
                    "decl": rng.choice([None, None, "proxy_required", "missing_credential"] + DECLS)}
        if x < 0.92:
            return {"k": "ve", "s": "gate raised ValueError", "decl": rng.choice([None, "missing_credential"] + DECLS)}
        if x < 0.97:
            return {"k": "un", "n": rng.choice([0, 1, 5, 30]), "d": rng.choice(["", "sidecar down"])}
        return {"k": "other", "cls": rng.choice(["RuntimeError", "KeyError"])}
    if mode == "all-missing":
        return {"k": "af", "r": "missing_credential", "d": rng.choice(["", "Missing Authorization header"])}
    if mode == "all-af":
        return {"k": "af", "r": rng.choice(reasons if rng.random() < 0.5 else ["missing_credential", "missing_credential", "invalid_credential"]),
                "d": rng.choice(DETAILS), "sub": rng.random() < 0.1}
    x = rng.random()
    if x < 0.45:
        return {"k": "af", "r": rng.choice(reasons + ["missing_credential"] * 4), "d": rng.choice(DETAILS), "sub": rng.random() < 0.1}
    if x < 0.62:
        return {"k": "ve", "cls": rng.choice(["ValueError", "ValueError", "MyVE", "UnicodeDecodeError", "JSONDecodeError"]),
                "s": rng.choice([None, "", "bad", "na\u00efve"]),
                "decl": rng.choice([None] * 8 + ["missing_credential"] * 3 + DECLS)}
    if x < 0.72:
        return {"k": "ok"}
    if x < 0.84:
        return {"k": "pe", "cls": rng.choice(["PermissionError", "MyPE", "ProofError"]), "s": rng.choice([None, "", "denied"]),
                "decl": rng.choice([None] * 8 + ["insufficient_scope", "missing_credential"] + DECLS)}
    if x < 0.93:
        return {"k": "un", "n": rng.choice([0, 1, 5, 30, 120]), "d": rng.choice(["", "introspection endpoint timed out"])}
    return {"k": "other", "cls": rng.choice(["RuntimeError", "KeyError", "TypeError", "OSError", "LookupError", "FileNotFoundError",
                                              "AssertionError"])}


HEADER_POOL = ["X-SSL-Client-Cert", "x-forwarded-client-cert", "VGI-Proxy-Proof", "X-Edge-Auth", "x-edge-auth", "", "X-A, X-B"]


def gen_headers(rng: Any) -> list[str]:
    x = rng.random()
    if x < 0.6:
        return []
    if x < 0.85:
        return [rng.choice(HEADER_POOL)]
    return [rng.choice(HEADER_POOL) for _ in range(rng.choice([2, 2, 3, 4]))]


def gen_tree(rng: Any, d: int, force: bool, counter: list[int], builtins: bool) -> dict:
    def nid() -> int:
        counter[0] += 1
        return counter[0]

    if d <= 1 or (not force and rng.random() < 0.3):
        if builtins and rng.random() < 0.3:
            impl = rng.choice(["bearer", "bearerv", "xfcc", "mtls"])
            t = {"k": "leaf", "id": nid(), "impl": impl, "direct": impl != "bearerv" and rng.random() < 0.25}
            if impl == "mtls":
                t["header"] = rng.choice(["X-SSL-Client-Cert", "X-Client-Cert"])
            return t
        return {"k": "leaf", "id": nid(), "h": gen_headers(rng), "decl": rng.choice(["declare", "declare", "attr-list", "attr-tuple"])}
    k = rng.choice(["chain", "chain", "chain", "req", "req", "gate"]) if d > 1 else "leaf"
    if k == "chain":
        n = rng.choice([1, 2, 2, 3, 3, 4])
        pos = rng.randrange(n)
        return {"k": "chain", "m": [gen_tree(rng, d - 1, force and j == pos, counter, builtins) for j in range(n)]}
    g: dict = {"k": k, "id": nid()}
    if builtins and rng.random() < 0.35:
        g["gimpl"] = rng.choice(["proof-require", "proof-allow"])
        g["direct"] = rng.random() < 0.25
    else:
        g["h"] = gen_headers(rng)
    if k == "req":
        g["inner"] = gen_tree(rng, d - 1, force, counter, builtins)
    return g


def gen_request(rng: Any, tree: dict | None) -> dict:
    mode = rng.choice(["mixed", "mixed", "mixed", "all-af", "all-af", "all-missing"])
    rho = []
    headers: dict[str, str] = {}
    if tree is not None:
        for n in nodes(tree):
            if n["k"] == "leaf" and n.get("impl", "script") in ("script", "bearerv"):
                rho.append(["leaf", n["id"], gen_outcome(rng, mode)])
            elif n["k"] != "leaf" and n.get("gimpl", "script") == "script":
                rho.append(["gate", n["id"], gen_outcome(rng, mode, gate=True)])
        impls = {n.get("impl") or n.get("gimpl") for n in nodes(tree)}
        if impls & {"bearer", "bearerv"}:
            v = rng.choice([None, "Bearer good", "Bearer good", "Bearer wrong", "Basic abc", "Bearer "])
            if v is not None:
                headers["Authorization"] = v
        if "xfcc" in impls:
            v = rng.choice([None, None, 'Hash=abc;Subject="CN=alice"', ";;;", "Subject=\"CN=bob\",Hash=1"])
            if v is not None:
                headers["x-forwarded-client-cert"] = v
        if "mtls" in impls:
            for hn in {n.get("header", "X-SSL-Client-Cert") for n in nodes(tree) if n.get("impl") == "mtls"}:
                v = rng.choice([None, None, "garbage", "-----BEGIN%20CERTIFICATE-----%0Aabc%0A-----END%20CERTIFICATE-----"])
                if v is not None:
                    headers[hn] = v
        if impls & {"proof-require", "proof-allow"}:
            v = rng.choice([None, None, "<valid>", "<valid>", "garbage", "v1.k1.1.AAAA.BBBB", "a,b"])
            if v is not None:
                headers["VGI-Proxy-Proof"] = v
    return {"rho": rho, "accept": rng.choice(ACCEPTS), "headers": headers}


def gen_declared(rng: Any) -> list[str] | None:
    return rng.choice([None, None, None, [], ["X-Edge-Auth"], ["X-A", "X-A", "X-B"], [""], ["x-forwarded-client-cert"]])


# ------------------------------------------------------------------------------------------ client bodies


def segs_bytes(segs: list) -> bytes:
    return b"".join(bytes.fromhex(h) * n for h, n in segs)


def B(*parts: Any) -> list:
    """Body recipe: alternating bytes / (bytes, count)."""
    out = []
    for p in parts:
        if isinstance(p, tuple):
            out.append([p[0].hex(), p[1]])
        else:
            out.append([p.hex(), 1])
    return out


def body_corpus() -> list[tuple[str, list]]:
    env = lambda **kw: json.dumps(kw).encode()  # noqa: E731
    c: list[tuple[str, list]] = [
        ("deep", B((b"[", 200000))),
        ("deep", B((b'{"a":', 200000))),
        ("deep", B(b'{"detail":', (b"[", 200000))),
        ("deep", B(b'{"reason":', (b'{"a":', 50000), b"1", (b"}", 50000), b"}")),
        ("deep", B((b"[", 50000), (b"]", 50000))),
        ("deep", B((b"[", 9000), (b"]", 9000))),
        ("deep", B((b"[", 5000), b'"x"', (b"]", 5000))),
        ("deep", B(b'{"reason":"expired_credential","detail":', (b"[", 3000), (b"]", 3000), b"}")),
        ("deep", B(b'{"reason":"expired_credential","proxy_hint":', (b'{"k":', 2000), b"null", (b"}", 2000), b"}")),
        ("deep", B((b" ", 30000), (b"[", 60000))),
        ("deep", B((b"[{\"a\":", 30000))),
        ("empty", B(b"")), ("empty", B(b"   ")), ("empty", B(b"\n\t\r ")), ("empty", B(b"\xc2\xa0\xe2\x80\x83")),
        ("html", B(b"<!DOCTYPE html>\n<html><body>", (b"x", 5000), b"</body></html>")),
        ("html", B(b"<html>")), ("html", B(b"<HTML lang=en>")), ("html", B(b"  \n<!doctype HTML>")), ("html", B(b"<!DocType")),
        ("html", B(b"\xef\xbb\xbf<!DOCTYPE html>")), ("html", B(b"<!doctyp")), ("html", B(b"<htm")), ("html", B(b"x<html>")),
        ("html", B("<\u212aml>".encode())), ("html", B("<!DOCTYPE\u00a0html>".encode())), ("html", B("<HT\u0130ML>".encode())),
        ("text", B(b"nginx says no. ", (b"y", 5000))), ("text", B(b"Unauthorized")), ("text", B(b"401")),
        ("text", B((b"\xe2\x9c\x93", 600))), ("text", B((b"\xf0\x9f\x98\x80", 501))), ("text", B(b" ", (b"a", 500), b" ")),
        ("badutf8", B(b"\xff\xfe")), ("badutf8", B(b"\xc0\xaf")), ("badutf8", B(b"\xed\xa0\x80")), ("badutf8", B(b"{\"reason\":\"\xff\"}")),
        ("badutf8", B((b"\x80", 700))), ("badutf8", B(b"\xf4\x90\x80\x80 tail")), ("badutf8", B(b"abc\xe2\x82")),
        ("json-scalar", B(b"null")), ("json-scalar", B(b"true")), ("json-scalar", B(b"0")), ("json-scalar", B(b"-1.5e3")),
        ("json-scalar", B(b'"x"')), ("json-scalar", B(b"NaN")), ("json-scalar", B(b"Infinity")), ("json-scalar", B(b"1e999999")),
        ("json-scalar", B((b"9", 5000))), ("json-scalar", B(b"-", (b"9", 4301))), ("json-scalar", B((b"9", 4300))),
        ("json-scalar", B(b'"\\ud800"')), ("json-scalar", B(b'["nope"]')), ("json-scalar", B(b"[]")), ("json-scalar", B(b"[{}]")),
        ("json-dict", B(b"{}")), ("json-dict", B(b" {} ")), ("json-dict", B(b"\xef\xbb\xbf{}")),
        ("json-dict", B(env(error="unauthorized", reason="expired_credential", detail="token expired", proxy_hint="check the proxy"))),
        ("json-dict", B(env(reason="from_the_future", detail="d"))),
        ("json-dict", B(env(reason="EXPIRED_CREDENTIAL"))), ("json-dict", B(env(reason="AuthReason.UNAUTHORIZED"))),
        ("json-dict", B(env(reason=" missing_credential"))), ("json-dict", B(env(reason="missing_credential\n"))),
        ("json-dict", B(env(reason=None, detail=None, proxy_hint=None))), ("json-dict", B(env(reason=1, detail=2.5, proxy_hint=True))),
        ("json-dict", B(env(reason=["expired_credential"], detail={"a": 1}, proxy_hint=[]))),
        ("json-dict", B(env(reason={"value": "expired_credential"}))), ("json-dict", B(env(reason=False))),
        ("json-dict", B(b'{"reason":"expired_credential","reason":"invalid_credential"}')),
        ("json-dict", B(b'{"reason":"\\ud800"}')), ("json-dict", B(b'{"detail":"\\udc00x","reason":"proxy_required"}')),
        ("json-dict", B(b'{"reason":"proxy\\u005frequired"}')), ("json-dict", B(b'{"reason":"unauthorized","detail":"', (b"z", 100000), b'"}')),
        ("json-dict", B(b'{"reason":', (b"9", 4000), b"}")), ("json-dict", B(b'{"reason":', (b"9", 4400), b"}")),
        ("json-dict", B(b'{"detail":1e400,"reason":NaN}')), ("json-dict", B(b'{"title": "401 Unauthorized", "description": "x"}')),
        ("json-dict", B(b'{"reason":"missing_credential"')), ("json-dict", B(b'{"reason":"missing_credential"}garbage')),
        ("json-dict", B(b"{'reason':'missing_credential'}")), ("json-dict", B(b'{"reason":"missing_credential",}')),
        ("json-dict", B(b'{"REASON":"missing_credential"}')), ("json-dict", B(b'{"reason":"missing_credential\\u0000"}')),
    ]
    for r in CLOSED:
        c.append(("json-dict", B(env(error="unauthorized", reason=r, detail=""))))
    for enc in ("utf-16", "utf-16-le", "utf-16-be", "utf-32", "utf-32-le", "utf-32-be", "utf-8-sig"):
        c.append(("json-enc", B('{"reason":"expired_credential","detail":"d\u00e9"}'.encode(enc))))
        c.append(("json-enc", B("<html>".encode(enc))))
    return c


def gen_value(rng: Any, d: int) -> Any:
    x = rng.random()
    if d <= 0 or x < 0.45:
        return rng.choice([None, True, False, 0, -7, 2**70, 1.5, 1e308, "", "x", "expired_credential", "na\u00efve \u2713", "\ud800", "a" * 40])
    if x < 0.75:
        return [gen_value(rng, d - 1) for _ in range(rng.choice([0, 1, 2, 3]))]
    return {rng.choice(["reason", "detail", "a", "", "proxy_hint"]): gen_value(rng, d - 1) for _ in range(rng.choice([0, 1, 2]))}


def gen_body(rng: Any) -> tuple[str, list]:
    x = rng.random()
    if x < 0.4:
        d: dict[str, Any] = {}
        if rng.random() < 0.85:
            d["reason"] = rng.choice(CLOSED + CLOSED + ["", "nope", "Missing_Credential", None, 3, ["unauthorized"], {"x": 1}, True])
        if rng.random() < 0.7:
            d["detail"] = gen_value(rng, 2) if rng.random() < 0.4 else rng.choice(DETAILS)
        if rng.random() < 0.4:
            d["proxy_hint"] = gen_value(rng, 2) if rng.random() < 0.4 else "This service only accepts \u2026"
        if rng.random() < 0.5:
            d["error"] = rng.choice(["unauthorized", "other", None])
        for _ in range(rng.choice([0, 0, 1, 2])):
            d[rng.choice(["extra", "title", "description", "a"])] = gen_value(rng, 2)
        b = json.dumps(d, ensure_ascii=rng.random() < 0.7).encode("utf-8", "surrogatepass")
        if rng.random() < 0.15 and b:
            p = rng.randrange(len(b))
            b = b[:p] + bytes([rng.choice([0xFF, 0x80, 0x22, 0x7B, 0x00, 0x5C])]) + b[p + rng.choice([0, 1]):]
        return "gen-dict", B(b)
    if x < 0.55:
        return "gen-value", B(json.dumps(gen_value(rng, 3)).encode("utf-8", "surrogatepass"))
    if x < 0.8:
        op = rng.choice([b"[", b'{"a":', b'[{"k":', b"[[", b'{"reason":'])
        n = rng.choice([1, 2, 10, 100, 500, 900, 990, 1000, 1010, 1100, 3000, 9990, 9997, 9998, 9999, 10000, 10001, 20000])
        if rng.random() < 0.04:
            n, op = 200000, rng.choice([b"[", b'{"a":'])
        cl = {b"[": b"]", b'{"a":': b"}", b'[{"k":': b"}]", b"[[": b"]]", b'{"reason":': b"}"}[op]
        inner = rng.choice([b"", b"1", b'"x"', b"null"])
        closed = rng.random() < 0.6
        pre = rng.choice([b"", b"", b'{"detail":', b'{"reason":"expired_credential","proxy_hint":', b" \n"])
        post = b"}" if pre.startswith(b"{") and closed else b""
        return "gen-deep", B(pre, (op, n), inner if closed else b"", (cl, n if closed else 0), post)
    if x < 0.9:
        alphabet = ["<", "!", "d", "D", "o", "c", "t", "y", "p", "e", "h", "H", "m", "l", ">", " ", "\n", "\u00a0", "\u2003",
                    "\u212a", "\u0130", "x", "\ufeff", "\x1c", "\x85"]
        s = "".join(rng.choice(alphabet) for _ in range(rng.choice([0, 1, 3, 8, 12, 30])))
        if rng.random() < 0.5:
            s = rng.choice(["<!doctype", "<!DOCTYPE html>", "<html", "  <HTML>", "<!doctyp", "<htm"]) + s
        return "gen-text", B(s.encode())
    return "gen-bytes", B(bytes(rng.randrange(256) for _ in range(rng.choice([1, 2, 5, 40, 600]))))


def loads_outcome(body: bytes) -> tuple[dict, str | None]:
    """What json.loads does with the body, in the model's vocabulary; second component = a reason the model input
    could not be formed."""
    try:
        v = json.loads(body)
    except RecursionError:
        return {"k": "raised", "e": "RecursionError"}, None
    except json.JSONDecodeError:
        return {"k": "raised", "e": "JSONDecodeError"}, None
    except UnicodeDecodeError:
        return {"k": "raised", "e": "UnicodeDecodeError"}, None
    except ValueError:
        return {"k": "raised", "e": "ValueError"}, None
    except BaseException as e:  # outside the modelled exception set of json.loads
        return {"k": "raised", "e": type(e).__name__}, f"json.loads raised {type(e).__name__}"
    if not isinstance(v, dict):
        return {"k": "nondict"}, None
    out: dict[str, Any] = {"k": "dict"}
    for key, name in (("reason", "reason"), ("detail", "detail"), ("proxy_hint", "hint")):
        if key in v:
            x = v[key]
            try:
                out[name] = {"s": s2j(desurrogate(x))} if isinstance(x, str) else {"o": s2j(desurrogate(str(x)))}
            except BaseException as e:
                return out, f"str() of the {key} value raised {type(e).__name__}"
    return out, None


_BODY_Q: list = []


def flush_bodies(ctx: Any) -> None:
    global _BODY_Q
    pend, _BODY_Q = _BODY_Q, []
    if ctx.driver is None or not pend:
        return
    res = ctx.driver.batch([("C21.parse", e[1]) for e in pend])
    for (case, _a, impl, *what), m in zip(pend, res):
        mm: dict[str, Any] = {"k": m["k"]}
        if m["k"] == "err":
            mm.update(reason=j2s(m["reason"]), detail=j2s(m["detail"]), hint=j2s(m["hint"]))
        else:
            mm["e"] = m["e"]
        if mm != impl:
            ctx.mismatch(case, mm, impl, what[0] if what else "_parse_unauthorized: model vs implementation")


# ---- the whole client on a 401 *response*: status 401 + arbitrary headers + arbitrary body, through http_connect ----

REASON_HEADERS: list[str | None] = (
    [None] + CLOSED + ["mfa_required", "from_the_future", "token_revoked", "Expired-Credential", "EXPIRED_CREDENTIAL",
                       "Missing_Credential", "", " ", " expired_credential ", "expired_credential\t", "expir\u00ebd_credential",
                       "\u00e9", "expired_credential, unauthorized", "null", "0", "x" * 600])
HEADER_KEYS = ["vgi-auth-reason", "VGI-Auth-Reason"]
RESP_BODIES: list[tuple[str, list]] = [
    ("envelope", B(b'{"error":"unauthorized","reason":"expired_credential","detail":"token expired"}')),
    ("envelope-hint", B(b'{"error":"unauthorized","reason":"proxy_required","detail":"d","proxy_hint":"check the proxy"}')),
    ("envelope-no-reason", B(b'{"error":"unauthorized","detail":"d"}')),
    ("envelope-unknown-reason", B(b'{"error":"unauthorized","reason":"from_the_future","detail":"d"}')),
    ("envelope-null-reason", B(b'{"error":"unauthorized","reason":null,"detail":"d"}')),
    ("envelope-empty", B(b"{}")),
    ("framework-json", B(b'{"title": "401 Unauthorized", "description": "x"}')),
    ("json-nondict", B(b'["expired_credential"]')),
    ("html", B(b"<!DOCTYPE html><html><body>Sign in</body></html>")),
    ("html", B(b"  <HTML><body>Step-up required</body></html>")),
    ("text", B(b"gateway says no")),
    ("text", B(b"expired_credential")),
    ("empty", B(b"")),
    ("empty", B(b" \n")),
    ("badutf8", B(b"\xff\xfe denied")),
    ("deep", B((b"[", 20000))),
]
CLIENT_PATHS = ["unary", "stream", "stream-header", "exchange"]


class _Gateway:
    """An in-process client whose every POST is answered by a scripted 401 (what a gateway / a newer server may send)."""

    def __init__(self, inner: Any) -> None:
        self._inner = inner
        self.body = b""
        self.headers: dict[str, str] = {}

    def __getattr__(self, name: str) -> Any:
        return getattr(self._inner, name)

    def post(self, *a: Any, **k: Any) -> Any:
        from vgi_rpc.http._testing import _SyncTestResponse

        return _SyncTestResponse(401, self.body, dict(self.headers))


_E2E: dict = {}


def _e2e() -> dict:
    if not _E2E:
        from vgi_rpc.conformance import ConformanceService, ConformanceServiceImpl
        from vgi_rpc.http import http_connect, make_sync_client
        from vgi_rpc.rpc import RpcServer

        def reject(req: Any) -> Any:
            raise ValueError("nope")

        gw = _Gateway(make_sync_client(RpcServer(ConformanceService, ConformanceServiceImpl()), authenticate=reject, token_key=b"k" * 32))
        cm = http_connect(ConformanceService, "http://testserver", client=gw)
        proxy = cm.__enter__()
        _E2E.update(gw=gw, cm=cm, proxy=proxy, calls={
            "unary": lambda: proxy.echo_int(value=1),
            "stream": lambda: proxy.produce_n(count=1),
            "stream-header": lambda: proxy.produce_with_header(count=1),
            "exchange": lambda: proxy.exchange_scale(factor=1.0),
        })
    return _E2E


def run_client401(ctx: Any, path: str, tag: str, segs: list, hkey: str, hval: str | None, extra: dict | None = None) -> None:
    """One call through the real client against a 401 response with this body and these headers.
    O: the call raises AuthenticationError — nothing else — with a closed-set reason (the envelope's known reason when
       it has one; otherwise `unauthorized` or, by spec section 6, the reason header's value when that is in the set).
    K: the error equals the model's parse of the body."""
    from vgi_rpc.http._unauthorized import AuthenticationError, AuthReason

    E = _e2e()
    body = segs_bytes(segs)
    headers = dict(extra or {})
    if hval is not None:
        headers[hkey] = hval
    E["gw"].body, E["gw"].headers = body, headers
    case = {"kind": "client401", "path": path, "segs": segs, "hkey": hkey, "hval": hval, "extra": extra}
    hclass = ("absent" if hval is None else "in-set" if hval in CLOSED else "empty" if not hval.strip() else
              "in-set-padded" if hval.strip() in CLOSED else "non-ascii" if not hval.isascii() else "out-of-set")
    ctx.case(case, nontrivial=True, tags=(f"e2e:path:{path}", f"e2e:body:{tag}", f"e2e:header:{hclass}"))
    try:
        r = E["calls"][path]()
        ctx.fail(case, f"C21:client-call-401-not-raised:{path}", f"the call returned {type(r).__name__} on a 401")
        return
    except AuthenticationError as e:
        err = e
    except BaseException as e:
        ctx.fail(case, f"C21:client-call-raised:{type(e).__name__}:{path}",
                 f"a 401 (body {tag}, {hkey}: {hval!r:.40}) surfaced as {type(e).__name__}: {str(e)[:80]} — not AuthenticationError")
        return
    if not isinstance(err.reason, AuthReason) or err.reason.value not in CLOSED:
        ctx.fail(case, f"C21:client-call-reason-not-closed:{path}", f"reason {err.reason!r}")
        return
    try:
        v = json.loads(body)
    except (ValueError, RecursionError):
        v = None
    if isinstance(v, dict) and isinstance(v.get("reason"), str) and v["reason"] in CLOSED:
        allowed = {v["reason"]}
    elif isinstance(v, dict) and "reason" in v:
        allowed = {"unauthorized"}  # section 4.3: an unrecognised reason is `unauthorized`
    else:
        allowed = {"unauthorized"} | ({hval.strip()} if hval is not None and hval.strip() in CLOSED else set())  # section 6 fallback
    if err.reason.value not in allowed:
        ctx.fail(case, f"C21:client-call-reason:{'|'.join(sorted(allowed))}->{err.reason.value}",
                 f"body {tag}, {hkey}: {hval!r:.40} gave {err.reason.value}")
    if ctx.driver is None:
        return
    lo, problem = loads_outcome(body)
    if problem is not None:
        return
    text = body.decode(errors="replace")
    impl = {"k": "err", "reason": err.reason.value, "detail": desurrogate(err.detail), "hint": desurrogate(err.proxy_hint)}
    _BODY_Q.append((case, {"loads": lo, "text": text if text.isascii() else s2j(text)}, impl,
                    "client call on a 401 response vs the model's parse of its body"))
    if len(_BODY_Q) >= 200:
        flush_bodies(ctx)


def run_client_calls(ctx: Any) -> None:
    rng = ctx.rng
    # exhaustive: reason-header value x body kind (x header-key spelling x call path, rotated so each pair sees all)
    n = 0
    for hi, hval in enumerate(REASON_HEADERS):
        for bi, (tag, segs) in enumerate(RESP_BODIES):
            for pi, path in enumerate(CLIENT_PATHS):
                if ctx.tier != "thorough" and not ctx.deep and (hi + bi + pi) % 2:
                    continue
                run_client401(ctx, path, tag, segs, HEADER_KEYS[(hi + bi + pi) % 2 if ctx.tier != "thorough" else n % 2], hval,
                              {"content-type": ["application/json", "text/html; charset=utf-8", "text/plain"][bi % 3]})
                n += 1
    # random: generated bodies x generated header values
    for _ in range(ctx.budget(400, 8000)):
        tag, segs = gen_body(rng)
        if sum(len(h) // 2 * c for h, c in segs) > 300000:
            continue
        x = rng.random()
        if x < 0.3:
            hval: str | None = rng.choice(REASON_HEADERS)
        elif x < 0.6:
            base = rng.choice(CLOSED)
            hval = rng.choice([base.upper(), base.title(), base.replace("_", "-"), base + " ", " " + base, base[:-1], base + "2",
                               base + "," + rng.choice(CLOSED), base.replace("e", "\u00e9", 1)])
        else:
            hval = "".join(rng.choice("abcdefXYZ_- 0\u00e9") for _ in range(rng.randrange(0, 20)))
        run_client401(ctx, rng.choice(CLIENT_PATHS), tag, segs, rng.choice(HEADER_KEYS), hval,
                      rng.choice([None, {"cache-control": "no-store"}, {"vgi-auth-proxy-required": "true"}, {"www-authenticate": "Bearer"}]))
    flush_bodies(ctx)


def run_body(ctx: Any, tag: str, segs: list) -> None:
    from vgi_rpc.http._client import _open_response_stream, _parse_unauthorized
    from vgi_rpc.http._unauthorized import AuthenticationError, AuthReason

    body = segs_bytes(segs)
    case = {"kind": "body", "segs": segs}
    ctx.case(case, nontrivial=True, tags=(f"body:{tag}",))
    try:
        err = _parse_unauthorized(body)
        impl: dict[str, Any] = {"k": "err"}
    except BaseException as e:  # the property: never another exception
        ctx.tag("parse:raised")
        ctx.fail(case, f"C21:client-parser-raised:{type(e).__name__}", f"_parse_unauthorized raised {type(e).__name__}: {str(e)[:80]}")
        impl = {"k": "escaped", "e": type(e).__name__}
        err = None
    if err is not None:
        if not isinstance(err, AuthenticationError) or not isinstance(err.reason, AuthReason) or err.reason.value not in CLOSED:
            ctx.fail(case, "C21:client-reason-not-closed", f"parser returned {type(err).__name__} with reason {getattr(err, 'reason', None)!r}")
            return
        impl.update(reason=err.reason.value, detail=desurrogate(err.detail), hint=desurrogate(err.proxy_hint))
        ctx.tag(f"parse:{err.reason.value}")
        # section 4.3 / 6: an envelope's known reason is kept, an unrecognised one is `unauthorized`
        try:
            v = json.loads(body)
        except (ValueError, RecursionError):
            v = None
        if isinstance(v, dict) and isinstance(v.get("reason"), str):
            want = v["reason"] if v["reason"] in CLOSED else "unauthorized"
            if err.reason.value != want:
                ctx.fail(case, f"C21:client-envelope-reason:{want}->{err.reason.value}", f"envelope says {v['reason']!r}")
        elif not isinstance(v, dict) and err.reason.value != "unauthorized":
            ctx.fail(case, "C21:client-non-envelope-reason", f"non-envelope body gave {err.reason.value}")
        if len(body) < 4096:  # the raise site: a 401 is turned into exactly this error
            try:
                _open_response_stream(body, 401)
                ctx.fail(case, "C21:client-401-not-raised", "_open_response_stream returned on a 401")
            except AuthenticationError:
                pass
            except BaseException as e:
                ctx.fail(case, f"C21:client-401-raised-other:{type(e).__name__}", f"{type(e).__name__}")
    if ctx.driver is None:
        return
    lo, problem = loads_outcome(body)
    if problem is not None:
        ctx.mismatch(case, None, problem, "behaviour of CPython outside the model's environment")
        return
    text = body.decode(errors="replace")
    # ASCII text travels as a JSON string (the driver reads both forms); the 200 000-character bodies are ASCII
    _BODY_Q.append((case, {"loads": lo, "text": text if text.isascii() else s2j(text)}, impl))
    if len(_BODY_Q) >= 200 or len(body) > 100000:
        flush_bodies(ctx)


# ------------------------------------------------------------------------------------------ unit-level K


def run_units(ctx: Any, L: Any) -> None:
    rng = ctx.rng
    AR = L.un.AuthReason
    d = ctx.driver
    if d is None:
        return
    # the closed set in the interpreter = in the model
    got = [[n, j2s(v)] for n, v in d.call("C21.reasons", {})]
    want = [[m.name, m.value] for m in AR]
    ctx.case({"kind": "unit", "what": "reasons"}, tags=("unit:reasons",))
    if got != want:
        ctx.mismatch({"kind": "unit", "what": "reasons"}, got, want, "AuthReason members")
    if sorted(m.value for m in AR) != sorted(CLOSED):
        ctx.fail({"kind": "unit", "what": "reasons"}, "C21:closed-set-differs-from-spec", f"{[m.value for m in AR]}")
    # exception hierarchy table
    import builtins

    for cname in ["ValueError", "PermissionError", "OSError", "RuntimeError", "RecursionError", "UnicodeDecodeError", "Exception",
                  "BaseException", "JSONDecodeError"]:
        cls = json.JSONDecodeError if cname == "JSONDecodeError" else getattr(builtins, cname)
        want_s = [c.__name__ for c in cls.__mro__ if c is not object]
        got_s = d.call("C21.supers", {"c": cname})
        ctx.case({"kind": "unit", "what": "supers", "c": cname}, tags=("unit:supers",))
        if got_s != want_s:
            ctx.mismatch({"kind": "unit", "what": "supers", "c": cname}, got_s, want_s, "exception hierarchy")
    # _combine_reasons: exhaustive up to length 3 (4 in thorough), then random
    members = list(AR)
    seqs: list[tuple] = [()]
    for n in range(1, 5 if ctx.tier == "thorough" else 4):
        seqs += list(itertools.product(members, repeat=n))
    for _ in range(ctx.budget(300, 5000)):
        seqs.append(tuple(rng.choice(members + [AR.MISSING_CREDENTIAL] * 6) for _ in range(rng.randrange(1, 12))))
    res = d.batch([("C21.combine", {"codes": [s2j(c.value) for c in s]}) for s in seqs])
    for s, r in zip(seqs, res):
        impl = L.bearer._combine_reasons(list(s)).value
        case = {"kind": "unit", "what": "combine", "codes": [c.value for c in s]}
        ctx.case(case, tags=("unit:combine",))
        if j2s(r) != impl:
            ctx.mismatch(case, j2s(r), impl, "_combine_reasons")
        if s and impl != spec_chain([c.value for c in s]):
            ctx.fail(case, f"C21:combine-violates-3.1:{impl}", f"codes {[c.value for c in s]} -> {impl}")
    # classify_auth_failure / chain's code on every outcome kind
    outs = [o for o in ALPHABET if o["k"] != "ok"] + [gen_outcome(rng, "mixed") for _ in range(ctx.budget(200, 3000))]
    for dv in DECLS:  # every type and shape of the duck-typed declaration, on both exception families
        outs += [{"k": "ve", "cls": "MyVE", "s": "revoked", "decl": dv}, {"k": "ve", "s": None, "decl": dv},
                 {"k": "pe", "cls": "MyPE", "s": "suspended", "decl": dv}, {"k": "pe", "s": "", "decl": dv}]
    outs = [o for o in outs if o["k"] != "ok"]
    res = d.batch([("C21.classify", {"exc": exc_to_model(L, build_exc(L, o))}) for o in outs])
    for o, r in zip(outs, res):
        e = build_exc(L, o)
        case = {"kind": "unit", "what": "classify", "exc": o}
        ctx.case(case, tags=("unit:classify",))
        try:
            cr = L.un.classify_auth_failure(e)
        except BaseException as ce:  # runs inside the middleware's except handler: raising there is a 500, not a 401
            ctx.fail(case, f"C21:classify-raised:{type(ce).__name__}",
                     f"classify_auth_failure raised {type(ce).__name__}: {str(ce)[:80]} for declared {getattr(e, 'vgi_auth_reason', None)!r}")
            continue
        if not isinstance(cr, L.un.AuthReason) or cr.value not in CLOSED:
            ctx.fail(case, "C21:classify-outside-closed-set", f"classify_auth_failure returned {cr!r}")
            continue
        impl = {"reason": cr.value, "str": str(e), "caught": isinstance(e, ValueError)}
        mod = {"reason": j2s(r["reason"]), "str": j2s(r["str"]), "caught": r["caught"]}
        if o["k"] in ("un", "other"):  # never classified, and only an outage's text is ever rendered
            impl.pop("reason"), mod.pop("reason")
        if o["k"] == "other":
            impl.pop("str"), mod.pop("str")
        if mod != impl:
            ctx.mismatch(case, mod, impl, "classify_auth_failure / str(exc) / isinstance(exc, ValueError)")
        for cname, cls in (("ValueError", ValueError), ("PermissionError", PermissionError),
                           ("AuthUnavailableError", L.un.AuthUnavailableError), ("AuthFailure", L.un.AuthFailure)):
            if (cname in r["classes"]) != isinstance(e, cls):
                ctx.mismatch(case, r["classes"], [c.__name__ for c in type(e).__mro__], f"isinstance(exc, {cname})")
    # build_proxy_hint and the de-duplication
    hs = [[], [""], ["A"], ["A", "A"], ["A", "B"], ["B", "A", "B", "C", "A"], ["x-forwarded-client-cert"], ["a", "A"]]
    for _ in range(ctx.budget(200, 3000)):
        hs.append([rng.choice(HEADER_POOL + ["\u00e9", "a b"]) for _ in range(rng.randrange(0, 7))])
    r1 = d.batch([("C21.hint", {"headers": [s2j(x) for x in h]}) for h in hs])
    r2 = d.batch([("C21.dedup", {"headers": [s2j(x) for x in h]}) for h in hs])
    for h, a, b in zip(hs, r1, r2):
        case = {"kind": "unit", "what": "hint", "headers": h}
        ctx.case(case, tags=("unit:hint",))
        if j2s(a) != L.un.build_proxy_hint(h):
            ctx.mismatch(case, j2s(a), L.un.build_proxy_hint(h), "build_proxy_hint")

        def fresh(req: Any) -> Any:
            return None

        dd = list(L.un.proxy_headers_of(L.un.declare_proxy_headers(fresh, *h)))
        if [j2s(x) for x in b] != dd or dd != list(L.un.merge_proxy_headers(fresh)):
            ctx.mismatch(case, [j2s(x) for x in b], dd, "declare_proxy_headers / merge_proxy_headers de-duplication")
        if bool(L.un.build_proxy_hint(h)) != bool(h):
            ctx.fail(case, "C21:hint-presence", f"build_proxy_hint({h!r}) = {L.un.build_proxy_hint(h)[:30]!r}")
    # str.strip
    ws = [chr(c) for c in range(0x3100) if chr(c).isspace()] + ["\u2028", "\u2029", "\u205f", "\u3000"]
    strs = ["", " ", "\x1c", "\ufeffx", " a ", "\u200bx\u200b", "\x85a\x85", "a\u00a0"]
    for _ in range(ctx.budget(300, 5000)):
        strs.append("".join(rng.choice(ws + ["a", "<", "\u200b", "\ufeff", "\x00", "\x1b"]) for _ in range(rng.randrange(0, 8))))
    res = d.batch([("C21.strip", {"s": s2j(s)}) for s in strs])
    for s, r in zip(strs, res):
        ctx.case({"kind": "unit", "what": "strip", "s": s}, tags=("unit:strip",))
        if j2s(r) != s.strip():
            ctx.mismatch({"kind": "unit", "what": "strip", "s": s}, j2s(r), s.strip(), "str.strip")
    # str.lower on the sniffed prefixes: no non-ASCII code point lowers to a letter of "<!doctype" / "<html"
    letters = set("<!doctypehml")
    bad = [hex(c) for c in range(128, 0x110000) if not 0xD800 <= c <= 0xDFFF and any(ch in letters for ch in chr(c).lower())]
    ctx.case({"kind": "unit", "what": "lower-table"}, tags=("unit:lower",))
    if bad:
        ctx.mismatch({"kind": "unit", "what": "lower-table"}, [], bad, "non-ASCII code points whose lower() hits the sniff prefixes")
    # construction-time refusals
    ctx.case({"kind": "unit", "what": "construct"}, tags=("unit:construct",))
    try:
        L.H.chain_authenticate()
        ctx.mismatch({"kind": "unit", "what": "construct"}, "refused", "accepted", "chain_authenticate() with no members")
    except ValueError:
        pass
    try:
        L.H.chain_authenticate(L.bearer.PreconditionGate(lambda r: {}, name="g", claims_key="g"))
        ctx.mismatch({"kind": "unit", "what": "construct"}, "refused", "accepted", "a gate inside a chain")
    except TypeError:
        pass


# ------------------------------------------------------------------------------------------ run


def run_compositions(ctx: Any, L: Any) -> None:
    rng = ctx.rng
    thorough = ctx.tier == "thorough" or ctx.deep
    # ---- exhaustive: chains of scripted leaves over the outcome alphabet ------------------------
    maxlen = 4 if ctx.tier == "thorough" else 3
    for n in range(1, maxlen + 1):
        tree = {"k": "chain", "m": [{"k": "leaf", "id": i + 1, "h": []} for i in range(n)]}
        app = App(L, tree, None, False)
        notes: set = set()
        for combo in itertools.product(range(len(ALPHABET)), repeat=n):
            req = {"rho": [["leaf", i + 1, ALPHABET[c]] for i, c in enumerate(combo)],
                   "accept": ACCEPTS[sum(combo) % 4], "headers": {}}
            run_request(ctx, app, req, notes, tags=("gen:exhaustive-chain",))
        flush_requests(ctx, app)
    # require_all: gate outcome x inner outcome, with and without a note; gate alone
    for gh in ([], ["VGI-Proxy-Proof"]):
        tree = {"k": "req", "id": 1, "h": gh, "inner": {"k": "leaf", "id": 2, "h": []}}
        app = App(L, tree, None, False)
        notes = set()
        galpha = ALPHABET + [{"k": "ok", "unverified": True}]  # a gate that passes without having verified
        for a, b in itertools.product(range(len(galpha)), range(len(ALPHABET))):
            req = {"rho": [["gate", 1, galpha[a]], ["leaf", 2, ALPHABET[b]]], "accept": ACCEPTS[(a + b) % 4], "headers": {}}
            run_request(ctx, app, req, notes, tags=("gen:exhaustive-require-all",))
        flush_requests(ctx, app)
        app = App(L, {"k": "gate", "id": 1, "h": gh}, None, False)
        notes = set()
        for a in range(len(galpha)):
            run_request(ctx, app, {"rho": [["gate", 1, galpha[a]]], "accept": ACCEPTS[a % 4], "headers": {}}, notes,
                        tags=("gen:exhaustive-gate-only",))
        flush_requests(ctx, app)
    # single leaf x every outcome x every Accept value; no authenticator at all
    app = App(L, {"k": "leaf", "id": 1, "h": ["X-Edge-Auth"], "decl": "declare"}, ["X-Edge-Auth"], False)
    notes = set()
    for o in ALPHABET:
        for acc in ACCEPTS:
            run_request(ctx, app, {"rho": [["leaf", 1, o]], "accept": acc, "headers": {}}, notes, tags=("gen:leaf-x-accept",))
    flush_requests(ctx, app)
    # every type/shape of the duck-typed `vgi_auth_reason` x both exception families, at every position a third-party
    # exception can reach the middleware from: a bare callback, a `validate=` under the real bearer extractor, the
    # credential behind a gate, the gate itself, a PermissionError propagating through a chain, and (caught) in a chain
    shapes = [
        ({"k": "leaf", "id": 1, "h": []}, "leaf"),
        ({"k": "leaf", "id": 1, "impl": "bearerv"}, "leaf"),
        ({"k": "req", "id": 2, "h": [], "inner": {"k": "leaf", "id": 1, "h": []}}, "leaf"),
        ({"k": "gate", "id": 1, "h": ["VGI-Proxy-Proof"]}, "gate"),
        ({"k": "chain", "m": [{"k": "leaf", "id": 2, "h": []}, {"k": "leaf", "id": 1, "h": []}]}, "leaf"),
    ]
    for tree, kind in shapes:
        app = App(L, tree, None, False)
        notes = set()
        for j, dv in enumerate(DECLS):
            for o in ({"k": "ve", "cls": "MyVE", "s": "token revoked", "decl": dv}, {"k": "pe", "cls": "MyPE", "s": "tenant suspended", "decl": dv},
                      {"k": "ve", "s": None, "decl": dv}):
                rho = [[kind, 1, o]]
                if tree["k"] == "chain":
                    rho.append(["leaf", 2, {"k": "af", "r": "missing_credential", "d": ""}])
                run_request(ctx, app, {"rho": rho, "accept": ACCEPTS[j % 4], "headers": {"Authorization": "Bearer x"}}, notes,
                            tags=("gen:declared-shapes",))
        flush_requests(ctx, app)
    app = App(L, None, ["X-A"], True)
    run_request(ctx, app, {"rho": [], "accept": None, "headers": {}}, set(), tags=("gen:no-authenticator",))
    flush_requests(ctx, app)
    ctx.exhaustive = False
    # ---- the quantifier's named shapes with the real built-ins ------------------------------------
    named = [
        {"k": "leaf", "id": 1, "impl": "xfcc"},
        {"k": "leaf", "id": 1, "impl": "xfcc", "direct": True},
        {"k": "leaf", "id": 1, "impl": "mtls"},
        {"k": "leaf", "id": 1, "impl": "bearer"},
        {"k": "gate", "id": 1, "gimpl": "proof-require"},
        {"k": "gate", "id": 1, "gimpl": "proof-allow"},
        {"k": "gate", "id": 1, "gimpl": "proof-require", "direct": True},
        {"k": "req", "id": 1, "gimpl": "proof-require", "inner": {"k": "leaf", "id": 2, "impl": "bearer"}},
        {"k": "req", "id": 1, "gimpl": "proof-allow", "inner": {"k": "leaf", "id": 2, "impl": "bearer"}},
        {"k": "req", "id": 1, "gimpl": "proof-require", "direct": True, "inner": {"k": "leaf", "id": 2, "impl": "xfcc", "direct": True}},
        {"k": "chain", "m": [{"k": "leaf", "id": 1, "impl": "bearer"}, {"k": "leaf", "id": 2, "impl": "xfcc"}]},
        {"k": "chain", "m": [{"k": "leaf", "id": 1, "impl": "bearer"}, {"k": "leaf", "id": 2, "impl": "mtls"},
                             {"k": "leaf", "id": 3, "h": [], "decl": "declare"}]},
        {"k": "chain", "m": [{"k": "req", "id": 1, "gimpl": "proof-require", "inner": {"k": "leaf", "id": 2, "impl": "bearer"}},
                             {"k": "req", "id": 3, "gimpl": "proof-require", "inner": {"k": "leaf", "id": 4, "impl": "xfcc"}}]},
    ]
    for tree in named:
        for declared, proof, wrap in ((None, False, True), (None, False, False), (["X-Edge-Auth"], False, True), (None, True, False)):
            app = App(L, tree, declared, proof, wrap_top=wrap)
            notes = set()
            for _ in range(ctx.budget(12, 120)):
                run_request(ctx, app, gen_request(rng, tree), notes, tags=("gen:named-builtin",))
            flush_requests(ctx, app)
    # ---- random compositions ----------------------------------------------------------------------
    maxd = 7 if thorough else 4
    n_trees = ctx.budget(140, 4500)
    per = ctx.budget(10, 22)
    for ti in range(n_trees):
        d = 1 + (ti % maxd)
        tree = gen_tree(rng, d, True, [0], builtins=rng.random() < 0.4)
        app = App(L, tree, gen_declared(rng), rng.random() < 0.15, wrap_top=rng.random() < 0.6)
        notes = set()
        for _ in range(per):
            run_request(ctx, app, gen_request(rng, tree), notes, tags=("gen:random-tree", f"width:{min(len(nodes(tree)), 30)//5*5}+"))
        flush_requests(ctx, app)


def run_bodies(ctx: Any) -> None:
    rng = ctx.rng
    for tag, segs in body_corpus():
        run_body(ctx, tag, segs)
    for _ in range(ctx.budget(1200, 30000)):
        tag, segs = gen_body(rng)
        run_body(ctx, tag, segs)
    flush_bodies(ctx)


def run(ctx: Any) -> None:
    import time

    L = _lib()
    prev = logging.root.manager.disable
    logging.disable(logging.CRITICAL)  # the middleware logs every rejection
    try:
        t0 = time.time()
        run_units(ctx, L)
        t1 = time.time()
        run_bodies(ctx)
        run_client_calls(ctx)
        t2 = time.time()
        run_compositions(ctx, L)
        ctx.note("phase_seconds", {"units": round(t1 - t0, 1), "bodies": round(t2 - t1, 1), "compositions": round(time.time() - t2, 1)})
    finally:
        logging.disable(prev)


def replay(ctx: Any, case: dict) -> None:
    L = _lib()
    prev = logging.root.manager.disable
    logging.disable(logging.CRITICAL)
    try:
        if case.get("kind") == "client401":
            run_client401(ctx, case["path"], "replay", case["segs"], case["hkey"], case["hval"], case.get("extra"))
            flush_bodies(ctx)
        elif case.get("kind") == "body":
            run_body(ctx, "replay", case["segs"])
            flush_bodies(ctx)
        elif case.get("kind") == "compose":
            app = App(L, case["tree"], case["declared"], case["proof"], wrap_top=case.get("wrap_top", True))
            run_request(ctx, app, case["req"], set(), tags=("replay",))
            flush_requests(ctx, app)
        elif case.get("what") == "combine" and case.get("kind") == "unit":
            AR = L.un.AuthReason
            codes = [AR(c) for c in case["codes"]]
            impl = L.bearer._combine_reasons(codes).value
            ctx.case(case, tags=("replay",))
            if ctx.driver is not None:
                r = j2s(ctx.driver.call("C21.combine", {"codes": [s2j(c.value) for c in codes]}))
                if r != impl:
                    ctx.mismatch(case, r, impl, "_combine_reasons")
            if codes and impl != spec_chain(case["codes"]):
                ctx.fail(case, f"C21:combine-violates-3.1:{impl}", f"codes {case['codes']} -> {impl}")
        else:
            run_units(ctx, L)
    finally:
        logging.disable(prev)
